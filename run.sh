#!/bin/bash
# usage: ./run.sh <property> <quick|thorough>
# Rebuilds the checker when its sources changed, then analyses /repo's
# current working tree. Static analysis only: nothing from /repo is executed.
set -u
cd "$(dirname "$0")"
export GOFLAGS=-mod=mod GOPROXY=off GOSUMDB=off GOTOOLCHAIN=local GOWORK=off
unset GOWORK
export GOWORK=off
BIN=bin/lovcheck
need=0
[ -x "$BIN" ] || need=1
if [ $need -eq 0 ] && [ -n "$(find checker -newer "$BIN" -name '*.go' -print -quit 2>/dev/null)" ]; then need=1; fi
if [ $need -eq 1 ]; then
  mkdir -p bin
  (cd checker && go build -o ../bin/lovcheck.tmp.$$ . && mv ../bin/lovcheck.tmp.$$ ../bin/lovcheck) || { echo "checker build failed"; exit 2; }
fi
exec "$BIN" -property "$1" -tier "${2:-${VERIF_TIER:-quick}}"
