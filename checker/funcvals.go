package main

import (
	"go/types"
	"strings"

	"golang.org/x/tools/go/ssa"
)

// Resolution of calls through function values (no points-to analysis is
// available, DESIGN.md section 9): a called value is followed to
//   - a function or closure,
//   - the entries of a package-level table (map or slice/array of functions)
//     filled by the package initialiser,
//   - the stores into a local variable or a captured cell,
//   - for a function-typed parameter, the arguments at every call site of the
//     enclosing function (static sites, and dynamic sites that resolve without
//     looking at parameters).
// Anything else stays unresolved.

type funcValState struct {
	dynSites map[*ssa.Function][]callSite
	building bool
}

var funcValCache = map[*Program]*funcValState{}

func (p *Program) fvState() *funcValState {
	if st, ok := funcValCache[p]; ok {
		return st
	}
	st := &funcValState{dynSites: map[*ssa.Function][]callSite{}, building: true}
	funcValCache = map[*Program]*funcValState{p: st}
	for _, fn := range p.srcFuncs {
		for _, b := range fn.Blocks {
			for _, ins := range b.Instrs {
				c, ok := ins.(ssa.CallInstruction)
				if !ok {
					continue
				}
				cc := c.Common()
				if cc.IsInvoke() || cc.StaticCallee() != nil {
					continue
				}
				for _, t := range p.funcValues(cc.Value, 0, false) {
					st.dynSites[t] = append(st.dynSites[t], callSite{caller: fn, instr: ins})
				}
			}
		}
	}
	st.building = false
	return st
}

// sliceTableFuncs: the function values the package initialiser stores into the
// backing array of the slice (or into the array) held by a package-level variable.
func (p *Program) sliceTableFuncs(g *ssa.Global) []*ssa.Function {
	if g == nil || g.Pkg == nil {
		return nil
	}
	ini := g.Pkg.Func("init")
	if ini == nil {
		return nil
	}
	backing := map[ssa.Value]bool{}
	for _, b := range ini.Blocks {
		for _, ins := range b.Instrs {
			st, ok := ins.(*ssa.Store)
			if !ok || st.Addr != ssa.Value(g) {
				continue
			}
			switch v := st.Val.(type) {
			case *ssa.Slice:
				backing[v.X] = true
			case *ssa.UnOp:
				backing[v.X] = true
			}
		}
	}
	backing[g] = true // array variable initialised element by element
	var out []*ssa.Function
	for _, b := range ini.Blocks {
		for _, ins := range b.Instrs {
			st, ok := ins.(*ssa.Store)
			if !ok {
				continue
			}
			ia, ok := st.Addr.(*ssa.IndexAddr)
			if !ok || !backing[ia.X] {
				continue
			}
			switch v := st.Val.(type) {
			case *ssa.Function:
				out = append(out, v)
			case *ssa.MakeClosure:
				if f, isF := v.Fn.(*ssa.Function); isF {
					out = append(out, f)
				}
			}
		}
	}
	return out
}

// returnedFuncs: the functions result idx of the static repository callee of c may
// denote; nil unless every return resolves.
func (p *Program) returnedFuncs(c *ssa.Call, idx, depth int, params bool) []*ssa.Function {
	g := c.Call.StaticCallee()
	if g == nil || g.Blocks == nil || !p.inRepo(g) {
		return nil
	}
	var out []*ssa.Function
	for _, b := range g.Blocks {
		if isRecoverBlock(b) {
			continue
		}
		ret, ok := b.Instrs[len(b.Instrs)-1].(*ssa.Return)
		if !ok || idx >= len(ret.Results) {
			continue
		}
		v := retValue(ret, idx)
		if isNilConst(v) {
			continue
		}
		fs := p.funcValues(v, depth+1, params)
		if len(fs) == 0 {
			return nil
		}
		out = append(out, fs...)
	}
	return out
}

func isFuncType(t types.Type) bool {
	_, ok := t.Underlying().(*types.Signature)
	return ok
}

// funcValues resolves a function-typed value to the functions it may denote.
func (p *Program) funcValues(v ssa.Value, depth int, params bool) []*ssa.Function {
	if v == nil || depth > 5 {
		return nil
	}
	switch x := v.(type) {
	case *ssa.Function:
		return []*ssa.Function{x}
	case *ssa.MakeClosure:
		if f, ok := x.Fn.(*ssa.Function); ok {
			return []*ssa.Function{f}
		}
	case *ssa.ChangeType:
		return p.funcValues(x.X, depth+1, params)
	case *ssa.Phi:
		var out []*ssa.Function
		for _, e := range x.Edges {
			out = append(out, p.funcValues(e, depth+1, params)...)
		}
		return out
	case *ssa.Call:
		// the function a helper of the repository returns (unlock := lockAll(); defer unlock())
		return p.returnedFuncs(x, 0, depth, params)
	case *ssa.Extract:
		if c, ok := x.Tuple.(*ssa.Call); ok {
			return p.returnedFuncs(c, x.Index, depth, params)
		}
		if g := dispatchTable(x); g != nil {
			var out []*ssa.Function
			for _, e := range p.tableFuncs(g) {
				out = append(out, e.fn)
			}
			return out
		}
	case *ssa.Lookup:
		if g := dispatchTable(x); g != nil {
			var out []*ssa.Function
			for _, e := range p.tableFuncs(g) {
				out = append(out, e.fn)
			}
			return out
		}
	case *ssa.Index:
		// element of an array value loaded from a global
		if ld, ok := x.X.(*ssa.UnOp); ok {
			if g, isG := ld.X.(*ssa.Global); isG {
				return p.sliceTableFuncs(g)
			}
		}
	case *ssa.UnOp:
		switch a := x.X.(type) {
		case *ssa.IndexAddr:
			// element of a local slice/array literal of functions
			var arr ssa.Value
			switch base := a.X.(type) {
			case *ssa.Slice:
				arr = base.X
			case *ssa.Alloc:
				arr = base
			}
			if al, ok := arr.(*ssa.Alloc); ok {
				var out []*ssa.Function
				if refs := al.Referrers(); refs != nil {
					for _, rf := range *refs {
						if ia, ok := rf.(*ssa.IndexAddr); ok {
							if irefs := ia.Referrers(); irefs != nil {
								for _, ir := range *irefs {
									if st, ok := ir.(*ssa.Store); ok && st.Addr == ssa.Value(ia) {
										out = append(out, p.funcValues(st.Val, depth+1, params)...)
									}
								}
							}
						}
					}
				}
				return out
			}
			// element of a slice of functions received as a (variadic) parameter: what the
			// call sites pack into it
			if prm, ok := a.X.(*ssa.Parameter); ok && params {
				f := prm.Parent()
				idx := -1
				for i, q := range f.Params {
					if q == prm {
						idx = i
					}
				}
				var out []*ssa.Function
				if idx >= 0 {
					sites := append([]callSite{}, getCallIndex(p).sites[f]...)
					for _, st := range sites {
						c, ok := st.instr.(ssa.CallInstruction)
						if !ok || idx >= len(c.Common().Args) {
							continue
						}
						if sl, ok := c.Common().Args[idx].(*ssa.Slice); ok {
							if al, ok := sl.X.(*ssa.Alloc); ok {
								if refs := al.Referrers(); refs != nil {
									for _, rf := range *refs {
										if ia, ok := rf.(*ssa.IndexAddr); ok {
											if irefs := ia.Referrers(); irefs != nil {
												for _, ir := range *irefs {
													if s2, ok := ir.(*ssa.Store); ok && s2.Addr == ssa.Value(ia) {
														out = append(out, p.funcValues(s2.Val, depth+1, params)...)
													}
												}
											}
										}
									}
								}
							}
						}
					}
				}
				return out
			}
			// element of a package-level slice/array of functions
			switch base := a.X.(type) {
			case *ssa.UnOp:
				if g, isG := base.X.(*ssa.Global); isG {
					return p.sliceTableFuncs(g)
				}
			case *ssa.Global:
				return p.sliceTableFuncs(base)
			}
		case *ssa.Alloc:
			// a local variable: every value stored into it
			var out []*ssa.Function
			if refs := a.Referrers(); refs != nil {
				for _, rf := range *refs {
					if st, ok := rf.(*ssa.Store); ok && st.Addr == ssa.Value(a) {
						out = append(out, p.funcValues(st.Val, depth+1, params)...)
					}
				}
			}
			return out
		case *ssa.FreeVar:
			// a captured cell: the stores into the cell in the enclosing function
			var out []*ssa.Function
			for _, cell := range freeVarBindings(a) {
				if al, ok := cell.(*ssa.Alloc); ok {
					if refs := al.Referrers(); refs != nil {
						for _, rf := range *refs {
							if st, ok := rf.(*ssa.Store); ok && st.Addr == ssa.Value(al) {
								out = append(out, p.funcValues(st.Val, depth+1, params)...)
							}
						}
					}
				}
			}
			return out
		case *ssa.Global:
			if isFuncType(x.Type()) {
				// a package-level function variable: what init stores into it
				var out []*ssa.Function
				if a.Pkg != nil {
					if ini := a.Pkg.Func("init"); ini != nil {
						for _, b := range ini.Blocks {
							for _, ins := range b.Instrs {
								if st, ok := ins.(*ssa.Store); ok && st.Addr == ssa.Value(a) {
									out = append(out, p.funcValues(st.Val, depth+1, params)...)
								}
							}
						}
					}
				}
				return out
			}
		}
		if g := dispatchTable(x); g != nil {
			var out []*ssa.Function
			for _, e := range p.tableFuncs(g) {
				out = append(out, e.fn)
			}
			return out
		}
	case *ssa.FreeVar:
		var out []*ssa.Function
		for _, bv := range freeVarBindings(x) {
			out = append(out, p.funcValues(bv, depth+1, params)...)
		}
		return out
	case *ssa.Parameter:
		if !params || !isFuncType(x.Type()) {
			return nil
		}
		f := x.Parent()
		idx := -1
		for i, q := range f.Params {
			if q == x {
				idx = i
			}
		}
		if idx < 0 {
			return nil
		}
		var out []*ssa.Function
		sites := append([]callSite{}, getCallIndex(p).sites[f]...)
		sites = append(sites, p.fvState().dynSites[f]...)
		for _, s := range sites {
			c, ok := s.instr.(ssa.CallInstruction)
			if !ok {
				continue
			}
			args := c.Common().Args
			// a bound method value or closure call passes the same argument list
			if idx < len(args) {
				out = append(out, p.funcValues(args[idx], depth+1, true)...)
			}
		}
		return out
	}
	return nil
}

// freeVarBindings: the values bound to free variable fv where its closure is made.
func freeVarBindings(fv *ssa.FreeVar) []ssa.Value {
	cl := fv.Parent()
	par := cl.Parent()
	if par == nil {
		return nil
	}
	idx := -1
	for i, q := range cl.FreeVars {
		if q == fv {
			idx = i
		}
	}
	if idx < 0 {
		return nil
	}
	var out []ssa.Value
	for _, b := range par.Blocks {
		for _, ins := range b.Instrs {
			if mc, ok := ins.(*ssa.MakeClosure); ok && mc.Fn == ssa.Value(cl) && idx < len(mc.Bindings) {
				out = append(out, mc.Bindings[idx])
			}
		}
	}
	return out
}

// CallSitesOf: the static call sites of fn plus the dynamic ones that resolve to it.
func (p *Program) CallSitesOf(fn *ssa.Function) []callSite {
	out := append([]callSite{}, getCallIndex(p).sites[fn]...)
	st := p.fvState()
	out = append(out, st.dynSites[fn]...)
	// sites that call fn through a function-typed parameter
	for _, g := range p.srcFuncs {
		for _, b := range g.Blocks {
			for _, ins := range b.Instrs {
				c, ok := ins.(ssa.CallInstruction)
				if !ok {
					continue
				}
				cc := c.Common()
				if cc.IsInvoke() || cc.StaticCallee() != nil {
					continue
				}
				if _, isParam := cc.Value.(*ssa.Parameter); !isParam {
					continue
				}
				for _, t := range p.funcValues(cc.Value, 0, true) {
					if t == fn {
						out = append(out, callSite{caller: g, instr: ins})
					}
				}
			}
		}
	}
	return out
}

// boundWrappersOf: the synthetic bound-method wrappers (x.m used as a value) of method fn
// that the repository creates.
func boundWrappersOf(p *Program, fn *ssa.Function) []*ssa.Function {
	if fn == nil || fn.Object() == nil {
		return nil
	}
	seen := map[*ssa.Function]bool{}
	var out []*ssa.Function
	for _, g := range p.srcFuncs {
		for _, b := range g.Blocks {
			for _, ins := range b.Instrs {
				mc, ok := ins.(*ssa.MakeClosure)
				if !ok {
					continue
				}
				w, ok := mc.Fn.(*ssa.Function)
				if !ok || seen[w] || w.Synthetic == "" || !strings.HasSuffix(w.Name(), "$bound") {
					continue
				}
				if w.Object() == fn.Object() {
					seen[w] = true
					out = append(out, w)
				}
			}
		}
	}
	return out
}
