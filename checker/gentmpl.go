package main

import (
	"fmt"
	"go/ast"
	"go/parser"
	"go/token"
	"os"
	"sort"
	"strconv"
	"strings"
	"text/template/parse"
)

// GEN-TMPL — the Go code that the generator's text/template emits for
// pointer, slice and map columns, analysed without executing the template.
//
// The template source is a string constant of package modelgen. It is parsed
// with text/template/parse (syntax only) and specialised three times, once per
// shape of $type (pointer, slice, map): conditions that only inspect the first
// characters of $type (`eq (index $type 0) '*'`, `eq (slice $type 0 2) "[]"`,
// `eq (slice $type 0 3) "map"` and `or` of those) are decided from the shape,
// every other branch is emitted both ways, value actions become the identifier
// X. The resulting text is cut into top-level function declarations, each
// parsed with go/parser; rules then run on that syntax:
//
//   map shape    the equality helper must not compare the result of a
//                single-value lookup b[k] (k the key of the enclosing range
//                over the other operand): a missing key reads as the zero
//                value and equals a zero-valued entry. It must contain a
//                comma-ok lookup whose ok is tested;
//   slice/map    the equality helper compares the lengths before its loop;
//   all shapes   the copy helper never returns its argument (it returns a
//                newly made value, or the address of a local copy).

type tmplShape int

const (
	shapePtr tmplShape = iota
	shapeSlice
	shapeMap
)

func (s tmplShape) String() string { return [...]string{"pointer", "slice", "map"}[s] }

// decideShapeCond evaluates a pipeline that only looks at the head of $type.
// known=false when the pipeline is anything else.
func decideShapeCond(n parse.Node, shape tmplShape, dotIsType bool) (val, known bool) {
	switch x := n.(type) {
	case *parse.PipeNode:
		if len(x.Decl) == 0 && len(x.Cmds) == 1 {
			return decideShapeCond(x.Cmds[0], shape, dotIsType)
		}
	case *parse.CommandNode:
		if len(x.Args) == 0 {
			return false, false
		}
		id, ok := x.Args[0].(*parse.IdentifierNode)
		if !ok {
			if len(x.Args) == 1 {
				return decideShapeCond(x.Args[0], shape, dotIsType)
			}
			return false, false
		}
		switch id.Ident {
		case "or", "and":
			res := id.Ident == "and"
			for _, a := range x.Args[1:] {
				v, k := decideShapeCond(a, shape, dotIsType)
				if !k {
					return false, false
				}
				if id.Ident == "or" {
					res = res || v
				} else {
					res = res && v
				}
			}
			return res, true
		case "not":
			if len(x.Args) == 2 {
				v, k := decideShapeCond(x.Args[1], shape, dotIsType)
				return !v, k
			}
		case "eq":
			if len(x.Args) != 3 {
				return false, false
			}
			head, lit := x.Args[1], x.Args[2]
			hs := head.String()
			if dotIsType {
				// inside a template executed with the field type as its argument
				hs = strings.Replace(strings.Replace(hs, "index . ", "index $type ", 1), "slice . ", "slice $type ", 1)
			}
			if !strings.Contains(hs, "$type") {
				return false, false
			}
			var want string
			switch l := lit.(type) {
			case *parse.StringNode:
				want = l.Text
			case *parse.NumberNode: // character constant
				if l.IsInt {
					want = string(rune(l.Int64))
				}
			}
			if want == "" {
				return false, false
			}
			var sample string
			switch shape {
			case shapePtr:
				sample = "*T"
			case shapeSlice:
				sample = "[]T"
			case shapeMap:
				sample = "map[K]V"
			}
			// (index $type 0) or (slice $type 0 n)
			if strings.Contains(hs, "index $type 0") {
				return sample[:1] == want, true
			}
			if strings.Contains(hs, "slice $type 0 ") {
				nstr := strings.TrimSuffix(strings.TrimSpace(hs[strings.Index(hs, "slice $type 0 ")+len("slice $type 0 "):]), ")")
				if k, err := strconv.Atoi(nstr); err == nil && k <= len(sample) {
					return sample[:k] == want, true
				}
			}
		}
	}
	return false, false
}

func renderTmpl(n parse.Node, shape tmplShape, sb *strings.Builder, set map[string]*parse.Tree, dotIsType bool, depth int) {
	switch x := n.(type) {
	case nil:
	case *parse.ListNode:
		if x == nil {
			return
		}
		for _, c := range x.Nodes {
			renderTmpl(c, shape, sb, set, dotIsType, depth)
		}
	case *parse.TextNode:
		sb.Write(x.Text)
	case *parse.ActionNode:
		if len(x.Pipe.Decl) > 0 {
			return // variable declaration / assignment: emits nothing
		}
		sb.WriteString("X")
	case *parse.IfNode:
		if v, known := decideShapeCond(x.Pipe, shape, dotIsType); known {
			if v {
				renderTmpl(x.List, shape, sb, set, dotIsType, depth)
			} else if x.ElseList != nil {
				renderTmpl(x.ElseList, shape, sb, set, dotIsType, depth)
			}
			return
		}
		renderTmpl(x.List, shape, sb, set, dotIsType, depth)
		if x.ElseList != nil {
			renderTmpl(x.ElseList, shape, sb, set, dotIsType, depth)
		}
	case *parse.RangeNode:
		renderTmpl(x.List, shape, sb, set, false, depth)
	case *parse.WithNode:
		renderTmpl(x.List, shape, sb, set, false, depth)
	case *parse.TemplateNode:
		// inline the named template; when it is executed with $type as its argument,
		// its dot stands for the type
		t := set[x.Name]
		if t == nil || t.Root == nil || depth > 4 {
			return
		}
		bound := x.Pipe != nil && strings.TrimSpace(x.Pipe.String()) == "$type"
		renderTmpl(t.Root, shape, sb, set, bound, depth+1)
	}
}

// tmplSources returns the template source strings of package modelgen: the
// string literals (with package-level string variables substituted) passed to
// a Parse method of text/template.
type tmplSource struct {
	text string
	pos  token.Pos
}

func tmplSources(p *Program) []tmplSource {
	pk := p.Pkgs["modelgen"]
	if pk == nil {
		return nil
	}
	info := pk.TypesInfo
	initOf := func(id *ast.Ident) ast.Expr {
		obj := info.Uses[id]
		for _, f := range pk.Syntax {
			for _, d := range f.Decls {
				gd, ok := d.(*ast.GenDecl)
				if !ok {
					continue
				}
				for _, sp := range gd.Specs {
					vs, ok := sp.(*ast.ValueSpec)
					if !ok {
						continue
					}
					for i, nm := range vs.Names {
						if info.Defs[nm] == obj && i < len(vs.Values) {
							return vs.Values[i]
						}
					}
				}
			}
		}
		return nil
	}
	var eval func(e ast.Expr, depth int) (string, bool)
	eval = func(e ast.Expr, depth int) (string, bool) {
		if depth > 64 {
			return "", false
		}
		switch x := ast.Unparen(e).(type) {
		case *ast.BasicLit:
			if x.Kind == token.STRING {
				s, err := strconv.Unquote(x.Value)
				return s, err == nil
			}
		case *ast.BinaryExpr:
			if x.Op == token.ADD {
				a, ok1 := eval(x.X, depth+1)
				b, ok2 := eval(x.Y, depth+1)
				return a + b, ok1 && ok2
			}
		case *ast.Ident:
			if in := initOf(x); in != nil {
				return eval(in, depth+1)
			}
		}
		return "", false
	}
	var out []tmplSource
	for _, f := range pk.Syntax {
		ast.Inspect(f, func(n ast.Node) bool {
			call, ok := n.(*ast.CallExpr)
			if !ok || len(call.Args) != 1 {
				return true
			}
			sel, ok := call.Fun.(*ast.SelectorExpr)
			if !ok || sel.Sel.Name != "Parse" {
				return true
			}
			fn := calleeOf(info, call)
			if fn == nil || fn.Pkg() == nil || fn.Pkg().Path() != "text/template" {
				return true
			}
			if os.Getenv("GENTMPL_DEBUG") != "" {
				_, okk := eval(call.Args[0], 0)
				fmt.Fprintf(os.Stderr, "Parse call at %v evaluable=%v\n", p.Pos(call.Pos()), okk)
			}
			if s, ok := eval(call.Args[0], 0); ok {
				out = append(out, tmplSource{s, call.Args[0].Pos()})
			}
			return true
		})
	}
	return out
}

// splitFuncs cuts rendered text into top-level `func ... { ... }` chunks by brace matching.
func splitFuncs(src string) []string {
	var out []string
	lines := strings.Split(src, "\n")
	for i := 0; i < len(lines); i++ {
		if !strings.HasPrefix(lines[i], "func ") {
			continue
		}
		depth, started := 0, false
		var sb strings.Builder
		for j := i; j < len(lines); j++ {
			sb.WriteString(lines[j])
			sb.WriteString("\n")
			for _, ch := range lines[j] {
				if ch == '{' {
					depth++
					started = true
				} else if ch == '}' {
					depth--
				}
			}
			if started && depth <= 0 {
				i = j
				break
			}
		}
		out = append(out, sb.String())
	}
	return out
}

func ruleGENTMPL(p *Program, r *Reporter) {
	const id = "GEN-TMPL"
	srcs := tmplSources(p)
	if len(srcs) == 0 {
		r.Anchor(id, "modelgen: template source passed to text/template Parse")
		return
	}
	nEq, nCopy := 0, 0
	for _, tsrc := range srcs {
		src := tsrc.text
		treeSet := map[string]*parse.Tree{}
		t := parse.New("table")
		t.Mode = parse.SkipFuncCheck
		if _, err := t.Parse(src, "", "", treeSet); err != nil {
			r.Anchor(id, "template does not parse: "+err.Error())
			continue
		}
		var names []string
		for n := range treeSet {
			names = append(names, n)
		}
		sort.Strings(names)
		for _, shape := range []tmplShape{shapePtr, shapeSlice, shapeMap} {
			for _, name := range names {
				var sb strings.Builder
				renderTmpl(treeSet[name].Root, shape, &sb, treeSet, false, 0)
				if os.Getenv("GENTMPL_DEBUG") != "" {
					fmt.Fprintf(os.Stderr, "=== %s %s\n%s\n", name, shape, sb.String())
				}
				for _, chunk := range splitFuncs(sb.String()) {
					fset := token.NewFileSet()
					file, err := parser.ParseFile(fset, "gen.go", "package p\n"+chunk, 0)
					if err != nil {
						continue // not a complete function in this specialisation (e.g. Equals, assembled piecewise)
					}
					for _, d := range file.Decls {
						fd, ok := d.(*ast.FuncDecl)
						if !ok || fd.Body == nil {
							continue
						}
						where := fmt.Sprintf("template %q, %s columns, func %s", name, shape, fd.Name.Name)
						// helpers are recognised by signature, not by name: equality takes two
						// operands of one type and returns bool, copy maps a type to itself
						if fd.Recv != nil || fd.Type.Params == nil || fd.Type.Results == nil || len(fd.Type.Results.List) != 1 {
							continue
						}
						ps := paramNames(fd)
						resT := exprText(fd.Type.Results.List[0].Type)
						switch {
						case len(ps) == 2 && len(fd.Type.Params.List) == 1 && resT == "bool":
							nEq++
							checkGenEqual(r, id, fd, shape, where, tsrc.pos)
						case len(ps) == 1 && resT == exprText(fd.Type.Params.List[0].Type):
							nCopy++
							checkGenCopy(r, id, fd, shape, where, tsrc.pos)
						}
					}
				}
			}
		}
	}
	if nEq < 3 || nCopy < 3 {
		r.Anchor(id, fmt.Sprintf("template specialisations: %d equality helpers and %d copy helpers parsed, expected 3 and 3", nEq, nCopy))
	}
}

func paramNames(fd *ast.FuncDecl) []string {
	var out []string
	if fd.Type.Params != nil {
		for _, f := range fd.Type.Params.List {
			for _, n := range f.Names {
				out = append(out, n.Name)
			}
		}
	}
	return out
}

func checkGenEqual(r *Reporter, id string, fd *ast.FuncDecl, shape tmplShape, where string, pos token.Pos) {
	ps := paramNames(fd)
	if len(ps) != 2 {
		r.Ob(id, where, "two operands", pos, false, true, "the generated equality helper does not take two operands")
		return
	}
	isParam := func(e ast.Expr) string {
		if idn, ok := ast.Unparen(e).(*ast.Ident); ok && (idn.Name == ps[0] || idn.Name == ps[1]) {
			return idn.Name
		}
		return ""
	}
	if shape == shapePtr {
		r.Ob(id, where, "pointer equality", pos, true, false, "pointer shape: compared by dereference")
		return
	}
	// lengths compared before the first loop
	lenCmp, loopSeen, lenFirst := false, false, false
	badLookup := ""
	commaOk := false
	ast.Inspect(fd.Body, func(n ast.Node) bool {
		switch x := n.(type) {
		case *ast.BinaryExpr:
			if (x.Op == token.NEQ || x.Op == token.EQL) && isLenOf(x.X, ps) && isLenOf(x.Y, ps) {
				lenCmp = true
				if !loopSeen {
					lenFirst = true
				}
			}
		case *ast.RangeStmt:
			loopSeen = true
			over := isParam(x.X)
			key, _ := x.Key.(*ast.Ident)
			if over == "" || key == nil {
				return true
			}
			other := ps[0]
			if over == ps[0] {
				other = ps[1]
			}
			ast.Inspect(x.Body, func(m ast.Node) bool {
				switch y := m.(type) {
				case *ast.AssignStmt:
					// w, ok := other[key]
					if len(y.Lhs) == 2 && len(y.Rhs) == 1 {
						if ix, ok := ast.Unparen(y.Rhs[0]).(*ast.IndexExpr); ok && isParam(ix.X) == other {
							if okID, isID := y.Lhs[1].(*ast.Ident); isID && usesIdent(x.Body, okID.Name, y) {
								commaOk = true
							}
						}
					}
				case *ast.BinaryExpr:
					if y.Op != token.NEQ && y.Op != token.EQL {
						return true
					}
					for _, side := range []ast.Expr{y.X, y.Y} {
						if ix, ok := ast.Unparen(side).(*ast.IndexExpr); ok && isParam(ix.X) == other {
							if k, ok := ast.Unparen(ix.Index).(*ast.Ident); ok && k.Name == key.Name {
								badLookup = other + "[" + key.Name + "]"
							}
						}
					}
				}
				return true
			})
		}
		return true
	})
	r.Ob(id, where, "lengths compared first", pos, lenCmp && lenFirst, true,
		ifs(lenCmp && lenFirst, "the helper compares len(a) and len(b) before looking at elements", "the generated equality helper does not compare the lengths before its loop: a value that extends the other one compares equal"))
	if shape == shapeMap {
		ok := badLookup == "" && commaOk
		why := "every lookup in the other map is a comma-ok lookup whose ok is tested"
		if badLookup != "" {
			why = "the generated map equality compares the single-value lookup " + badLookup + ": a key that is missing reads as the zero value and matches a zero-valued entry, so maps with different key sets compare equal (and Equals disagrees with model.Equal / reflect.DeepEqual)"
		} else if !commaOk {
			why = "the generated map equality contains no comma-ok lookup whose ok is tested: key presence is never checked"
		}
		r.Ob(id, where, "key presence checked", pos, ok, true, why)
	}
}

func isLenOf(e ast.Expr, ps []string) bool {
	c, ok := ast.Unparen(e).(*ast.CallExpr)
	if !ok || len(c.Args) != 1 {
		return false
	}
	f, ok := c.Fun.(*ast.Ident)
	if !ok || f.Name != "len" {
		return false
	}
	a, ok := ast.Unparen(c.Args[0]).(*ast.Ident)
	return ok && (a.Name == ps[0] || a.Name == ps[1])
}

func usesIdent(body ast.Node, name string, except ast.Node) bool {
	used := false
	ast.Inspect(body, func(n ast.Node) bool {
		if n == except {
			// the defining statement itself may contain the test (if w, ok := b[k]; !ok || ...)
			return true
		}
		if idn, ok := n.(*ast.Ident); ok && idn.Name == name {
			// count uses other than the definition on the left-hand side
			used = true
		}
		return true
	})
	// the identifier appears at least twice when it is both defined and used
	count := 0
	ast.Inspect(body, func(n ast.Node) bool {
		if idn, ok := n.(*ast.Ident); ok && idn.Name == name {
			count++
		}
		return true
	})
	return used && count >= 2
}

func checkGenCopy(r *Reporter, id string, fd *ast.FuncDecl, shape tmplShape, where string, pos token.Pos) {
	ps := paramNames(fd)
	if len(ps) != 1 {
		return
	}
	bad := false
	n := 0
	ast.Inspect(fd.Body, func(nd ast.Node) bool {
		ret, ok := nd.(*ast.ReturnStmt)
		if !ok || len(ret.Results) != 1 {
			return true
		}
		n++
		res := ast.Unparen(ret.Results[0])
		// the argument itself, or a re-slice of it (a[:0] shares the backing array)
		for {
			if se, ok := res.(*ast.SliceExpr); ok {
				res = ast.Unparen(se.X)
				continue
			}
			break
		}
		if idn, ok := res.(*ast.Ident); ok && idn.Name == ps[0] {
			bad = true
		}
		return true
	})
	r.Ob(id, where, "copy is a new value", pos, !bad && n > 0, true,
		ifs(!bad && n > 0, "the copy helper returns nil, a newly made value or the address of a local copy, never its argument", "the generated copy helper returns its argument: DeepCopy/CloneModel share the "+shape.String()+" with the original"))
}

func exprText(e ast.Expr) string {
	switch x := e.(type) {
	case *ast.Ident:
		return x.Name
	case *ast.StarExpr:
		return "*" + exprText(x.X)
	case *ast.SelectorExpr:
		return exprText(x.X) + "." + x.Sel.Name
	case *ast.ArrayType:
		return "[]" + exprText(x.Elt)
	case *ast.MapType:
		return "map[" + exprText(x.Key) + "]" + exprText(x.Value)
	}
	return fmt.Sprintf("%T", e)
}
