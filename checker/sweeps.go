package main

import (
	"fmt"
	"go/ast"
	"go/constant"
	"go/token"
	"go/types"
	"strings"
)

// Thorough tier: per-instance sweeps. For rules with many instances every
// single instance is turned into a seeded variant (delete this unlock, remove
// this case label) and the rule must report it — evidence that each instance
// is live, not just the one exercised by the hand-written control.

type SweepDef struct {
	Rule string
	Gen  func(p *Program) []*ControlDef
}

var sweeps []*SweepDef

func init() {
	sweeps = append(sweeps, &SweepDef{Rule: "L1", Gen: sweepL1})
	sweeps = append(sweeps, &SweepDef{Rule: "E6", Gen: sweepE6})
	sweeps = append(sweeps, &SweepDef{Rule: "ERR-USE", Gen: sweepERRUSE})
	sweeps = append(sweeps, &SweepDef{Rule: "ERR-USE-CODEC", Gen: sweepERRUSECODEC})
}

// sweepL1: delete each statement that releases a mutex field (x.Unlock(), defer x.RUnlock(), ...).
func sweepL1(p *Program) []*ControlDef {
	var out []*ControlDef
	for _, rel := range []string{"client", "cache", "server", "database/inmemory"} {
		pk := p.Pkgs[rel]
		for _, f := range pk.Syntax {
			for _, d := range f.Decls {
				fd, ok := d.(*ast.FuncDecl)
				if !ok || fd.Body == nil {
					continue
				}
				fobj, _ := pk.TypesInfo.Defs[fd.Name].(*types.Func)
				if fobj == nil {
					continue
				}
				fname := typesFuncName(fobj)
				n := 0
				ast.Inspect(fd.Body, func(x ast.Node) bool {
					var call *ast.CallExpr
					var stmt ast.Stmt
					switch s := x.(type) {
					case *ast.ExprStmt:
						call, _ = s.X.(*ast.CallExpr)
						stmt = s
					case *ast.DeferStmt:
						call = s.Call
						stmt = s
					}
					if call == nil {
						return true
					}
					sel, ok := call.Fun.(*ast.SelectorExpr)
					if !ok || (sel.Sel.Name != "Unlock" && sel.Sel.Name != "RUnlock") {
						return true
					}
					if fn := calleeOf(pk.TypesInfo, call); fn == nil || fn.Pkg() == nil || fn.Pkg().Path() != "sync" {
						return true
					}
					n++
					st := stmt
					key := fmt.Sprintf("%s#%d", fname, n)
					out = append(out, &ControlDef{
						Name:   "sweep: delete " + p.text(st) + " in " + key,
						Rule:   "L1",
						Expect: "",
						Edit: func(p2 *Program) ([]TextEdit, error) {
							return []TextEdit{p2.editReplace(st, "")}, nil
						},
					})
					return true
				})
			}
		}
	}
	return out
}

// mentionedConstNodes is mentionedConsts returning the expression nodes.
func mentionedConstNodes(info *types.Info, body ast.Node, g *constGroup) map[*types.Const][]ast.Expr {
	out := map[*types.Const][]ast.Expr{}
	match := func(e ast.Expr) {
		e2 := ast.Unparen(e)
		var id *ast.Ident
		switch x := e2.(type) {
		case *ast.Ident:
			id = x
		case *ast.SelectorExpr:
			id = x.Sel
		}
		if id != nil {
			if c, ok := info.Uses[id].(*types.Const); ok {
				for _, gc := range g.consts {
					if gc == c {
						out[gc] = append(out[gc], e)
						return
					}
				}
			}
		}
		if bl, ok := e2.(*ast.BasicLit); ok && bl.Kind == token.STRING {
			if tv, ok := info.Types[e2]; ok && tv.Value != nil && tv.Value.Kind() == constant.String {
				if gc, ok := g.byVal[constant.StringVal(tv.Value)]; ok {
					out[gc] = append(out[gc], e)
				}
			}
		}
	}
	ast.Inspect(body, func(n ast.Node) bool {
		switch x := n.(type) {
		case *ast.CaseClause:
			for _, e := range x.List {
				match(e)
			}
		case *ast.BinaryExpr:
			if x.Op == token.EQL || x.Op == token.NEQ {
				// a literal only stands for a constant of the group when the value it is
				// compared with can be of the group's type ("delete" == Mutator is not an operation)
				if literalCompatible(info, x.Y, g) {
					match(x.X)
				}
				if literalCompatible(info, x.X, g) {
					match(x.Y)
				}
			}
		case *ast.CompositeLit:
			for _, el := range x.Elts {
				if kv, ok := el.(*ast.KeyValueExpr); ok {
					match(kv.Key)
				}
			}
		}
		return true
	})
	return out
}

// sweepE6: for every (site, constant) obligation replace every mention of the constant in
// the site by a value outside the group.
func sweepE6(p *Program) []*ControlDef {
	var out []*ControlDef
	groups := constGroups(p)
	n := 0
	for _, s := range exhaustSites {
		g := groups[s.group]
		if g == nil {
			continue
		}
		type part struct {
			nodes map[*types.Const][]ast.Expr
		}
		var parts []part
		fd, pk, err := p.funcDecl(s.pkg, s.recv, s.name)
		if err != nil {
			continue
		}
		parts = append(parts, part{mentionedConstNodes(pk.TypesInfo, fd.Body, g)})
		for _, w := range s.with {
			if fd2, pk2, err := p.funcDecl(w[0], w[1], w[2]); err == nil {
				parts = append(parts, part{mentionedConstNodes(pk2.TypesInfo, fd2.Body, g)})
			}
		}
		fname := typesFuncName(p.LookupFunc(s.pkg, s.recv, s.name))
		for _, c := range g.consts {
			if _, ex := s.exclude[c.Name()]; ex {
				continue
			}
			var nodes []ast.Expr
			for _, pt := range parts {
				nodes = append(nodes, pt.nodes[c]...)
			}
			if len(nodes) == 0 {
				continue
			}
			n++
			ns := nodes
			uniq := fmt.Sprintf("\"zz-sweep-%d\"", n)
			out = append(out, &ControlDef{
				Name:   "sweep: " + fname + " no longer handles " + c.Name(),
				Rule:   "E6",
				Expect: fname + "|" + s.group + " " + c.Name() + "#",
				Edit: func(p2 *Program) ([]TextEdit, error) {
					var eds []TextEdit
					for i, nd := range ns {
						eds = append(eds, p2.editReplace(nd, strings.Replace(uniq, "\"", fmt.Sprintf("\"%d-", i), 1)))
					}
					return eds, nil
				},
			})
		}
	}
	return out
}

// sweepERRUSE: empty the body of each `if err != nil { ...; return ... }` whose error
// comes from a call, in the packages ERR-USE covers: the failure is then dropped.
func sweepERRUSE(p *Program) []*ControlDef {
	return sweepErrUseIn(p, "ERR-USE", "database/transaction", "database/inmemory", "database", "server", "updates")
}

func sweepERRUSECODEC(p *Program) []*ControlDef {
	return sweepErrUseIn(p, "ERR-USE-CODEC", "ovsdb", "mapper")
}

func sweepErrUseIn(p *Program, rule string, rels ...string) []*ControlDef {
	var out []*ControlDef
	errT := types.Universe.Lookup("error").Type()
	for _, rel := range rels {
		pk := p.Pkgs[rel]
		if pk == nil {
			continue
		}
		for _, f := range pk.Syntax {
			for _, d := range f.Decls {
				fd, ok := d.(*ast.FuncDecl)
				if !ok || fd.Body == nil {
					continue
				}
				fobj, _ := pk.TypesInfo.Defs[fd.Name].(*types.Func)
				if fobj == nil {
					continue
				}
				fname := typesFuncName(fobj)
				n := 0
				ast.Inspect(fd.Body, func(x ast.Node) bool {
					if _, isLit := x.(*ast.FuncLit); isLit {
						return false // closures have their own SSA function name
					}
					is, ok := x.(*ast.IfStmt)
					if !ok || is.Else != nil || len(is.Body.List) == 0 {
						return true
					}
					be, ok := is.Cond.(*ast.BinaryExpr)
					if !ok || be.Op != token.NEQ {
						return true
					}
					id, ok := be.X.(*ast.Ident)
					if !ok {
						return true
					}
					if nid, ok := be.Y.(*ast.Ident); !ok || nid.Name != "nil" {
						return true
					}
					if tv, ok := pk.TypesInfo.Types[be.X]; !ok || !types.Identical(tv.Type, errT) {
						return true
					}
					if _, isRet := is.Body.List[len(is.Body.List)-1].(*ast.ReturnStmt); !isRet {
						return true
					}
					// the tested variable must be assigned from a call right before (init statement
					// of the if, or the statement defining it): keep it simple and let the rule decide
					_ = id
					n++
					body := is.Body
					key := fmt.Sprintf("%s#%d", fname, n)
					out = append(out, &ControlDef{
						Name:   "sweep: empty the error branch at " + p.Pos(is.Pos()) + " in " + key,
						Rule:   rule,
						Expect: fname + "|error of",
						Edit: func(p2 *Program) ([]TextEdit, error) {
							return []TextEdit{p2.editReplace(body, "{ println() }")}, nil
						},
					})
					return true
				})
			}
		}
	}
	return out
}
