package main

func noop(p *Program, r *Reporter) {}

func init() {
	// --- E1 locks
	registerRule(&RuleDef{ID: "L1", Min: 150, Doc: "every mutex acquired in client/cache/server/inmemory is released or deferred on every return path (acquire wrappers are summarised and checked at their call sites)", Run: ruleL1("client", "cache", "server", "database/inmemory")})
	registerRule(&RuleDef{ID: "L2", Min: 100, Doc: "every access to a lock-guarded field happens with its lock must-held (write mode for writes), through all static callers of unexported helpers", Run: ruleL2("L2", "client", "cache", "server", "database/inmemory")})
	registerRule(&RuleDef{ID: "L3", Min: 20, Doc: "rpcMutex / txnMutex are never acquired while a lock that is taken under them elsewhere may be held", Run: ruleL3("L3", []outerSpec{{"client", "ovsdbClient", "rpcMutex"}, {"server", "OvsdbServer", "txnMutex"}})})
	registerRule(&RuleDef{ID: "L4", Min: 4, Doc: "OvsdbServer.Transact executes, notifies and commits under txnMutex, released only by defer, nothing asynchronous", Run: ruleL4})
	registerRule(&RuleDef{ID: "L5", Min: 5, Doc: "monitor registration and its initial snapshot happen under txnMutex", Run: ruleL5})
	// --- E2 aliasing
	registerRule(&RuleDef{ID: "A1", Min: 20, Doc: "exported read APIs return only fresh copies", Run: ruleA1})
	registerRule(&RuleDef{ID: "A1p", Min: 2, Doc: "callers of RowsShallow are frozen and clone before returning", Run: ruleA1p})
	registerRule(&RuleDef{ID: "A2", Min: 2, Doc: "the cache stores a private copy", Run: ruleA2})
	registerRule(&RuleDef{ID: "A3", Min: 15, Doc: "in-place difference/mutation algorithms only receive owned values", Run: ruleA3})
	registerRule(&RuleDef{ID: "A4", Min: 3, Doc: "committed rows and reference index are written only by Commit/CreateDatabase; Commit is only called by OvsdbServer.Transact", Run: ruleA4})
	registerRule(&RuleDef{ID: "A5", Min: 15, Doc: "no error result is dropped on the commit path", Run: ruleA5})
	registerRule(&RuleDef{ID: "T-SCAN", Min: 2, Doc: "notify and commit are dominated by the scan of the results for an error", Run: ruleTSCAN})
	registerRule(&RuleDef{ID: "A3-REPAIR", Min: 2, Doc: "a model field consumed by an in-place algorithm is written back with SetField before the operation completes", Run: ruleA3REPAIR})
	registerRule(&RuleDef{ID: "A3-TABLE", Min: 3, Doc: "the only parameter written through reflect by each function of package updates is its reviewed in-place argument", Run: ruleA3TABLE})
	registerRule(&RuleDef{ID: "S-PURE", Min: 6, Doc: "building a notification only writes containers created for it", Run: ruleSPURE})
	registerRule(&RuleDef{ID: "X5", Min: 4, Doc: "set-modifying helpers receive live index sets only inside Create/Update/Delete", Run: ruleX5})
	registerRule(&RuleDef{ID: "R-REPORT", Min: 4, Doc: "every outcome assigned to an operation's result reaches results[i]", Run: ruleRREPORT})
	// --- E3 codecs
	registerRule(&RuleDef{ID: "K1", Min: 30, Doc: "keyed codec pairs agree member by member (pass also emits K2)", Run: ruleK12})
	registerRule(&RuleDef{ID: "K2", Min: 15, Doc: "positional codec pairs agree position by position (emitted by the K1 pass)", Run: noop})
	registerRule(&RuleDef{ID: "K3", Min: 20, Doc: "error-name tables are inverse bijections and cover every declared name", Run: ruleK3})
	// --- E4 totality
	registerRule(&RuleDef{ID: "P-IDX", Min: 40, Doc: "every index/slice in the decoders has a dominating length test on an equivalent operand", Run: rulePIDX})
	registerRule(&RuleDef{ID: "P-ASSERT", Min: 15, Doc: "every single-result type assertion in the decoders is dominated by a successful comma-ok assertion", Run: rulePASSERT})
	registerRule(&RuleDef{ID: "P-NIL", Min: 5, Doc: "optional pointer members are nil-tested before use in the decoders", Run: rulePNILdec})
	registerRule(&RuleDef{ID: "P-HASH", Min: 1, Doc: "interface-typed map keys in the decoders have a comparable dynamic type on every path", Run: rulePHASH})
	registerRule(&RuleDef{ID: "P-NIL-TXN", Min: 3, Doc: "optional members of a client-supplied Operation are nil-tested before use", Run: rulePNILtxn})
	registerRule(&RuleDef{ID: "P-NIL-MON", Min: 4, Doc: "a monitor request without select / without an entry for a table is tolerated", Run: rulePNILmon})
	registerRule(&RuleDef{ID: "P-DIV", Min: 2, Doc: "integer division/modulo has a non-zero divisor (local test or ValidateMutation gate pair)", Run: rulePDIV})
	// --- E5 wiring
	registerRule(&RuleDef{ID: "W1", Min: 12, Doc: "per monitor RPC: notification method, arity and payload agree between server sender, client handler and the RFC (pass also emits W2, W3)", Run: ruleW})
	registerRule(&RuleDef{ID: "W2", Min: 6, Doc: "three monitor kinds, each with a processMonitors case (emitted by W1)", Run: noop})
	registerRule(&RuleDef{ID: "W3", Min: 4, Doc: "every notification method has a client handler decoding the right payload (emitted by W1)", Run: noop})
	registerRule(&RuleDef{ID: "W4", Min: 3, Doc: "notifications are delivered synchronously and handled in the client's read loop", Run: ruleW4Standalone})
	// --- E6 exhaustiveness and friends
	registerRule(&RuleDef{ID: "E6", Min: 100, Doc: "every constant of a group is handled at each sibling site", Run: ruleE6})
	registerRule(&RuleDef{ID: "T-WIRE", Min: 6, Doc: "boolean mode arguments are wired to the required constant", Run: ruleTWIRE})
	registerRule(&RuleDef{ID: "T-GUARD", Min: 3, Doc: "must-pass-through guards (Mutable, Go type, assignability)", Run: ruleTGUARD})
	registerRule(&RuleDef{ID: "T-REFPOS", Min: 3, Doc: "every carrier / position of a reference is inspected", Run: ruleTREFPOS})
	registerRule(&RuleDef{ID: "Q-PRE", Min: 2, Doc: "index lookups only pre-filter; rows are returned after every condition was evaluated", Run: ruleQPRE})
	registerRule(&RuleDef{ID: "F-PAIR", Min: 3, Doc: "monitor filter pairs each kind of change with the select flag of the same name", Run: ruleFPAIR})
	registerRule(&RuleDef{ID: "PM-ONCE", Min: 2, Doc: "one notification round per transaction, covering every monitor", Run: rulePMONCE})
	registerRule(&RuleDef{ID: "DEFER-APPEND", Min: 5, Doc: "buffered notifications are appended and replayed in arrival order", Run: ruleDEFERAPPEND})
	registerRule(&RuleDef{ID: "D-ORDER", Min: 2, Doc: "generator output does not depend on map iteration order", Run: ruleDORDER})
	registerRule(&RuleDef{ID: "G-COPY", Min: 10, Doc: "DeepCopyInto re-assigns every reference field, Equals compares every field", Run: ruleGCOPY})
	registerRule(&RuleDef{ID: "GEN-ATOM", Min: 5, Doc: "generator type names agree with the mapper's native types (pass also emits GEN-SHAPE)", Run: ruleGEN})
	registerRule(&RuleDef{ID: "GEN-SHAPE", Min: 1, Doc: "generator and mapper decide pointer/scalar/slice on the same (min,max) tests (emitted by GEN-ATOM)", Run: noop})
	// --- E7 reconnect
	registerRule(&RuleDef{ID: "E7", Min: 5, Doc: "no Purge after a Populate of the same cache within one reconnect; every monitor restarted (pass also emits R-DEFER, R-ONCE)", Run: ruleE7})
	registerRule(&RuleDef{ID: "R-DEFER", Min: 1, Doc: "deferral re-armed before every reconnect attempt (emitted by E7)", Run: noop})
	registerRule(&RuleDef{ID: "R-ONCE", Min: 2, Doc: "the transact RPC is sent once per Transact (emitted by E7)", Run: noop})
	// --- E8 index
	registerRule(&RuleDef{ID: "X1", Min: 1, Doc: "an index entry is only removed after looking at who owns it", Run: ruleX1})
	registerRule(&RuleDef{ID: "X2", Min: 5, Doc: "only Create/Update/Delete write the row and index maps", Run: ruleX2})
	registerRule(&RuleDef{ID: "X3", Min: 6, Doc: "each maintenance operation covers every index and writes the row last", Run: ruleX3})
	registerRule(&RuleDef{ID: "X4", Min: 4, Doc: "commit-time checks in order, errors tested, before the success return", Run: ruleX4})
	// --- E9 events
	registerRule(&RuleDef{ID: "V1", Min: 3, Doc: "exactly one matching event after each successful cache mutation (pass also emits V2, V3)", Run: ruleV})
	registerRule(&RuleDef{ID: "V2", Min: 4, Doc: "event fields reach the right callback arguments (emitted by V1)", Run: noop})
	registerRule(&RuleDef{ID: "V3", Min: 3, Doc: "one producer, one consumer, drop only on overflow, handlers under one lock (emitted by V1)", Run: noop})
	// --- named uuids
	registerRule(&RuleDef{ID: "N-COVER", Min: 4, Doc: "every value-carrying member of Operation is expanded and stored back (pass also emits N-PHASE, N-POS, G-GATE)", Run: ruleN})
	registerRule(&RuleDef{ID: "N-PHASE", Min: 1, Doc: "the name map is complete before the first substitution (emitted by N-COVER)", Run: noop})
	registerRule(&RuleDef{ID: "N-POS", Min: 3, Doc: "expanding a position depends only on that position's type (emitted by N-COVER)", Run: noop})
	registerRule(&RuleDef{ID: "G-GATE", Min: 6, Doc: "a checked ExpandNamedUUIDs dominates every operation dispatch (emitted by N-COVER)", Run: noop})

	registerProp(&PropDef{
		ID:          "C01",
		Rules:       []string{"W1", "W2", "W3", "W4", "L2", "L5", "DEFER-APPEND", "PM-ONCE"},
		Explanation: "Decides the plumbing every history of C01 relies on, not the equality of cache and database contents: (W1-W3) for each of monitor / monitor_cond / monitor_cond_since the built-in server's notification is sent under the method name, arity and payload type that the client's registered handler decodes and that RFC 7047 / ovsdb-server(7) prescribe, and the monitor reply type matches on both sides; (W4) notifications are sent with a blocking rpc2 Call from inside Transact with no goroutine, and the client runs its handlers in the read loop (SetBlocking(true) before Run), so a client's own transaction is in its cache before Transact returns; (L2, DEFER-APPEND) deferUpdates/deferredUpdates are only touched under cacheMutex, appended at the tail and replayed front to back, which closes the 'notification before initial contents' window; (L5) a monitor is registered and snapshotted under txnMutex, so no transaction falls between snapshot and first notification; (PM-ONCE) one notification round per transaction over every monitor.",
		NotCovered:  "equality of cache and database contents over histories, column values, garbage-collected rows: value-level, not decidable by inspection of code shape",
	})
	registerProp(&PropDef{
		ID:          "C02",
		Rules:       []string{"A4", "A1", "T-SCAN", "A5", "L4", "X4"},
		Explanation: "Decides that no path lets a failed transaction touch committed state or reach a monitor: (A4) the committed rows and the reference index are written only in inMemoryDatabase.Commit/CreateDatabase and Commit is called only from OvsdbServer.Transact; (A1) the Database read API (List, Get, GetReferences) hands out no alias of committed storage, so executing a transaction cannot modify the database before commit; (T-SCAN) processMonitors and Commit are dominated by the loop that returns on the first result with a non-empty Error; (A5) no error result is discarded on the commit path; (X4) reference processing and the index check precede the success return with their errors tested; (L4) all of it under txnMutex. Added during the build: the exemption that lets an insert skip the uuid-in-use lookup is keyed by table and uuid (T-UUIDFREE).",
		NotCovered:  "shape of the reply array; atomicity of Commit itself if ApplyCacheUpdate failed midway (value dependent)",
	})
	registerProp(&PropDef{
		ID:          "C03",
		Rules:       []string{"E6", "T-GUARD", "P-DIV", "N-COVER", "N-PHASE", "N-POS", "G-GATE"},
		Explanation: "Decides a narrow structural clause of C03: every operation, mutator, condition function and wait condition constant has an explicit handler in every sibling table (Transact dispatch, ValidateOperations, AddOperation, Mutation/Condition decoders, mutate, ValidateMutation, Evaluate, ValidateCondition, Wait) (E6); the immutability test precedes every column write on the update/mutate paths (T-GUARD); mutation validation precedes mutate and rejects a zero divisor (P-DIV / G-VALIDATE); table/column validation precedes every dispatch (G-GATE).",
		NotCovered:  "what each handler computes (arithmetic, set/map semantics, read-your-writes overlay): needs the executable reference model the property names, which is another technique family",
	})
	registerProp(&PropDef{
		ID:          "C04",
		Rules:       []string{"A4", "A1", "A3", "T-REFPOS", "X4"},
		Explanation: "Decides that the reference index can only change at commit and cannot be corrupted through an alias, and that every reference-holding position is inspected: (A4) who may write the committed index; (A1) GetReferences returns copies; (A3) the in-place difference algorithms applied by the reference tracker only receive owned values and its private index is only filled from GetReferences copies; (T-REFPOS) getReferenceModificationsFromColumn has an arm for UUID, OvsSet and OvsMap and the map extractor builds key and value specs, each tested for UUIDs; (X4) ProcessReferences runs, with its error tested, before a transaction can succeed.",
		NotCovered:  "the garbage-collection fixpoint, weak-reference pruning, min-cardinality decisions: graph/value reasoning",
	})
	registerProp(&PropDef{
		ID:          "C05",
		Rules:       []string{"X1", "X2", "X3", "L2", "T-WIRE"},
		Explanation: "Decides the index write discipline of cache.RowCache: (X1) an index entry is only deleted on paths that looked at the current owner set of that entry, so a value handed over between two rows of one batch survives in whatever order the batch is applied; (X2) only Create/Update/Delete and construction write RowCache.cache and RowCache.indexes; (X3) each of the three operations maintains every index in a loop over indexSpecs and writes the row map last; (L2) both maps are only touched under RowCache.mutex.",
		NotCovered:  "correctness of valueFromIndex hashing and of the lookup functions",
	})
	registerProp(&PropDef{
		ID:          "C06",
		Rules:       []string{"X4", "T-WIRE", "X1", "A5"},
		Explanation: "Decides placement of the unique-index check: (X4) in Transaction.Transact every path to the success return passes, in order, ProcessReferences, applyReferenceUpdates and checkIndexes with each error tested, and operations are applied to the transaction cache only before it; (T-WIRE) per-operation application and cache warming pass checkIndexes=false (transient duplicates pass) while the preload passes true; (X1) the index state the check consults cannot lose entries on hand-over; (A5) no error dropped on that path.",
		NotCovered:  "the duplicate decision itself (IndexExists, deleted/rewritten row exemptions)",
	})
	registerProp(&PropDef{
		ID:          "C07",
		Rules:       []string{"W1", "W2", "W3", "W4", "PM-ONCE", "L4", "F-PAIR", "P-NIL-MON", "T-SCAN"},
		Explanation: "Decides that both notification encodings reach a handler that can decode them (W1-W3), that exactly one notification round is made per committed transaction, synchronously, under the transaction lock and after the error scan (PM-ONCE, W4, L4, T-SCAN), that the monitor filter pairs each kind of change with the select flag of the same name (F-PAIR), and that a request without select / without an entry for a table cannot crash the notification path (P-NIL-MON).",
		NotCovered:  "pre-state + notification = post-state; column projection values; 'nothing for a no-op transaction'",
	})
	registerProp(&PropDef{
		ID:          "C08",
		Rules:       []string{"E6", "Q-PRE", "T-WIRE", "A1", "A1p"},
		Explanation: "Decides a narrow clause of C08: all eight condition functions are accepted by the decoder, handled by Evaluate and classified by ValidateCondition for every column type including enums (E6); index lookups are a pre-filter only — rows enter the result after the loop that evaluates every condition (Q-PRE); WhereAll/WhereAny are wired to matchAll=true/false (T-WIRE); results are copies (A1).",
		NotCovered:  "the truth table of each function on atoms, sets and maps",
	})
	registerProp(&PropDef{
		ID:          "C09",
		Rules:       []string{"E6", "T-GUARD", "GEN-ATOM", "GEN-SHAPE"},
		Explanation: "Decides a narrow clause of C09: the conversion tables (NativeType, OvsToNative, NativeToOvs, default-value test, atomic tables) handle every column type (E6); the Go-type test dominates every conversion in NativeToOvs/NativeToOvsAtomic and SetField's assignability test dominates the reflective store, i.e. a mismatching Go type is rejected, not converted (T-GUARD). Added during the build: no encoder of package ovsdb quotes strings with Go syntax (K-JSONQUOTE).",
		NotCovered:  "round-trip equality through JSON for all values",
	})
	registerProp(&PropDef{
		ID:          "C10",
		Rules:       []string{"A3"},
		Explanation: "Decides only the clause 'neither computing nor applying a difference alters the model it was computed from': every call of the in-place algorithms (difference, applyDifference, mergeDifference, setDifference, mergeMapDifference, mutate*) receives as its rewritten argument a field of a model cloned in the same function (or at every static caller), a local accumulator, or the result of a previous step (A3). Added during the build: projecting a row on the monitored columns never turns an existing row into no row, so the kind of a row update survives (S-KEEPKIND).",
		NotCovered:  "apply(a, diff(a,b)) = b and emptiness iff equal: value-level",
	})
	registerProp(&PropDef{
		ID:          "C11",
		Rules:       []string{"M-DROP", "A3", "A3-TABLE", "A3-DISTINCT", "A3-REPAIR", "ERR-USE", "ERR-LOOP", "ERR-DEAD", "MAP-EQ"},
		Explanation: "Decides only the parts of the aggregation law that are visible in the shape of the accumulator code and survive its rewrites, not the algebra over rows: (A3, A3-TABLE, A3-DISTINCT, A3-REPAIR) the in-place difference/merge algorithms only rewrite values the accumulator owns - never the first old row or an operand handed in by the caller - and a field rewritten in place is written back, so the first old value and the last new value are not damaged by a later step; (M-DROP) addUpdate stores the merged update only on the not-empty edge of the emptiness test and removes the entry on the other - an update that cancels out disappears; (ERR-USE, ERR-LOOP, ERR-DEAD) a merge that fails (unsupported sequence of updates) is reported to the caller and stops the operation, it is neither dropped, overwritten nor carried past the next step; (MAP-EQ) no map comparison through single-value lookups. Provenance rules on the accumulator's old/new fields (M-OLD, M-NEW) were built and withdrawn: one of five behaviour-preserving rewrites of merge() raised them (DESIGN.md 6).",
		NotCovered:  "that modify∘modify composes to the difference between first old and last new for every column type, cancellation of overlapping set/map differences, insert∘modify = insert of the final row: value-level algebra over rows",
	})
	registerProp(&PropDef{
		ID:          "C12",
		Rules:       []string{"K1", "K2", "K3", "E6"},
		Explanation: "Decides codec agreement for every hand-written MarshalJSON/UnmarshalJSON pair of package ovsdb: both halves are reduced to a map wire member (or array position) -> receiver fields by a taint propagation over the typed AST; no member is dropped, duplicated or cross-wired between encoder and decoder (K1 keyed: BaseType, ColumnType, ColumnSchema, MonitorSelect; K2 positional: Condition, Mutation, MonitorCondSinceReply, UUID); the error-name tables of errorFromResult and ResultFromError are inverse bijections over all declared names (K3); the decoders of Condition and Mutation accept exactly the declared functions/mutators (E6). Added during the build: no encoder of package ovsdb quotes strings with Go syntax (K-JSONQUOTE).",
		NotCovered:  "struct-tag driven encoding done by encoding/json itself (trusted), OvsSet/OvsMap element conversion, numeric fidelity",
	})
	registerProp(&PropDef{
		ID:          "C13",
		Rules:       []string{"A1", "A1p", "A2", "A3", "G-COPY", "V1"},
		Explanation: "Decides which API can hand out, or keep, a mutable reference to cached storage: (A1) every exported method of cache/client/database/inmemory whose result carries models or reference lists returns only values whose provenance is a fresh copy (model.Clone/CreateModel/NewModel, or containers built from them); (A1') RowsShallow, the documented exception, has frozen callers that clone before returning; (A2) every store into RowCache.cache stores a clone, so the caller's model and the cached row never share memory; (G-COPY) each DeepCopyInto re-assigns every reference field from a copy and each Equals compares every field; (V1) event handlers receive the update's models, never the cached ones.",
		NotCovered:  "Clone's JSON fallback fidelity; reflexivity/symmetry of Equal; the generator template text",
	})
	registerProp(&PropDef{
		ID:          "C14",
		Rules:       []string{"V1", "V2", "V3", "W4"},
		Explanation: "Decides the event pairing: (V1) in ApplyCacheUpdate each successful Create/Update/Delete is followed on its err == nil continuation by exactly one AddEvent with the matching event type and (nil,new)/(old,new)/(old,nil), and no event is reachable on the error edge; (V2) AddEvent stores its parameters into the event and Run passes event.new/old to OnAdd/OnUpdate/OnDelete under the matching case; (V3) one producer with a non-blocking send (drop only on overflow), one consumer, all handlers called in one loop under handlersMutex; (W4) single-writer ordering of notifications.",
		NotCovered:  "reconstruction of contents from the stream; the overflow bound",
	})
	registerProp(&PropDef{
		ID:          "C15",
		Rules:       []string{"N-COVER", "N-PHASE", "N-POS", "G-GATE"},
		Explanation: "Decides the structure of named-UUID expansion: (N-COVER) every member of ovsdb.Operation whose type can carry a value (found by type: Row, Rows, Mutations, Where) is passed through the expansion and stored back; (N-PHASE) no write of the name map can follow a substitution, so forward references resolve; (N-POS) whether a position (atom, set element, map key, map value) is expanded depends only on that position's own type; (G-GATE) a checked ExpandNamedUUIDs dominates every operation dispatch.",
		NotCovered:  "type-directed substitution inside values (names colliding with string data), duplicate-name rejection values",
	})
	registerProp(&PropDef{
		ID:          "C16",
		Rules:       []string{"E7", "R-DEFER", "R-ONCE", "DEFER-APPEND", "L2"},
		Explanation: "Decides the resynchronisation structure: (E7) a typestate analysis over connect(reconnect) and its callees shows no cache Purge is reachable after a Populate of the same cache within one reconnect (the only path refinement: a guard that is false when len(monitors) >= 2), the restart loop ranges over db.monitors, calls monitor(reconnecting=true) on every iteration and a failure resets the connection; (R-DEFER) every reconnect attempt first sets deferUpdates and clears deferredUpdates; (R-ONCE) the transact RPC is sent once per Transact; (DEFER-APPEND, L2) buffered notifications are kept in order under cacheMutex. Added during the build: rpcClient == nil implies !connected at every release of rpcMutex, and only connect() reports the client connected, after the monitors are re-established (S-CONNFLAG).",
		NotCovered:  "fault positions, backoff, leader election, exactly-once on the server side",
	})
	registerProp(&PropDef{
		ID:          "C17",
		Rules:       []string{"L4", "A4", "L3", "L2", "L5", "L1", "PM-ONCE"},
		Explanation: "Decides the serialisation structure: (L4) execute + notify + commit happen under txnMutex, released only by defer, nothing asynchronous; (A4) no other writer of committed state exists; (L5) monitor snapshot and registration are under txnMutex, so 'the order in which every monitor is notified' includes monitors that appear mid-history; (L3') txnMutex is outermost; (L1, L2) server/in-memory locks are paired and guard their fields.",
		NotCovered:  "serialisability of results over schedules: schedule/value-level",
	})
	registerProp(&PropDef{
		ID:          "C18",
		Rules:       []string{"L1", "L2", "L3"},
		Explanation: "Decides structural necessary conditions of C18 over every function of client, cache, server and inmemory: (L1) every mutex acquired is released or deferred on every return path — acquire wrappers (waitForCacheConsistent) are summarised and their callers must release; (L2) every access to a lock-guarded field (rpcClient, connected, endpoints, monitors, deferUpdates, deferredUpdates, RowCache.cache/indexes, TableCache.cache, handlers, server monitors/models/ready) happens with its lock must-held, in write mode for writes, through all static callers of unexported helpers; (L3') rpcMutex is never acquired while holding a lock that is taken under it elsewhere (ABBA with reconnect).",
		NotCovered:  "data races on fields ordered by WaitGroup/channels, torn reads, channel-send liveness, general deadlock freedom",
	})
	registerProp(&PropDef{
		ID:          "C19",
		Rules:       []string{"P-IDX", "P-ASSERT", "P-NIL", "P-HASH", "P-NIL-TXN", "P-NIL-MON", "P-DIV", "G-GATE", "N-COVER"},
		Explanation: "Decides totality obligations on the code that consumes untrusted input, for every site: in every UnmarshalJSON of package ovsdb and the functions they reach, each slice/string index needs a dominating length test on an equivalent operand (P-IDX), each single-result type assertion a dominating successful comma-ok assertion / type-switch arm (P-ASSERT), each optional pointer member a dominating nil test (P-NIL), each interface-typed map key a comparable dynamic type on every path (P-HASH); on the transaction path every optional member of an Operation is nil-tested (P-NIL-TXN), every integer / and % has a non-zero divisor locally or through the ValidateMutation gate pair (P-DIV), unknown tables/columns are rejected before dispatch (G-GATE), and the notification path tolerates absent select/request (P-NIL-MON). Added during the build: every index on the positional parameters of a request in the rpc2 handlers of the built-in server has a dominating length test (P-IDX-RPC), the element of a ranged map of monitor requests is nil-tested before it is dereferenced (P-NIL-MON), and every polling loop on the transact path has a time-bounded exit that does not depend on an optional member (P-POLL).",
		NotCovered:  "unchecked assertions in the transaction path that rely on upstream schema validation, 'cannot happen' panics on schema errors, resource exhaustion",
	})
	registerProp(&PropDef{
		ID:          "C20",
		Rules:       []string{"GEN-ATOM", "GEN-SHAPE", "E6", "D-ORDER", "G-COPY"},
		Explanation: "Decides the parts of C20 that are Go code: (GEN-ATOM) the Go type name the generator emits for each atomic type equals the type the mapper expects (resolved through the reflect.TypeOf initialisers of NativeTypeFromAtomic); (GEN-SHAPE) generator and mapper decide pointer / scalar / slice on the same (min,max) tests; (E6) fieldType and AtomicType handle every column type; (D-ORDER) in package modelgen every range over a map only collects keys that are sorted before use, so output is identical from run to run; (G-COPY) the checked-in generated model's DeepCopyInto/Equals cover every field.",
		NotCovered:  "that generated code compiles, naming/initialism handling, everything inside the text/template source (a string, not Go syntax)",
	})
}

func init() {
	// rules added after testing against independently seeded changes (DESIGN.md §8b)
	add := func(prop string, ids ...string) {
		pd := props[prop]
		for _, id := range ids {
			dup := false
			for _, x := range pd.Rules {
				if x == id {
					dup = true
				}
			}
			if !dup {
				pd.Rules = append(pd.Rules, id)
			}
		}
	}
	registerRule(&RuleDef{ID: "T-DELROWS", Min: 1, Doc: "rows read from the database inside a transaction are overlaid with the transaction's deletions", Run: ruleTDELROWS})
	registerRule(&RuleDef{ID: "DEL-TRACK", Min: 2, Doc: "recording a row as deleted does not depend on the transaction cache contents", Run: ruleDELTRACK})
	registerRule(&RuleDef{ID: "X6", Min: 4, Doc: "index values are always computed from indexSpec.columns", Run: ruleX6})
	registerRule(&RuleDef{ID: "K5", Min: 8, Doc: "the short encoding of a base type is refused when any constraint member is set", Run: ruleK5})
	registerRule(&RuleDef{ID: "N-ALLOPS", Min: 2, Doc: "both passes of ExpandNamedUUIDs start at the first operation", Run: ruleNALLOPS})
	registerRule(&RuleDef{ID: "N-ITER", Min: 1, Doc: "api.Create carries nothing but the index and the result list between models", Run: ruleNITER})
	registerRule(&RuleDef{ID: "PM-ALL", Min: 2, Doc: "the notification loops have no early exit", Run: rulePMALL})
	registerRule(&RuleDef{ID: "D-WRITE", Min: 1, Doc: "generated files are written whole (truncating)", Run: ruleDWRITE})
	registerRule(&RuleDef{ID: "A3-DISTINCT", Min: 10, Doc: "mutation helpers never return one mutable object as both new value and difference", Run: ruleA3DISTINCT})
	add("C03", "A3-DISTINCT")
	add("C10", "A3-DISTINCT")
	registerRule(&RuleDef{ID: "X7", Min: 5, Doc: "validate then write: no error return after an index/row entry was written", Run: ruleX7})
	registerRule(&RuleDef{ID: "S-LOOP", Min: 1, Doc: "per-table containers of the monitor filter are created inside the per-table loop", Run: ruleSLOOP})
	registerRule(&RuleDef{ID: "T-INITREFS", Min: 1, Doc: "existing references are loaded before a row's reference changes are applied", Run: ruleTINITREFS})
	registerRule(&RuleDef{ID: "K6", Min: 1, Doc: "inside a map only a nested map is refused", Run: ruleK6})
	registerRule(&RuleDef{ID: "G-CLONE", Min: 2, Doc: "model.Clone/CloneInto never copy by shallow reflective assignment", Run: ruleGCLONE})
	registerRule(&RuleDef{ID: "V-RECV", Min: 1, Doc: "every received event is dispatched (pass also emits V-WHO)", Run: ruleVRECV})
	registerRule(&RuleDef{ID: "V-WHO", Min: 4, Doc: "rows are changed only where the matching event is emitted (emitted by V-RECV)", Run: noop})
	registerRule(&RuleDef{ID: "X8", Min: 1, Doc: "the commit-time index check covers every transaction row", Run: ruleX8})
	registerRule(&RuleDef{ID: "L-WAIT", Min: 1, Doc: "no WaitGroup.Wait while holding a client lock", Run: ruleLWAIT})
	registerRule(&RuleDef{ID: "G-ARGS", Min: 1, Doc: "transact handler requires at least one operation", Run: ruleGARGS})
	registerRule(&RuleDef{ID: "P-NIL-TYPEOBJ", Min: 3, Doc: "ColumnSchema.TypeObj dereferenced only for map/set/enum columns or after a nil test", Run: rulePNILTYPEOBJ})
	registerRule(&RuleDef{ID: "GEN-ENUM", Min: 1, Doc: "enum alias names only with enum types on", Run: ruleGENENUM})
	registerRule(&RuleDef{ID: "L-ATOM", Min: 8, Doc: "no value read from a guarded field is used in a later critical section of the same lock (split critical section / check-then-act)", Run: ruleLATOM("client", "cache", "server", "database/inmemory")})
	add("C05", "L-ATOM")
	add("C09", "K-FRESH")
	registerRule(&RuleDef{ID: "A2-INPLACE", Min: 1, Doc: "a cached row object is replaced, never rewritten in place", Run: ruleA2INPLACE})
	add("C14", "A2-INPLACE")
	add("C13", "A2-INPLACE")
	registerRule(&RuleDef{ID: "R-ITER", Min: 1, Doc: "the update merged for an operation is produced by that operation's own iteration", Run: ruleRITER})
	add("C03", "R-ITER")
	add("C02", "R-ITER")
	add("C11", "R-ITER")
	registerRule(&RuleDef{ID: "G-LOOPVAR", Min: 0, Doc: "no goroutine started in a loop is handed the address of a variable the loop overwrites", Run: ruleGLOOPVAR})
	add("C20", "G-LOOPVAR")
	add("C18", "G-LOOPVAR")
	registerRule(&RuleDef{ID: "G-GLOBAL", Min: 1, Doc: "library code keeps no mutable package-level state (no store into a package-level variable outside initialisation)", Run: ruleGGLOBAL})
	add("C12", "G-GLOBAL")
	add("C18", "G-GLOBAL")
	add("C13", "G-GLOBAL")
	add("C15", "G-GLOBAL")
	add("C17", "G-GLOBAL")
	add("C02", "G-GLOBAL")
	add("C17", "T-SCAN")
	add("C06", "T-SCAN")
	registerRule(&RuleDef{ID: "MAX-ONE", Min: 1, Doc: "the update engine splits single-valued sets off at max == 1, like the mapper and the generator", Run: ruleMAXONE})
	add("C01", "MAX-ONE")
	add("C07", "MAX-ONE")
	add("C11", "MAX-ONE")
	add("C10", "MAX-ONE")
	add("C03", "L4")
	add("C07", "T-WARM")
	add("C08", "L2")
	add("C18", "X5")
	registerRule(&RuleDef{ID: "GEN-SKIP", Min: 1, Doc: "the generator skips writing a file only after a whole-content comparison (or in dry-run mode)", Run: ruleGENSKIP})
	add("C20", "GEN-SKIP")
	registerRule(&RuleDef{ID: "T-STALE", Min: 4, Doc: "no two AddOperation calls on one accumulator and row are given the same current value when one can follow the other", Run: ruleTSTALE})
	registerRule(&RuleDef{ID: "T-SEEALL", Min: 2, Doc: "the row state the reference tracker consults includes the changes of its earlier rounds", Run: ruleTSEEALL})
	add("C04", "T-STALE", "T-SEEALL")
	add("C11", "T-STALE", "T-SEEALL")
	add("C07", "T-STALE", "T-SEEALL")
	registerRule(&RuleDef{ID: "T-WARM", Min: 1, Doc: "every row listed from the database inside a transaction is reconciled with the transaction cache before it is handed to an operation", Run: ruleTWARM})
	add("C03", "T-WARM")
	add("C11", "T-WARM")
	add("C08", "T-WARM")
	registerRule(&RuleDef{ID: "ERR-DEAD", Min: 60, Doc: "the error result of a call into the repository is read (not overwritten before any test, not dropped)", Run: ruleERRDEAD("database/transaction", "database/inmemory", "database", "updates", "server")})
	add("C02", "ERR-DEAD")
	add("C03", "ERR-DEAD")
	add("C19", "ERR-DEAD")
	registerRule(&RuleDef{ID: "M-DROP", Min: 2, Doc: "an accumulated update that became empty is removed, and only non-empty ones are stored", Run: ruleMDROP})
	registerRule(&RuleDef{ID: "T-UUIDFREE", Min: 1, Doc: "an insert's uuid is checked to be free before the update is built", Run: ruleTUUIDFREE})
	add("C02", "T-UUIDFREE")
	add("C17", "T-UUIDFREE")
	registerRule(&RuleDef{ID: "P-NIL-REFLECT", Min: 0, Doc: "no method call on reflect.TypeOf(x) with x possibly nil in the wire-to-native conversion", Run: rulePNILREFLECT})
	add("C19", "P-NIL-REFLECT")
	registerRule(&RuleDef{ID: "MAP-EQ", Min: 1, Doc: "maps are not compared entry by entry through single-value lookups", Run: ruleMAPEQ})
	add("C10", "MAP-EQ")
	add("C13", "MAP-EQ")
	add("C03", "MAP-EQ")
	registerRule(&RuleDef{ID: "P-OPT", Min: 0, Doc: "zero tests are not applied to the pointee of an optional value", Run: rulePOPT})
	add("C09", "P-OPT")
	add("C10", "P-OPT")
	registerRule(&RuleDef{ID: "K-FRESH", Min: 2, Doc: "decoders store a newly made container before touching a container field of the destination", Run: ruleKFRESH})
	add("C12", "K-FRESH")
	registerRule(&RuleDef{ID: "T-COMMIT", Min: 1, Doc: "the reference index is updated only after the rows were applied successfully", Run: ruleTCOMMIT})
	add("C04", "T-COMMIT")
	add("C02", "T-COMMIT")
	registerRule(&RuleDef{ID: "GEN-TMPL", Min: 6, Doc: "the code the generator's template emits for pointer/slice/map columns: map equality checks key presence, lengths compared first, copies are new values (template specialised per shape, not executed)", Run: ruleGENTMPL})
	add("C13", "GEN-TMPL")
	add("C20", "GEN-TMPL")
	add("C08", "X1")
	add("C09", "P-HASH")
	add("C16", "L5")
	add("C17", "A1")
	add("C18", "A1p")
	registerRule(&RuleDef{ID: "R-LEADER", Min: 2, Doc: "the leadership verdict is taken from the row of the client's own database", Run: ruleRLEADER})
	add("C16", "R-LEADER")
	registerRule(&RuleDef{ID: "N-SKIP", Min: 6, Doc: "the substitution/validation pass of ExpandNamedUUIDs is not skipped for any table-carrying operation", Run: ruleNSKIP})
	add("C15", "N-SKIP")
	add("C19", "N-SKIP")
	add("C03", "N-SKIP")
	registerRule(&RuleDef{ID: "X9", Min: 2, Doc: "index entries never share a set object: the set stored per index is created in that iteration", Run: ruleX9})
	add("C05", "X9")
	add("C06", "X9")
	add("C08", "X9")
	add("C10", "L2")
	add("C14", "L2")
	registerRule(&RuleDef{ID: "ERR-LOOP", Min: 70, Doc: "an error produced inside a loop is examined in the iteration that produced it", Run: ruleERRLOOP(analysedPkgs...)})
	add("C09", "ERR-LOOP")
	add("C12", "ERR-LOOP")
	add("C19", "ERR-LOOP")
	add("C02", "ERR-LOOP")
	add("C03", "ERR-LOOP")
	registerRule(&RuleDef{ID: "ERR-USE", Min: 40, Doc: "in the transaction engine and the server an error that is tested and set is used or ends the function", Run: ruleERRUSE("database/transaction", "database/inmemory", "database", "server", "updates")})
	add("C02", "ERR-USE")
	add("C03", "ERR-USE")
	add("C19", "ERR-USE")
	registerRule(&RuleDef{ID: "L-CHAN", Min: 0, Doc: "no unconditional channel send while holding a lock its receiver may need", Run: ruleLCHAN})
	add("C18", "L-CHAN")
	registerRule(&RuleDef{ID: "L-RPC", Min: 3, Doc: "no lock needed by a notification handler is held across a blocking RPC", Run: ruleLRPC})
	add("C18", "L-RPC")
	add("C01", "L-RPC")
	add("C16", "L-RPC")
	registerRule(&RuleDef{ID: "K-WIRETYPE", Min: 8, Doc: "encoder and decoder of a codec pair declare the same Go type for the same wire member", Run: ruleKWIRETYPE})
	add("C12", "K-WIRETYPE")
	registerRule(&RuleDef{ID: "K-REGEX", Min: 1, Doc: "validity regexps of package ovsdb are anchored at both ends", Run: ruleKREGEX})
	add("C15", "K-REGEX")
	add("C12", "K-REGEX")
	registerRule(&RuleDef{ID: "T-PROBE", Min: 1, Doc: "the inactivity probe's timeout is armed again on every turn of its loop", Run: ruleTPROBE})
	add("C16", "T-PROBE")
	registerRule(&RuleDef{ID: "T-DANGLE", Min: 2, Doc: "the dangling strong reference test is independent of root-set membership", Run: ruleTDANGLE})
	add("C04", "T-DANGLE")
	add("C18", "L-ATOM")
	add("C12", "K6")
	add("C09", "K6")
	add("C13", "G-CLONE")
	add("C14", "V-RECV", "V-WHO")
	add("C06", "X8")
	add("C17", "X8", "S-PURE")
	add("C18", "L-WAIT", "A1", "A2")
	add("C19", "G-ARGS", "P-NIL-TYPEOBJ")
	add("C20", "GEN-ENUM")
	add("C01", "L4")
	add("C18", "T-WIRE")
	add("C16", "T-WIRE")
	add("C05", "X7")
	add("C06", "X7", "L4")
	add("C07", "S-LOOP", "L5")
	add("C04", "T-INITREFS")
	add("C03", "X5")
	add("C01", "A3-REPAIR", "S-PURE")
	add("C03", "T-DELROWS")
	add("C04", "L4", "T-SCAN")
	add("C06", "DEL-TRACK", "T-DELROWS")
	add("C05", "X6")
	add("C08", "X6")
	add("C07", "PM-ALL")
	add("C17", "PM-ALL")
	add("C01", "PM-ALL")
	add("C12", "K5")
	add("C15", "N-ALLOPS", "N-ITER")
	add("C19", "T-SCAN", "N-ALLOPS")
	add("C20", "D-WRITE")
	add("C02", "R-REPORT", "A3")
	add("C03", "A3-REPAIR", "R-REPORT")
	add("C05", "X5")
	add("C07", "S-PURE")
	add("C08", "X5")
	add("C10", "A3-REPAIR", "A3-TABLE")
	add("C13", "X5", "S-PURE")
	// after the sixth wave of seeded changes
	registerRule(&RuleDef{ID: "N-FIELDS", Min: 9, Doc: "in the substitution pass of ExpandNamedUUIDs every operation reaches the walk over each member it may carry (where/mutations/rows/row)", Run: ruleNFIELDS})
	add("C15", "N-FIELDS")
	registerRule(&RuleDef{ID: "T-TRAFFIC", Min: 1, Doc: "the traffic-seen signal of the inactivity probe is only raised under a branch fact about the RPC's error", Run: ruleTTRAFFIC})
	add("C16", "T-TRAFFIC")
	registerRule(&RuleDef{ID: "K-ATOMKEYS", Min: 4, Doc: "the OvsMap decoder admits every atom type (string, float64, bool, UUID) as a map key", Run: ruleKATOMKEYS})
	add("C09", "K-ATOMKEYS")
	add("C12", "K-ATOMKEYS")
	registerRule(&RuleDef{ID: "K-JSONQUOTE", Min: 11, Doc: "no MarshalJSON method of package ovsdb quotes strings with Go syntax (strconv.Quote*, %q): only encoding/json writes strings to the wire", Run: ruleKJSONQUOTE})
	add("C09", "K-JSONQUOTE")
	add("C12", "K-JSONQUOTE")
	add("C14", "A3")
	registerRule(&RuleDef{ID: "S-CONNFLAG", Min: 2, Doc: "rpcClient == nil implies !connected: every statement dropping the connection clears connected in the same straight-line code; only connect() sets it", Run: ruleSCONNFLAG})
	add("C16", "S-CONNFLAG")
	registerRule(&RuleDef{ID: "P-IDX-RPC", Min: 5, Doc: "every index on the positional parameters of a request, in the rpc2 handlers of the built-in server and the helpers they hand the list to, has a dominating length test", Run: rulePIDXRPC})
	add("C19", "P-IDX-RPC")
	registerRule(&RuleDef{ID: "P-POLL", Min: 1, Doc: "every polling loop (sleep and retry) on the transact path has an exit that depends on elapsed time only, reachable whatever optional members the operation carries", Run: rulePPOLL})
	add("C19", "P-POLL")
	add("C02", "X5")
	add("C17", "P-POLL")
	registerRule(&RuleDef{ID: "S-KEEPKIND", Min: 0, Doc: "a projection helper of the notification filters (*ovsdb.Row to *ovsdb.Row) returns nil only for a nil row, so the kind of a row update survives the projection", Run: ruleSKEEPKIND})
	add("C10", "S-KEEPKIND")
	add("C07", "S-KEEPKIND")
	add("C01", "S-KEEPKIND")
	add("C18", "DEFER-DISARM")
	registerRule(&RuleDef{ID: "ERR-USE-CODEC", Min: 40, Doc: "in the wire codec and the mapper an error that is tested and set is used or ends the function (three listed exceptions)", Run: ruleERRUSECODEC})
	add("C09", "ERR-USE-CODEC")
	add("C12", "ERR-USE-CODEC")
	add("C19", "ERR-USE-CODEC")
	registerRule(&RuleDef{ID: "R-WG", Min: 1, Doc: "every goroutine connect starts (itself or through a start helper) that watches stopCh is counted in handlerShutdown", Run: ruleRWG})
	add("C14", "R-WG")
	add("C16", "R-WG")
	registerRule(&RuleDef{ID: "S-ALLCOLS", Min: 2, Doc: "the notification filters tell a request that omits columns (all columns) apart from one that lists them", Run: ruleSALLCOLS})
	add("C07", "S-ALLCOLS")
	add("C01", "S-ALLCOLS")
	registerRule(&RuleDef{ID: "S-NOEMPTY", Min: 2, Doc: "a table is added to a notification only when a row update survived the filter", Run: ruleSNOEMPTY})
	add("C07", "S-NOEMPTY")
	registerRule(&RuleDef{ID: "ERR-NILRET", Min: 150, Doc: "a function with an error result does not return a nil error straight from the branch on which an error it tested is set (two listed exceptions)", Run: ruleERRNILRET})
	add("C02", "ERR-NILRET")
	add("C03", "ERR-NILRET")
	add("C09", "ERR-NILRET")
	add("C12", "ERR-NILRET")
	add("C19", "ERR-NILRET")
	add("C20", "ERR-NILRET")
	registerRule(&RuleDef{ID: "DEFER-ARM", Min: 1, Doc: "every monitor request is sent with the deferral of notifications armed", Run: ruleDEFERARM})
	add("C01", "DEFER-ARM")
	registerRule(&RuleDef{ID: "DEFER-DISARM", Min: 1, Doc: "monitor() never returns with the deferral of notifications still armed unless a reconnect is in progress or the connection is gone", Run: ruleDEFERDISARM})
	add("C01", "DEFER-DISARM")
	add("C16", "DEFER-DISARM")
	add("C16", "DEFER-ARM")
	registerRule(&RuleDef{ID: "V-RECV-PATH", Min: 1, Doc: "the event processor cannot return between taking an event from the channel and the next turn of its loop", Run: ruleVRECVPATH})
	add("C14", "V-RECV-PATH")
	registerRule(&RuleDef{ID: "M-STORE", Min: 1, Doc: "a column value the mapper converted is stored into the model on every path that does not fail", Run: ruleMSTORE})
	add("C09", "M-STORE")
	registerRule(&RuleDef{ID: "R-STARTLAST", Min: 1, Doc: "connect starts its handler goroutines only after the last step that can fail", Run: ruleRSTARTLAST})
	add("C14", "R-STARTLAST")
	add("C16", "R-STARTLAST", "L1")
	add("C17", "X1")
	registerRule(&RuleDef{ID: "CH-CLOSE", Min: 1, Doc: "no channel held in a struct field is both closed and sent on", Run: ruleCHCLOSE})
	add("C18", "CH-CLOSE")
	add("C16", "CH-CLOSE")
	registerRule(&RuleDef{ID: "V-JOIN", Min: 1, Doc: "TableCache.Run returns only after the event processor it runs has stopped", Run: ruleVJOIN})
	add("C14", "V-JOIN")
	add("C16", "V-JOIN")
	add("C06", "X5")
	add("C18", "E7", "R-DEFER", "R-ONCE")
	add("C20", "K5")
	registerRule(&RuleDef{ID: "P-NIL-LOOKUP", Min: 1, Doc: "the client's notification handlers dereference a pointer read out of a map only after a presence or nil test", Run: rulePNILLOOKUP})
	add("C18", "P-NIL-LOOKUP")
	add("C01", "P-NIL-LOOKUP")
	registerRule(&RuleDef{ID: "L-ORDER", Min: 1, Doc: "no two lock classes are taken in both orders (callers included)", Run: ruleLORDER})
	add("C18", "L-ORDER", "W4")
	add("C17", "L-ORDER")
	add("C16", "L-ORDER")
	add("C01", "ERR-LOOP")
	add("C03", "X1", "MAX-ONE")
	add("C04", "MAX-ONE")
	add("C16", "X2")
}
