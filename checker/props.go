package main

func init() {
	registerRule(&RuleDef{ID: "L1", Min: 100, Doc: "every mutex acquired in client/cache/server/inmemory is released or deferred on every return path", Run: ruleL1("client", "cache", "server", "database/inmemory")})

	registerRule(&RuleDef{ID: "L2", Min: 50, Doc: "guarded-by", Run: ruleL2("L2", "client", "cache", "server", "database/inmemory")})

	registerRule(&RuleDef{ID: "L3", Min: 10, Doc: "outermost lock", Run: ruleL3("L3", []outerSpec{{"client", "ovsdbClient", "rpcMutex"}, {"server", "OvsdbServer", "txnMutex"}})})
	registerRule(&RuleDef{ID: "L4", Min: 4, Doc: "held across", Run: ruleL4})
	registerRule(&RuleDef{ID: "L5", Min: 8, Doc: "S-REG", Run: ruleL5})

	registerProp(&PropDef{
		ID:    "C18",
		Rules: []string{"L1", "L2", "L3", "L4", "L5"},
		Explanation: "Decides the structural clause of C18: lock pairing on every return path (L1).",
		NotCovered: "data races on fields ordered by WaitGroup/channels, torn reads, channel-send liveness, general deadlock freedom",
	})

	registerRule(&RuleDef{ID: "P-IDX", Min: 10, Doc: "index in range in decoders", Run: rulePIDX})
	registerRule(&RuleDef{ID: "P-ASSERT", Min: 10, Doc: "checked type assertions in decoders", Run: rulePASSERT})
	registerRule(&RuleDef{ID: "P-NIL", Min: 3, Doc: "optional pointers in decoders", Run: rulePNILdec})
	registerRule(&RuleDef{ID: "P-NIL-TXN", Min: 3, Doc: "optional operation members", Run: rulePNILtxn})
	registerRule(&RuleDef{ID: "P-HASH", Min: 2, Doc: "hashable interface map keys in decoders", Run: rulePHASH})
	registerRule(&RuleDef{ID: "P-DIV", Min: 4, Doc: "integer division", Run: rulePDIV})
	registerProp(&PropDef{
		ID:    "C19",
		Rules: []string{"P-IDX", "P-ASSERT", "P-NIL", "P-HASH", "P-NIL-TXN", "P-DIV"},
		Explanation: "Decides totality obligations of C19 on input-reachable code.",
		NotCovered: "unchecked assertions in the transaction path that rely on upstream type validation; resource exhaustion",
	})

	registerRule(&RuleDef{ID: "K1", Min: 15, Doc: "keyed/positional codec pairs agree slot by slot", Run: ruleK12})
	registerRule(&RuleDef{ID: "K2", Min: 10, Doc: "positional codec pairs (emitted by the K1 pass)", Run: func(p *Program, r *Reporter) {}})
	registerRule(&RuleDef{ID: "K3", Min: 20, Doc: "error tables are inverse bijections", Run: ruleK3})
	registerProp(&PropDef{
		ID:    "C12",
		Rules: []string{"K1", "K2", "K3"},
		Explanation: "Decides codec agreement for C12.",
		NotCovered: "struct-tag driven encoding by encoding/json itself; OvsSet/OvsMap element handling; numeric fidelity",
	})

	registerRule(&RuleDef{ID: "E6", Min: 100, Doc: "every constant of a group is handled at each sibling site", Run: ruleE6})
	registerProp(&PropDef{
		ID:    "C03",
		Rules: []string{"E6"},
		Explanation: "Exhaustiveness of operation/mutator/condition tables.",
		NotCovered: "what each handler computes",
	})

	registerRule(&RuleDef{ID: "P-NIL-MON", Min: 4, Doc: "monitor request optional members", Run: rulePNILmon})
	registerRule(&RuleDef{ID: "W1", Min: 15, Doc: "notification method/arity/payload agree between server sender, client handler and spec", Run: ruleW})
	for _, id := range []string{"W2", "W3", "W4"} {
		registerRule(&RuleDef{ID: id, Min: 3, Doc: "emitted by the W1 pass", Run: func(p *Program, r *Reporter) {}})
	}
	registerProp(&PropDef{
		ID:    "C07",
		Rules: []string{"W1", "W2", "W3", "W4", "P-NIL-MON"},
		Explanation: "wiring",
		NotCovered: "values",
	})

	registerRule(&RuleDef{ID: "A1", Min: 20, Doc: "fresh-out", Run: ruleA1})
	registerRule(&RuleDef{ID: "A1p", Min: 2, Doc: "RowsShallow callers", Run: ruleA1p})
	registerRule(&RuleDef{ID: "A2", Min: 2, Doc: "fresh-in", Run: ruleA2})
	registerRule(&RuleDef{ID: "A3", Min: 5, Doc: "owned in-place args", Run: ruleA3})
	registerRule(&RuleDef{ID: "A4", Min: 4, Doc: "who may write committed state", Run: ruleA4})
	registerRule(&RuleDef{ID: "A5", Min: 10, Doc: "no dropped error on commit path", Run: ruleA5})
	registerRule(&RuleDef{ID: "T-SCAN", Min: 2, Doc: "error scan before notify/commit", Run: ruleTSCAN})
	registerProp(&PropDef{
		ID:    "C13",
		Rules: []string{"A1", "A1p", "A2", "A3", "A4", "A5", "T-SCAN"},
		Explanation: "aliasing",
		NotCovered: "values",
	})

	registerRule(&RuleDef{ID: "X1", Min: 2, Doc: "owner-checked index removal", Run: ruleX1})
	registerRule(&RuleDef{ID: "X2", Min: 6, Doc: "who may write rows/indexes", Run: ruleX2})
	registerRule(&RuleDef{ID: "X3", Min: 6, Doc: "index coverage", Run: ruleX3})
	registerRule(&RuleDef{ID: "X4", Min: 4, Doc: "commit-time check placement", Run: ruleX4})
	registerRule(&RuleDef{ID: "T-WIRE", Min: 7, Doc: "constant mode wiring", Run: ruleTWIRE})
	registerProp(&PropDef{
		ID:    "C05",
		Rules: []string{"X1", "X2", "X3", "X4", "T-WIRE"},
		Explanation: "index",
		NotCovered: "values",
	})

	registerRule(&RuleDef{ID: "E7", Min: 3, Doc: "purge/populate typestate during reconnect", Run: ruleE7})
	registerRule(&RuleDef{ID: "R-DEFER", Min: 1, Doc: "emitted by E7", Run: func(p *Program, r *Reporter) {}})
	registerRule(&RuleDef{ID: "R-ONCE", Min: 2, Doc: "emitted by E7", Run: func(p *Program, r *Reporter) {}})
	registerProp(&PropDef{
		ID:    "C16",
		Rules: []string{"E7", "R-DEFER", "R-ONCE"},
		Explanation: "reconnect",
		NotCovered: "values",
	})

	registerRule(&RuleDef{ID: "V1", Min: 3, Doc: "one matching event per successful cache mutation", Run: ruleV})
	registerRule(&RuleDef{ID: "V2", Min: 7, Doc: "emitted by V1", Run: func(p *Program, r *Reporter) {}})
	registerRule(&RuleDef{ID: "V3", Min: 4, Doc: "emitted by V1", Run: func(p *Program, r *Reporter) {}})
	registerProp(&PropDef{
		ID:    "C14",
		Rules: []string{"V1", "V2", "V3"},
		Explanation: "events",
		NotCovered: "values",
	})

	registerRule(&RuleDef{ID: "N-COVER", Min: 4, Doc: "every value-carrying member of Operation is expanded", Run: ruleN})
	registerRule(&RuleDef{ID: "N-PHASE", Min: 1, Doc: "emitted by N-COVER", Run: func(p *Program, r *Reporter) {}})
	registerRule(&RuleDef{ID: "N-POS", Min: 4, Doc: "emitted by N-COVER", Run: func(p *Program, r *Reporter) {}})
	registerRule(&RuleDef{ID: "G-GATE", Min: 6, Doc: "emitted by N-COVER", Run: func(p *Program, r *Reporter) {}})
	registerProp(&PropDef{
		ID:    "C15",
		Rules: []string{"N-COVER", "N-PHASE", "N-POS", "G-GATE"},
		Explanation: "named uuids",
		NotCovered: "values",
	})
}
