package main

import (
	"fmt"
	"go/ast"
	"go/token"
	"go/types"
	"os"
	"sort"
	"strings"

	"golang.org/x/tools/go/packages"
)

// TextEdit replaces bytes [Start,End) of File with New.
type TextEdit struct {
	File       string
	Start, End int
	New        string
}

// ControlDef is a seeded variant of the tree under analysis: an edit located
// semantically (by object / AST shape, never by line), which must make Rule
// report a violation whose key contains Expect.
type ControlDef struct {
	Name   string
	Rule   string
	Expect string
	Edit   func(p *Program) ([]TextEdit, error)
}

var controls []*ControlDef

func registerControl(c *ControlDef) { controls = append(controls, c) }

func (p *Program) src(file string) ([]byte, error) {
	if b, ok := p.Files[file]; ok {
		return b, nil
	}
	return os.ReadFile(file)
}

func (p *Program) offset(pos token.Pos) (string, int) {
	ps := p.Fset.Position(pos)
	return ps.Filename, ps.Offset
}

// editReplace replaces the source range of node n with text.
func (p *Program) editReplace(n ast.Node, text string) TextEdit {
	f, s := p.offset(n.Pos())
	_, e := p.offset(n.End())
	return TextEdit{File: f, Start: s, End: e, New: text}
}

func (p *Program) editRange(from, to token.Pos, text string) TextEdit {
	f, s := p.offset(from)
	_, e := p.offset(to)
	return TextEdit{File: f, Start: s, End: e, New: text}
}

func (p *Program) text(n ast.Node) string {
	f, s := p.offset(n.Pos())
	_, e := p.offset(n.End())
	b, err := p.src(f)
	if err != nil || s < 0 || e > len(b) {
		return ""
	}
	return string(b[s:e])
}

func overlaps(a, b TextEdit) bool {
	return a.File == b.File && a.Start < b.End && b.Start < a.End
}

func buildOverlay(p *Program, edits []TextEdit) (map[string][]byte, error) {
	byFile := map[string][]TextEdit{}
	for _, e := range edits {
		byFile[e.File] = append(byFile[e.File], e)
	}
	ov := map[string][]byte{}
	for f, es := range byFile {
		src, err := p.src(f)
		if err != nil {
			return nil, err
		}
		sort.Slice(es, func(i, j int) bool { return es[i].Start > es[j].Start })
		out := append([]byte{}, src...)
		for _, e := range es {
			if e.Start < 0 || e.End > len(out) || e.Start > e.End {
				return nil, fmt.Errorf("bad edit range in %s", f)
			}
			out = append(out[:e.Start], append([]byte(e.New), out[e.End:]...)...)
		}
		ov[f] = out
	}
	return ov, nil
}

type ctlPrepared struct {
	def   *ControlDef
	edits []TextEdit
	res   ControlResult
}

func controlsFor(pd *PropDef) []*ControlDef {
	want := map[string]bool{}
	for _, r := range pd.Rules {
		want[r] = true
	}
	var out []*ControlDef
	for _, c := range controls {
		if want[c.Rule] {
			out = append(out, c)
		}
	}
	return out
}

// evalVariant loads the tree with the edits applied, runs the rules and
// decides, for each control, whether the expected new violation appears.
func evalVariant(p *Program, ruleIDs []string, base *Reporter, batch []*ctlPrepared) {
	var edits []TextEdit
	for _, c := range batch {
		edits = append(edits, c.edits...)
	}
	ov, err := buildOverlay(p, edits)
	if err != nil {
		for _, c := range batch {
			c.res.Status = "unavailable"
			c.res.Reported = []string{err.Error()}
		}
		return
	}
	vp, err := Load(ov)
	if err != nil {
		for _, c := range batch {
			c.res.Status = "unavailable"
			c.res.Reported = []string{"variant does not type-check: " + firstLine(err.Error())}
		}
		return
	}
	vr := runRules(vp, ruleIDs)
	baseViol := map[string]bool{}
	for _, o := range base.Violations() {
		baseViol[o.Key] = true
	}
	for _, c := range batch {
		c.res.Status = "missed"
		for _, o := range vr.Violations() {
			if o.Rule == c.def.Rule && strings.Contains(o.Key, c.def.Expect) && !baseViol[o.Key] {
				c.res.Status = "fired"
				c.res.Reported = append(c.res.Reported, o.Pos+" "+o.Key)
			}
		}
	}
	vp = nil
	gc()
}

func firstLine(s string) string {
	if i := strings.Index(s, "\n"); i >= 0 {
		return s[:i]
	}
	return s
}

func runControls(p *Program, pd *PropDef, base *Reporter, tier string) []ControlResult {
	var prepared []*ctlPrepared
	for _, c := range controlsFor(pd) {
		cp := &ctlPrepared{def: c, res: ControlResult{Name: c.Name, Rule: c.Rule, Expect: c.Expect}}
		func() {
			defer func() {
				if e := recover(); e != nil {
					cp.res.Status = "unavailable"
					cp.res.Reported = []string{fmt.Sprint("edit panicked: ", e)}
				}
			}()
			edits, err := c.Edit(p)
			if err != nil {
				cp.res.Status = "unavailable"
				cp.res.Reported = []string{err.Error()}
				return
			}
			cp.edits = edits
		}()
		prepared = append(prepared, cp)
	}
	var pending []*ctlPrepared
	for _, c := range prepared {
		if c.res.Status == "" {
			pending = append(pending, c)
		}
	}
	if tier == "thorough" {
		for _, c := range pending {
			evalVariant(p, pd.Rules, base, []*ctlPrepared{c})
		}
	} else {
		// greedy batches of non-overlapping edits; a control missed in a
		// batch is retried alone (another seeded edit may have masked it)
		for len(pending) > 0 {
			var batch, rest []*ctlPrepared
			for _, c := range pending {
				conflict := false
				for _, b := range batch {
					for _, e1 := range b.edits {
						for _, e2 := range c.edits {
							if overlaps(e1, e2) {
								conflict = true
							}
						}
					}
				}
				if conflict {
					rest = append(rest, c)
				} else {
					batch = append(batch, c)
				}
			}
			evalVariant(p, pd.Rules, base, batch)
			if len(batch) > 1 {
				for _, c := range batch {
					if c.res.Status != "fired" {
						c.res.Reported = nil
						evalVariant(p, pd.Rules, base, []*ctlPrepared{c})
					}
				}
			}
			pending = rest
		}
	}
	var out []ControlResult
	for _, c := range prepared {
		out = append(out, c.res)
	}
	if tier == "thorough" {
		out = append(out, runSweeps(p, pd, base)...)
	}
	return out
}

// runSweeps evaluates the per-instance sweeps of the property's rules in
// batches of non-overlapping edits (at most one edit per function per batch);
// an instance missed in a batch is retried alone.
func runSweeps(p *Program, pd *PropDef, base *Reporter) []ControlResult {
	want := map[string]bool{}
	for _, r := range pd.Rules {
		want[r] = true
	}
	var out []ControlResult
	for _, sw := range sweeps {
		if !want[sw.Rule] {
			continue
		}
		var pending []*ctlPrepared
		for _, c := range sw.Gen(p) {
			cp := &ctlPrepared{def: c, res: ControlResult{Name: c.Name, Rule: c.Rule, Expect: c.Expect}}
			eds, err := c.Edit(p)
			if err != nil {
				cp.res.Status = "unavailable"
				out = append(out, cp.res)
				continue
			}
			cp.edits = eds
			pending = append(pending, cp)
		}
		total := len(pending)
		const batchSize = 24
		var done []*ctlPrepared
		for len(pending) > 0 {
			var batch, rest []*ctlPrepared
			usedFn := map[string]bool{}
			for _, c := range pending {
				fnKey := c.def.Name
				if i := strings.LastIndex(fnKey, " in "); i >= 0 {
					fnKey = fnKey[i:]
					if j := strings.LastIndex(fnKey, "#"); j >= 0 {
						fnKey = fnKey[:j]
					}
				}
				conflict := len(batch) >= batchSize || ((c.def.Rule == "L1" || c.def.Rule == "ERR-USE") && usedFn[fnKey])
				for _, b := range batch {
					for _, e1 := range b.edits {
						for _, e2 := range c.edits {
							if overlaps(e1, e2) {
								conflict = true
							}
						}
					}
				}
				if conflict {
					rest = append(rest, c)
				} else {
					batch = append(batch, c)
					usedFn[fnKey] = true
				}
			}
			evalVariant(p, pd.Rules, base, batch)
			for _, c := range batch {
				if c.res.Status != "fired" && len(batch) > 1 {
					c.res.Reported = nil
					evalVariant(p, pd.Rules, base, []*ctlPrepared{c})
				}
			}
			done = append(done, batch...)
			pending = rest
		}
		fired := 0
		for _, c := range done {
			if c.res.Status == "fired" {
				fired++
			} else {
				out = append(out, c.res)
			}
		}
		out = append(out, ControlResult{Name: fmt.Sprintf("sweep summary for %s: %d instances seeded, %d reported", sw.Rule, total, fired), Rule: sw.Rule, Status: "fired"})
	}
	return out
}

func runSelftest(prop string) int {
	p, err := Load(nil)
	if err != nil {
		fmt.Println("load:", err)
		return 2
	}
	bad := 0
	for _, id := range sortedKeys(props) {
		if prop != "" && prop != id {
			continue
		}
		pd := props[id]
		base := runRules(p, pd.Rules)
		for _, c := range runControls(p, pd, base, "thorough") {
			fmt.Printf("%s %-8s %-7s %s %v\n", id, c.Rule, c.Status, c.Name, c.Reported)
			if c.Status != "fired" {
				bad++
			}
		}
	}
	if bad > 0 {
		fmt.Printf("selftest: %d controls did not fire\n", bad)
		return 1
	}
	return 0
}

// ---------------------------------------------------------------------------
// AST helpers used by control edits and AST rules

// funcDecl returns the declaration of pkgrel.(recv).name
func (p *Program) funcDecl(pkgrel, recv, name string) (*ast.FuncDecl, *packages.Package, error) {
	f := p.LookupFunc(pkgrel, recv, name)
	if f == nil {
		return nil, nil, fmt.Errorf("function %s.%s.%s not found", pkgrel, recv, name)
	}
	fd, pk := p.Decl(f)
	if fd == nil {
		return nil, nil, fmt.Errorf("no declaration for %s", f.FullName())
	}
	return fd, pk, nil
}

// calleeOf resolves the called function object of a call expression (static
// functions, methods, interface methods).
func calleeOf(info *types.Info, call *ast.CallExpr) *types.Func {
	var id *ast.Ident
	switch f := ast.Unparen(call.Fun).(type) {
	case *ast.Ident:
		id = f
	case *ast.SelectorExpr:
		id = f.Sel
	case *ast.IndexExpr:
		if s, ok := f.X.(*ast.SelectorExpr); ok {
			id = s.Sel
		} else if i, ok := f.X.(*ast.Ident); ok {
			id = i
		}
	}
	if id == nil {
		return nil
	}
	if fn, ok := info.Uses[id].(*types.Func); ok {
		return fn
	}
	return nil
}

// isMethod reports whether fn is the method pkgpath.(recv).name (recv without *).
func isMethod(fn *types.Func, pkgpath, recv, name string) bool {
	if fn == nil || fn.Name() != name {
		return false
	}
	sig := fn.Type().(*types.Signature)
	if sig.Recv() == nil {
		return recv == "" && fn.Pkg() != nil && fn.Pkg().Path() == pkgpath
	}
	return isNamed(sig.Recv().Type(), pkgpath, recv)
}

// findCalls returns the call expressions inside n whose callee satisfies pred, in source order.
func findCalls(info *types.Info, n ast.Node, pred func(*types.Func) bool) []*ast.CallExpr {
	var out []*ast.CallExpr
	ast.Inspect(n, func(x ast.Node) bool {
		if c, ok := x.(*ast.CallExpr); ok {
			if fn := calleeOf(info, c); fn != nil && pred(fn) {
				out = append(out, c)
			}
		}
		return true
	})
	return out
}

// enclosingStmt finds the innermost statement in fd containing pos that is a direct child of a block.
func enclosingStmt(fd *ast.FuncDecl, pos token.Pos) ast.Stmt {
	var found ast.Stmt
	ast.Inspect(fd, func(x ast.Node) bool {
		if x == nil {
			return false
		}
		if x.Pos() > pos || x.End() <= pos {
			return false
		}
		switch b := x.(type) {
		case *ast.BlockStmt:
			for _, s := range b.List {
				if s.Pos() <= pos && pos < s.End() {
					found = s
				}
			}
		case *ast.CaseClause:
			for _, s := range b.Body {
				if s.Pos() <= pos && pos < s.End() {
					found = s
				}
			}
		case *ast.CommClause:
			for _, s := range b.Body {
				if s.Pos() <= pos && pos < s.End() {
					found = s
				}
			}
		}
		return true
	})
	return found
}
