package main

import (
	"fmt"
	"go/ast"
	"go/constant"
	"go/token"
	"go/types"
	"reflect"
	"sort"
	"strconv"
	"strings"

	"golang.org/x/tools/go/packages"
)

// E3 — codec agreement between hand-written MarshalJSON / UnmarshalJSON pairs.
//
// Both halves are reduced to a map  slot -> set of receiver fields, where a
// slot is a JSON member name (keyed codecs) or an array position (positional
// codecs). The maps are computed by a small taint propagation over the typed
// AST of each method.

type slotMap map[string]map[string]bool

func (m slotMap) add(slot, field string) {
	if m[slot] == nil {
		m[slot] = map[string]bool{}
	}
	m[slot][field] = true
}

func setStr(s map[string]bool) string {
	var ks []string
	for k := range s {
		ks = append(ks, k)
	}
	sort.Strings(ks)
	return "{" + strings.Join(ks, ",") + "}"
}

func jsonTagName(tag string, fieldName string) (string, bool) {
	st := reflect.StructTag(tag)
	v, ok := st.Lookup("json")
	if !ok {
		return fieldName, true
	}
	name := strings.Split(v, ",")[0]
	if name == "-" {
		return "", false
	}
	if name == "" {
		return fieldName, true
	}
	return name, true
}

type codecCtx struct {
	p        *Program
	pk       *packages.Package
	info     *types.Info
	recv     *types.Var             // receiver variable of the method
	recvT    *types.Named           // receiver named type
	recvFlds map[*types.Var]bool    // fields of the receiver struct
	methods  map[string]*types.Func // methods of recvT by name
}

func newCodecCtx(p *Program, pk *packages.Package, fd *ast.FuncDecl) *codecCtx {
	c := &codecCtx{p: p, pk: pk, info: pk.TypesInfo, recvFlds: map[*types.Var]bool{}, methods: map[string]*types.Func{}}
	if fd.Recv == nil || len(fd.Recv.List) == 0 || len(fd.Recv.List[0].Names) == 0 {
		return nil
	}
	rv, _ := c.info.Defs[fd.Recv.List[0].Names[0]].(*types.Var)
	if rv == nil {
		return nil
	}
	c.recv = rv
	nt, _ := deref(rv.Type()).(*types.Named)
	if nt == nil {
		return nil
	}
	c.recvT = nt
	if st, ok := nt.Underlying().(*types.Struct); ok {
		for i := 0; i < st.NumFields(); i++ {
			c.recvFlds[st.Field(i)] = true
		}
	}
	for i := 0; i < nt.NumMethods(); i++ {
		c.methods[nt.Method(i).Name()] = nt.Method(i)
	}
	return c
}

// recvFieldOf: expression recv.f (possibly deeper: recv.f.g -> f)
func (c *codecCtx) recvFieldOf(e ast.Expr) *types.Var {
	for {
		switch x := ast.Unparen(e).(type) {
		case *ast.SelectorExpr:
			if id, ok := ast.Unparen(x.X).(*ast.Ident); ok && c.info.Uses[id] == c.recv {
				if f, ok := c.info.Uses[x.Sel].(*types.Var); ok && c.recvFlds[f] {
					return f
				}
				return nil
			}
			e = x.X
		case *ast.IndexExpr:
			e = x.X
		case *ast.StarExpr:
			e = x.X
		case *ast.UnaryExpr:
			e = x.X
		default:
			return nil
		}
	}
}

// fieldsReadByMethod: receiver fields read in a method of the receiver type (transitively, depth 3).
func (c *codecCtx) fieldsReadByMethod(m *types.Func, depth int, out map[string]bool) {
	fd, pk := c.p.Decl(m)
	if fd == nil || fd.Body == nil || depth > 3 {
		return
	}
	sub := newCodecCtx(c.p, pk, fd)
	if sub == nil {
		return
	}
	ast.Inspect(fd.Body, func(n ast.Node) bool {
		switch x := n.(type) {
		case *ast.SelectorExpr:
			if f := sub.recvFieldOf(x); f != nil {
				out[f.Name()] = true
			}
		case *ast.CallExpr:
			if sel, ok := ast.Unparen(x.Fun).(*ast.SelectorExpr); ok {
				if id, ok := ast.Unparen(sel.X).(*ast.Ident); ok && sub.info.Uses[id] == sub.recv {
					if mm := sub.methods[sel.Sel.Name]; mm != nil {
						sub.fieldsReadByMethod(mm, depth+1, out)
					}
				}
			}
		}
		return true
	})
}

// taintEnv maps local objects to the labels that flow into them.
type taintEnv map[types.Object]map[string]bool

func (t taintEnv) addAll(o types.Object, labels map[string]bool) bool {
	if o == nil || len(labels) == 0 {
		return false
	}
	if t[o] == nil {
		t[o] = map[string]bool{}
	}
	ch := false
	for l := range labels {
		if !t[o][l] {
			t[o][l] = true
			ch = true
		}
	}
	return ch
}

// exprLabels computes the labels mentioned by an expression: direct sources
// (via src) plus tainted local identifiers.
func (c *codecCtx) exprLabels(e ast.Expr, env taintEnv, src func(ast.Expr) (string, bool)) map[string]bool {
	out := map[string]bool{}
	if e == nil {
		return out
	}
	ast.Inspect(e, func(n ast.Node) bool {
		ex, ok := n.(ast.Expr)
		if !ok {
			return true
		}
		if l, ok := src(ex); ok {
			out[l] = true
			return false
		}
		switch x := ex.(type) {
		case *ast.Ident:
			if o := c.info.Uses[x]; o != nil {
				for l := range env[o] {
					out[l] = true
				}
			}
		case *ast.FuncLit:
			return false
		}
		return true
	})
	return out
}

func lhsObj(info *types.Info, e ast.Expr) types.Object {
	if id, ok := ast.Unparen(e).(*ast.Ident); ok {
		if o := info.Defs[id]; o != nil {
			return o
		}
		return info.Uses[id]
	}
	return nil
}

// propagate runs the local taint propagation over body until a fixpoint and
// calls sink for every assignment (lhs expr, labels of rhs + enclosing conditions).
func (c *codecCtx) propagate(body *ast.BlockStmt, src func(ast.Expr) (string, bool), sink func(lhs ast.Expr, labels map[string]bool, pos token.Pos)) {
	env := taintEnv{}
	union := func(a, b map[string]bool) map[string]bool {
		o := map[string]bool{}
		for k := range a {
			o[k] = true
		}
		for k := range b {
			o[k] = true
		}
		return o
	}
	var walk func(n ast.Node, ctl map[string]bool, emit bool) bool
	walk = func(n ast.Node, ctl map[string]bool, emit bool) bool {
		changed := false
		assign := func(lhs ast.Expr, labels map[string]bool, pos token.Pos) {
			all := union(labels, ctl)
			if o := lhsObj(c.info, lhs); o != nil {
				if _, isVar := o.(*types.Var); isVar && o != c.recv {
					if env.addAll(o, all) {
						changed = true
					}
				}
			} else {
				// a store into an element or member of a local container (m[k] = v, s.f = v,
				// a[i] = v): the container now carries the value (weak update); the result
				// may be built in a local and assigned to the receiver at the end
				e := ast.Unparen(lhs)
				for depth := 0; depth < 6; depth++ {
					switch x := e.(type) {
					case *ast.IndexExpr:
						e = ast.Unparen(x.X)
						continue
					case *ast.SelectorExpr:
						e = ast.Unparen(x.X)
						continue
					case *ast.StarExpr:
						e = ast.Unparen(x.X)
						continue
					}
					break
				}
				if id, ok := e.(*ast.Ident); ok {
					if o := c.info.Uses[id]; o != nil {
						if v, isVar := o.(*types.Var); isVar && o != c.recv && !v.IsField() {
							if env.addAll(o, all) {
								changed = true
							}
						}
					}
				}
			}
			if emit {
				sink(lhs, all, pos)
			}
		}
		switch s := n.(type) {
		case nil:
		case *ast.BlockStmt:
			if s == nil {
				return false
			}
			for _, st := range s.List {
				if walk(st, ctl, emit) {
					changed = true
				}
			}
		case *ast.AssignStmt:
			if len(s.Lhs) == len(s.Rhs) {
				for i := range s.Lhs {
					assign(s.Lhs[i], c.exprLabels(s.Rhs[i], env, src), s.Pos())
				}
			} else if len(s.Rhs) == 1 {
				lab := c.exprLabels(s.Rhs[0], env, src)
				for i := range s.Lhs {
					assign(s.Lhs[i], lab, s.Pos())
				}
			}
			// json.Unmarshal(X, &y) on the rhs: y <- X
			for _, r := range s.Rhs {
				if c.unmarshalFlow(r, env, src, ctl) {
					changed = true
				}
			}
		case *ast.DeclStmt:
			if gd, ok := s.Decl.(*ast.GenDecl); ok {
				for _, sp := range gd.Specs {
					if vs, ok := sp.(*ast.ValueSpec); ok {
						for i, nm := range vs.Names {
							if i < len(vs.Values) {
								assign(nm, c.exprLabels(vs.Values[i], env, src), nm.Pos())
							}
						}
					}
				}
			}
		case *ast.ExprStmt:
			if c.unmarshalFlow(s.X, env, src, ctl) {
				changed = true
			}
			// copy(dst, src) builtin
			if call, ok := s.X.(*ast.CallExpr); ok {
				if id, ok := call.Fun.(*ast.Ident); ok && id.Name == "copy" && len(call.Args) == 2 {
					assign(call.Args[0], c.exprLabels(call.Args[1], env, src), call.Pos())
				}
			}
		case *ast.IfStmt:
			if s.Init != nil && walk(s.Init, ctl, emit) {
				changed = true
			}
			inner := union(ctl, c.exprLabels(s.Cond, env, src))
			if walk(s.Body, inner, emit) {
				changed = true
			}
			if s.Else != nil && walk(s.Else, inner, emit) {
				changed = true
			}
		case *ast.SwitchStmt:
			if s.Init != nil && walk(s.Init, ctl, emit) {
				changed = true
			}
			inner := union(ctl, c.exprLabels(s.Tag, env, src))
			for _, cc := range s.Body.List {
				cl := cc.(*ast.CaseClause)
				in2 := inner
				for _, e := range cl.List {
					in2 = union(in2, c.exprLabels(e, env, src))
				}
				for _, st := range cl.Body {
					if walk(st, in2, emit) {
						changed = true
					}
				}
			}
		case *ast.TypeSwitchStmt:
			if s.Init != nil && walk(s.Init, ctl, emit) {
				changed = true
			}
			var tagExpr ast.Expr
			switch a := s.Assign.(type) {
			case *ast.AssignStmt:
				if ta, ok := a.Rhs[0].(*ast.TypeAssertExpr); ok {
					tagExpr = ta.X
				}
			case *ast.ExprStmt:
				if ta, ok := a.X.(*ast.TypeAssertExpr); ok {
					tagExpr = ta.X
				}
			}
			lab := c.exprLabels(tagExpr, env, src)
			inner := union(ctl, lab)
			for _, cc := range s.Body.List {
				cl := cc.(*ast.CaseClause)
				if o := c.info.Implicits[cl]; o != nil {
					if env.addAll(o, lab) {
						changed = true
					}
				}
				for _, st := range cl.Body {
					if walk(st, inner, emit) {
						changed = true
					}
				}
			}
		case *ast.ForStmt:
			if s.Init != nil && walk(s.Init, ctl, emit) {
				changed = true
			}
			if walk(s.Body, ctl, emit) {
				changed = true
			}
		case *ast.RangeStmt:
			lab := c.exprLabels(s.X, env, src)
			if s.Key != nil {
				assign(s.Key, lab, s.Pos())
			}
			if s.Value != nil {
				assign(s.Value, lab, s.Pos())
			}
			if walk(s.Body, ctl, emit) {
				changed = true
			}
		case *ast.ReturnStmt, *ast.BranchStmt, *ast.IncDecStmt, *ast.EmptyStmt, *ast.DeferStmt, *ast.GoStmt:
		case *ast.LabeledStmt:
			if walk(s.Stmt, ctl, emit) {
				changed = true
			}
		}
		return changed
	}
	for i := 0; i < 6; i++ {
		if !walk(body, map[string]bool{}, false) {
			break
		}
	}
	walk(body, map[string]bool{}, true)
}

// unmarshalFlow handles json.Unmarshal(X, &y): labels of X flow into y.
func (c *codecCtx) unmarshalFlow(e ast.Expr, env taintEnv, src func(ast.Expr) (string, bool), ctl map[string]bool) bool {
	changed := false
	ast.Inspect(e, func(n ast.Node) bool {
		call, ok := n.(*ast.CallExpr)
		if !ok {
			return true
		}
		fn := calleeOf(c.info, call)
		if fn == nil || fn.Pkg() == nil || fn.Pkg().Path() != "encoding/json" || fn.Name() != "Unmarshal" || len(call.Args) != 2 {
			return true
		}
		lab := c.exprLabels(call.Args[0], env, src)
		for k := range ctl {
			lab[k] = true // a decode that only happens under a condition depends on that condition
		}
		if u, ok := ast.Unparen(call.Args[1]).(*ast.UnaryExpr); ok && u.Op == token.AND {
			if o := lhsObj(c.info, u.X); o != nil {
				if env.addAll(o, lab) {
					changed = true
				}
			}
		}
		return true
	})
	return changed
}

type codecHalf struct {
	slots     slotMap
	slotNames map[string]bool // all slots declared by the wire struct / literal
	kind      string          // "keyed" | "positional" | ""
	pos       token.Pos
}

// structSlots lists the JSON member names of a struct type.
func structSlots(t types.Type) (map[string]*types.Var, bool) {
	st, ok := t.Underlying().(*types.Struct)
	if !ok {
		return nil, false
	}
	out := map[string]*types.Var{}
	any := false
	for i := 0; i < st.NumFields(); i++ {
		if _, has := reflect.StructTag(st.Tag(i)).Lookup("json"); has {
			any = true
		}
		if n, ok := jsonTagName(st.Tag(i), st.Field(i).Name()); ok {
			out[n] = st.Field(i)
		}
	}
	return out, any
}

// analyseDecoder computes slot -> receiver fields for an UnmarshalJSON method.
func (c *codecCtx) analyseDecoder(fd *ast.FuncDecl) *codecHalf {
	h := &codecHalf{slots: slotMap{}, slotNames: map[string]bool{}, pos: fd.Pos()}
	// temporaries: local variables whose address is passed to json.Unmarshal(<param>, &tmp)
	tmps := map[types.Object]bool{}
	ast.Inspect(fd.Body, func(n ast.Node) bool {
		call, ok := n.(*ast.CallExpr)
		if !ok {
			return true
		}
		fn := calleeOf(c.info, call)
		if fn == nil || fn.Pkg() == nil || fn.Pkg().Path() != "encoding/json" || fn.Name() != "Unmarshal" || len(call.Args) != 2 {
			return true
		}
		// first arg must be the method's byte-slice parameter
		if id, ok := ast.Unparen(call.Args[0]).(*ast.Ident); !ok || !isParamOf(c.info, fd, id) {
			return true
		}
		if u, ok := ast.Unparen(call.Args[1]).(*ast.UnaryExpr); ok && u.Op == token.AND {
			if o := lhsObj(c.info, u.X); o != nil && o != c.recv {
				tmps[o] = true
			}
		}
		return true
	})
	fieldSlot := map[*types.Var]string{}
	for o := range tmps {
		if sl, tagged := structSlots(o.Type()); sl != nil && tagged {
			h.kind = "keyed"
			for n, f := range sl {
				h.slotNames[n] = true
				fieldSlot[f] = n
			}
		} else if _, isSlice := o.Type().Underlying().(*types.Slice); isSlice {
			if h.kind == "" {
				h.kind = "positional"
			}
		}
	}
	src := func(e ast.Expr) (string, bool) {
		switch x := e.(type) {
		case *ast.SelectorExpr:
			if id, ok := ast.Unparen(x.X).(*ast.Ident); ok && tmps[c.info.Uses[id]] {
				if f, ok := c.info.Uses[x.Sel].(*types.Var); ok {
					if s, ok := fieldSlot[f]; ok {
						return s, true
					}
				}
			}
		case *ast.IndexExpr:
			if id, ok := ast.Unparen(x.X).(*ast.Ident); ok && tmps[c.info.Uses[id]] {
				if tv, ok := c.info.Types[x.Index]; ok && tv.Value != nil && tv.Value.Kind() == constant.Int {
					if _, isSlice := c.info.Uses[id].Type().Underlying().(*types.Slice); isSlice {
						return "#" + tv.Value.String(), true
					}
				}
			}
		}
		return "", false
	}
	c.propagate(fd.Body, src, func(lhs ast.Expr, labels map[string]bool, pos token.Pos) {
		if f := c.recvFieldOf(lhs); f != nil {
			for l := range labels {
				h.slots.add(l, f.Name())
			}
		}
	})
	// a positional decoder that walks the wire array with a variable index (a table of
	// destinations): which position feeds which field is not visible in the syntax
	if h.kind == "positional" {
		ast.Inspect(fd.Body, func(n ast.Node) bool {
			x, ok := n.(*ast.IndexExpr)
			if !ok {
				return true
			}
			if id, ok := ast.Unparen(x.X).(*ast.Ident); ok && tmps[c.info.Uses[id]] {
				if tv, ok := c.info.Types[x.Index]; !ok || tv.Value == nil {
					if _, isSlice := c.info.Uses[id].Type().Underlying().(*types.Slice); isSlice {
						h.kind = "positional (variable index)"
					}
				}
			}
			return true
		})
	}
	return h
}

func isParamOf(info *types.Info, fd *ast.FuncDecl, id *ast.Ident) bool {
	o := info.Uses[id]
	if o == nil || fd.Type.Params == nil {
		return false
	}
	for _, f := range fd.Type.Params.List {
		for _, n := range f.Names {
			if info.Defs[n] == o {
				return true
			}
		}
	}
	return false
}

// analyseEncoder computes slot -> receiver fields for a MarshalJSON method.
func (c *codecCtx) analyseEncoder(fd *ast.FuncDecl) *codecHalf {
	h := &codecHalf{slots: slotMap{}, slotNames: map[string]bool{}, pos: fd.Pos()}
	// receiver-field labels
	src := func(e ast.Expr) (string, bool) {
		switch x := e.(type) {
		case *ast.SelectorExpr:
			if id, ok := ast.Unparen(x.X).(*ast.Ident); ok && c.info.Uses[id] == c.recv {
				if f, ok := c.info.Uses[x.Sel].(*types.Var); ok && c.recvFlds[f] {
					return "f:" + f.Name(), true
				}
			}
		case *ast.CallExpr:
			if sel, ok := ast.Unparen(x.Fun).(*ast.SelectorExpr); ok {
				if id, ok := ast.Unparen(sel.X).(*ast.Ident); ok && c.info.Uses[id] == c.recv {
					if m := c.methods[sel.Sel.Name]; m != nil {
						flds := map[string]bool{}
						c.fieldsReadByMethod(m, 0, flds)
						if len(flds) == 1 {
							for f := range flds {
								return "f:" + f, true
							}
						}
					}
				}
			}
		}
		return "", false
	}
	multiSrc := func(e ast.Expr, env taintEnv) map[string]bool {
		out := c.exprLabels(e, env, src)
		// accessor methods reading several fields
		ast.Inspect(e, func(n ast.Node) bool {
			if call, ok := n.(*ast.CallExpr); ok {
				if sel, ok := ast.Unparen(call.Fun).(*ast.SelectorExpr); ok {
					if id, ok := ast.Unparen(sel.X).(*ast.Ident); ok && c.info.Uses[id] == c.recv {
						if m := c.methods[sel.Sel.Name]; m != nil {
							flds := map[string]bool{}
							c.fieldsReadByMethod(m, 0, flds)
							for f := range flds {
								out["f:"+f] = true
							}
						}
					}
				}
			}
			return true
		})
		return out
	}
	_ = multiSrc
	// wire values: composite literals (struct with json tags, or slice) that flow to json.Marshal
	wireVars := map[types.Object]bool{}
	var wireLits []*ast.CompositeLit
	ast.Inspect(fd.Body, func(n ast.Node) bool {
		call, ok := n.(*ast.CallExpr)
		if !ok {
			return true
		}
		fn := calleeOf(c.info, call)
		if fn == nil || fn.Pkg() == nil || fn.Pkg().Path() != "encoding/json" || fn.Name() != "Marshal" || len(call.Args) != 1 {
			return true
		}
		arg := ast.Unparen(call.Args[0])
		if u, ok := arg.(*ast.UnaryExpr); ok && u.Op == token.AND {
			arg = ast.Unparen(u.X)
		}
		switch a := arg.(type) {
		case *ast.Ident:
			if o := c.info.Uses[a]; o != nil {
				wireVars[o] = true
			}
		case *ast.CompositeLit:
			wireLits = append(wireLits, a)
		}
		return true
	})
	recordLit := func(lit *ast.CompositeLit, ctl map[string]bool, env taintEnv) {
		t := c.info.Types[lit].Type
		if t == nil {
			return
		}
		if sl, _ := structSlots(t); sl != nil {
			h.kind = "keyed"
			byField := map[*types.Var]string{}
			for n, f := range sl {
				h.slotNames[n] = true
				byField[f] = n
			}
			st := t.Underlying().(*types.Struct)
			for i, el := range lit.Elts {
				var f *types.Var
				var val ast.Expr
				if kv, ok := el.(*ast.KeyValueExpr); ok {
					if id, ok := kv.Key.(*ast.Ident); ok {
						f, _ = c.info.Uses[id].(*types.Var)
					}
					val = kv.Value
				} else if i < st.NumFields() {
					f, val = st.Field(i), el
				}
				if f == nil {
					continue
				}
				slot, ok := byField[f]
				if !ok {
					continue
				}
				for l := range c.exprLabels(val, env, src) {
					h.slots.add(slot, strings.TrimPrefix(l, "f:"))
				}
				if tv, ok := c.info.Types[val]; ok && tv.Value != nil || isConstIdent(c.info, val) {
					// constant member under a condition: attribute the condition's fields
					for l := range ctl {
						h.slots.add(slot, strings.TrimPrefix(l, "f:"))
					}
				}
			}
		} else if _, isSlice := t.Underlying().(*types.Slice); isSlice {
			if h.kind == "" {
				h.kind = "positional"
			}
			for i, el := range lit.Elts {
				slot := "#" + strconv.Itoa(i)
				h.slotNames[slot] = true
				for l := range c.exprLabels(el, env, src) {
					h.slots.add(slot, strings.TrimPrefix(l, "f:"))
				}
			}
		}
	}
	// walk with propagation so that local temporaries (set, err := NewOvsSet(b.Enum)) carry labels
	litCtl := map[*ast.CompositeLit]map[string]bool{}
	envFinal := taintEnv{}
	c.propagate(fd.Body, src, func(lhs ast.Expr, labels map[string]bool, pos token.Pos) {
		// assignments to a member of a wire variable: j.Enum = &set
		if sel, ok := ast.Unparen(lhs).(*ast.SelectorExpr); ok {
			if id, ok := ast.Unparen(sel.X).(*ast.Ident); ok && wireVars[c.info.Uses[id]] {
				if f, ok := c.info.Uses[sel.Sel].(*types.Var); ok {
					if sl, _ := structSlots(c.info.Uses[id].Type()); sl != nil {
						for n, ff := range sl {
							if ff == f {
								for l := range labels {
									h.slots.add(n, strings.TrimPrefix(l, "f:"))
								}
							}
						}
					}
				}
			}
		}
		if o := lhsObj(c.info, lhs); o != nil {
			envFinal.addAll(o, labels)
		}
	})
	// composite literals assigned to wire variables or passed directly, with their control context
	var visit func(n ast.Node, ctl map[string]bool)
	visit = func(n ast.Node, ctl map[string]bool) {
		switch s := n.(type) {
		case *ast.IfStmt:
			if s.Init != nil {
				visit(s.Init, ctl)
			}
			inner := map[string]bool{}
			for k := range ctl {
				inner[k] = true
			}
			for l := range multiSrc(s.Cond, envFinal) {
				inner[l] = true
			}
			visit(s.Body, inner)
			if s.Else != nil {
				visit(s.Else, inner)
			}
			return
		case *ast.CompositeLit:
			litCtl[s] = ctl
		}
		ast.Inspect(n, func(m ast.Node) bool {
			if m == n || m == nil {
				return true
			}
			switch m.(type) {
			case *ast.IfStmt, *ast.CompositeLit:
				visit(m, ctl)
				return false
			}
			return true
		})
	}
	visit(fd.Body, map[string]bool{})
	isWireLit := func(lit *ast.CompositeLit) bool {
		for _, w := range wireLits {
			if w == lit {
				return true
			}
		}
		return false
	}
	ast.Inspect(fd.Body, func(n ast.Node) bool {
		switch s := n.(type) {
		case *ast.AssignStmt:
			for i, l := range s.Lhs {
				if i < len(s.Rhs) {
					if o := lhsObj(c.info, l); o != nil && wireVars[o] {
						if lit, ok := ast.Unparen(s.Rhs[i]).(*ast.CompositeLit); ok {
							recordLit(lit, litCtl[lit], envFinal)
						}
					}
				}
			}
		case *ast.ValueSpec:
			for i, nm := range s.Names {
				if i < len(s.Values) && wireVars[c.info.Defs[nm]] {
					if lit, ok := ast.Unparen(s.Values[i]).(*ast.CompositeLit); ok {
						recordLit(lit, litCtl[lit], envFinal)
					}
				}
			}
		case *ast.CompositeLit:
			if isWireLit(s) {
				recordLit(s, litCtl[s], envFinal)
			}
		}
		return true
	})
	return h
}

func isConstIdent(info *types.Info, e ast.Expr) bool {
	if id, ok := ast.Unparen(e).(*ast.Ident); ok {
		_, isC := info.Uses[id].(*types.Const)
		return isC
	}
	return false
}

// ruleK12: keyed and positional codec pairs of package ovsdb.
func ruleK12(p *Program, r *Reporter) {
	const id = "K1"
	pk := p.Pkgs["ovsdb"]
	type pair struct{ enc, dec *ast.FuncDecl }
	pairs := map[string]*pair{}
	for _, f := range pk.Syntax {
		for _, d := range f.Decls {
			fd, ok := d.(*ast.FuncDecl)
			if !ok || fd.Recv == nil || fd.Body == nil {
				continue
			}
			if fd.Name.Name != "MarshalJSON" && fd.Name.Name != "UnmarshalJSON" {
				continue
			}
			c := newCodecCtx(p, pk, fd)
			if c == nil {
				continue
			}
			n := c.recvT.Obj().Name()
			if pairs[n] == nil {
				pairs[n] = &pair{}
			}
			if fd.Name.Name == "MarshalJSON" {
				pairs[n].enc = fd
			} else {
				pairs[n].dec = fd
			}
		}
	}
	for _, n := range sortedKeys(pairs) {
		pr := pairs[n]
		if pr.enc == nil || pr.dec == nil {
			r.Info("%s: %s has only one half of a codec (not a pair)", id, n)
			continue
		}
		ce := newCodecCtx(p, pk, pr.enc)
		cd := newCodecCtx(p, pk, pr.dec)
		eh := ce.analyseEncoder(pr.enc)
		dh := cd.analyseDecoder(pr.dec)
		if eh.kind == "" || dh.kind == "" || eh.kind != dh.kind {
			r.Info("%s: %s codec is generic (encoder %q, decoder %q): values are converted element-wise, no slot table to compare", id, n, eh.kind, dh.kind)
			continue
		}
		rule := "K1"
		if eh.kind == "positional" {
			rule = "K2"
		}
		slots := map[string]bool{}
		for s := range eh.slotNames {
			slots[s] = true
		}
		for s := range dh.slotNames {
			slots[s] = true
		}
		for s := range eh.slots {
			slots[s] = true
		}
		for s := range dh.slots {
			slots[s] = true
		}
		fieldFedBy := map[string][]string{}
		for _, s := range sortedKeys(slots) {
			e, d := eh.slots[s], dh.slots[s]
			fname := n + " codec"
			switch {
			case eh.kind == "keyed" && (!eh.slotNames[s] || !dh.slotNames[s]):
				who := "encoder"
				if !eh.slotNames[s] {
					who = "decoder"
				}
				r.Ob(rule, fname, "member "+s, pr.dec.Pos(), false, true, fmt.Sprintf("wire member %q exists only in the %s's wire struct", s, who))
			case len(e) == 0 && len(d) == 0:
				// constant slot (e.g. the "uuid" tag of position 0)
				r.Ob(rule, fname, "member "+s, pr.enc.Pos(), true, false, "slot carries no receiver field in either direction")
			case len(d) == 0:
				// a slot computed from fields that travel (and are restored) in another slot is a
				// derived discriminator (e.g. the "uuid"/"named-uuid" tag), not lost information
				derived := true
				for f := range e {
					carried := false
					for t, et := range eh.slots {
						if t != s && et[f] && dh.slots[t][f] {
							carried = true
						}
					}
					if !carried {
						derived = false
					}
				}
				if derived {
					r.Ob(rule, fname, "member "+s, pr.enc.Pos(), true, true, fmt.Sprintf("%q is derived from %s, which is carried and restored through another member", s, setStr(e)))
					break
				}
				r.Ob(rule, fname, "member "+s, pr.dec.Pos(), false, true, fmt.Sprintf("encoder writes %s into %q but the decoder never stores that member into the receiver (value lost on decode)", setStr(e), s))
			case len(e) == 0:
				r.Ob(rule, fname, "member "+s, pr.enc.Pos(), false, true, fmt.Sprintf("decoder stores %q into %s but the encoder never emits that member from the receiver (value lost on encode)", s, setStr(d)))
			case setStr(e) != setStr(d):
				// the decoder may additionally fill fields that the encoder reads for no member
				// at all: caches derived from this member (ColumnSchema.Type from "type")
				onlyDerivedExtras := true
				for f := range e {
					if !d[f] {
						onlyDerivedExtras = false
					}
				}
				for f := range d {
					if e[f] {
						continue
					}
					for _, et := range eh.slots {
						if et[f] {
							onlyDerivedExtras = false
						}
					}
				}
				if onlyDerivedExtras {
					r.Ob(rule, fname, "member "+s, pr.enc.Pos(), true, true, fmt.Sprintf("member %q: encoder reads %s, decoder stores %s; the extra fields are read by the encoder for no member (derived from this one)", s, setStr(e), setStr(d)))
					break
				}
				r.Ob(rule, fname, "member "+s, pr.dec.Pos(), false, true, fmt.Sprintf("cross-wired: encoder fills %q from %s, decoder stores it into %s", s, setStr(e), setStr(d)))
			default:
				r.Ob(rule, fname, "member "+s, pr.dec.Pos(), true, true, fmt.Sprintf("%q <-> %s in both directions", s, setStr(e)))
			}
			for f := range d {
				fieldFedBy[f] = append(fieldFedBy[f], s)
			}
		}
		for _, f := range sortedKeys(fieldFedBy) {
			ss := fieldFedBy[f]
			sort.Strings(ss)
			ok := len(ss) == 1
			why := "receiver field fed by exactly one wire member"
			if !ok {
				why = fmt.Sprintf("receiver field %s is fed by several wire members %v: one of them overwrites the other", f, ss)
			}
			r.Ob(rule, n+" codec", "field "+f, pr.dec.Pos(), ok, true, why)
		}
	}
}

// ruleK3: the error-name tables of errorFromResult and ResultFromError are inverse bijections.
func ruleK3(p *Program, r *Reporter) {
	const id = "K3"
	pk := p.Pkgs["ovsdb"]
	fd1, _, e1 := p.funcDecl("ovsdb", "", "errorFromResult")
	fd2, _, e2 := p.funcDecl("ovsdb", "", "ResultFromError")
	if e1 != nil || e2 != nil {
		r.Anchor(id, "ovsdb.errorFromResult / ovsdb.ResultFromError")
		return
	}
	info := pk.TypesInfo
	// table 1: constant -> error type, from `case C: return &T{...}`
	t1 := map[string]string{}
	t1pos := map[string]token.Pos{}
	ast.Inspect(fd1.Body, func(n ast.Node) bool {
		sw, ok := n.(*ast.SwitchStmt)
		if !ok {
			return true
		}
		for _, cc := range sw.Body.List {
			cl := cc.(*ast.CaseClause)
			typ := returnedErrType(info, cl.Body)
			for _, e := range cl.List {
				if tv, ok := info.Types[e]; ok && tv.Value != nil && tv.Value.Kind() == constant.String {
					t1[constant.StringVal(tv.Value)] = typ
					t1pos[constant.StringVal(tv.Value)] = e.Pos()
				}
			}
		}
		return false
	})
	if len(t1) < 5 {
		// the same table written as a package-level map from error name to constructor,
		// indexed inside errorFromResult
		ast.Inspect(fd1.Body, func(n ast.Node) bool {
			ix, ok := n.(*ast.IndexExpr)
			if !ok {
				return true
			}
			id, ok := ast.Unparen(ix.X).(*ast.Ident)
			if !ok {
				return true
			}
			v, ok := info.Uses[id].(*types.Var)
			if !ok || v.Parent() != pk.Types.Scope() {
				return true
			}
			for _, f := range pk.Syntax {
				for _, d := range f.Decls {
					gd, ok := d.(*ast.GenDecl)
					if !ok || gd.Tok != token.VAR {
						continue
					}
					for _, sp := range gd.Specs {
						vs := sp.(*ast.ValueSpec)
						for i, nm := range vs.Names {
							if info.Defs[nm] != v || i >= len(vs.Values) {
								continue
							}
							cl, ok := ast.Unparen(vs.Values[i]).(*ast.CompositeLit)
							if !ok {
								continue
							}
							for _, el := range cl.Elts {
								kv, ok := el.(*ast.KeyValueExpr)
								if !ok {
									continue
								}
								tv, ok := info.Types[kv.Key]
								if !ok || tv.Value == nil || tv.Value.Kind() != constant.String {
									continue
								}
								typ := ""
								switch fv := ast.Unparen(kv.Value).(type) {
								case *ast.FuncLit:
									typ = returnedErrType(info, fv.Body.List)
								case *ast.Ident:
									if fo, ok := info.Uses[fv].(*types.Func); ok {
										if fdecl := p.funcDecls[fo]; fdecl != nil && fdecl.Body != nil {
											typ = returnedErrType(info, fdecl.Body.List)
										}
									}
								}
								t1[constant.StringVal(tv.Value)] = typ
								t1pos[constant.StringVal(tv.Value)] = kv.Key.Pos()
							}
						}
					}
				}
			}
			return true
		})
	}
	// table 2: error type -> constant, from `case *T: return OperationResult{Error: C,...}`
	t2 := map[string]string{}
	t2pos := map[string]token.Pos{}
	ast.Inspect(fd2.Body, func(n ast.Node) bool {
		sw, ok := n.(*ast.TypeSwitchStmt)
		if !ok {
			return true
		}
		for _, cc := range sw.Body.List {
			cl := cc.(*ast.CaseClause)
			cst := returnedErrConst(info, cl.Body)
			for _, e := range cl.List {
				if tv, ok := info.Types[e]; ok && tv.IsType() {
					t2[typeStr(tv.Type)] = cst
					t2pos[typeStr(tv.Type)] = e.Pos()
				}
			}
		}
		return false
	})
	if len(t1) < 5 || len(t2) < 5 {
		r.Anchor(id, fmt.Sprintf("error tables not recognised (%d, %d entries)", len(t1), len(t2)))
		return
	}
	for _, c := range sortedKeys(t1) {
		typ := t1[c]
		back, ok := t2[typ]
		okk := ok && back == c
		why := fmt.Sprintf("%q -> %s -> %q", c, typ, back)
		if !okk {
			why = fmt.Sprintf("error name %q decodes to %s, which encodes back to %q: an error changes kind on a round trip", c, typ, back)
		}
		r.Ob(id, "ovsdb.errorFromResult", "error "+c, t1pos[c], okk, true, why)
	}
	for _, typ := range sortedKeys(t2) {
		c := t2[typ]
		if c == "" {
			continue // generic *Error carries its own name
		}
		back, ok := t1[c]
		okk := ok && back == typ
		why := fmt.Sprintf("%s -> %q -> %s", typ, c, back)
		if !okk {
			why = fmt.Sprintf("%s encodes as %q, which decodes to %s", typ, c, back)
		}
		r.Ob(id, "ovsdb.ResultFromError", "type "+typ, t2pos[typ], okk, true, why)
	}
	// the type errorFromResult falls back to for names it does not know has its own arm in
	// ResultFromError (its default arm flattens name and details into one string)
	defTyp := ""
	var defPos token.Pos
	ast.Inspect(fd1.Body, func(n ast.Node) bool {
		if cl, ok := n.(*ast.CaseClause); ok && cl.List == nil {
			if t := returnedErrType(info, cl.Body); t != "" {
				defTyp, defPos = t, cl.Pos()
			}
		}
		return true
	})
	if defTyp == "" && len(fd1.Body.List) > 0 {
		if ret, ok := fd1.Body.List[len(fd1.Body.List)-1].(*ast.ReturnStmt); ok && len(ret.Results) == 1 {
			if tv, ok := info.Types[ret.Results[0]]; ok {
				defTyp, defPos = typeStr(tv.Type), ret.Pos()
			}
		}
	}
	if defTyp != "" {
		_, has := t2[defTyp]
		r.Ob(id, "ovsdb.ResultFromError", "generic type "+defTyp, defPos, has, true,
			ifs(has, defTyp+" (what unknown error names decode to) has its own arm in ResultFromError", defTyp+" (what unknown error names decode to) has no arm in ResultFromError: its default arm writes \"name: details\" into the error member, so a generic error changes on a round trip"))
	} else {
		r.Anchor(id, "errorFromResult: fallback error type")
	}
	// every constant of the declared group is in table 1
	for _, f := range pk.Syntax {
		for _, d := range f.Decls {
			gd, ok := d.(*ast.GenDecl)
			if !ok || gd.Tok != token.CONST {
				continue
			}
			hit := false
			var group []*types.Const
			for _, sp := range gd.Specs {
				for _, nm := range sp.(*ast.ValueSpec).Names {
					if cst, ok := info.Defs[nm].(*types.Const); ok && cst.Val().Kind() == constant.String {
						group = append(group, cst)
						if _, in := t1[constant.StringVal(cst.Val())]; in {
							hit = true
						}
					}
				}
			}
			if !hit || len(group) < 5 {
				continue
			}
			for _, cst := range group {
				_, in := t1[constant.StringVal(cst.Val())]
				why := "declared error name handled by errorFromResult"
				if !in {
					why = "declared error name " + cst.Name() + " has no case in errorFromResult"
				}
				r.Ob(id, "ovsdb.errorFromResult", "declared "+cst.Name(), cst.Pos(), in, false, why)
			}
		}
	}
}

func returnedErrType(info *types.Info, body []ast.Stmt) string {
	out := ""
	for _, st := range body {
		ast.Inspect(st, func(n ast.Node) bool {
			if ret, ok := n.(*ast.ReturnStmt); ok && len(ret.Results) == 1 {
				if tv, ok := info.Types[ret.Results[0]]; ok {
					out = typeStr(tv.Type)
				}
			}
			return true
		})
	}
	return out
}

func returnedErrConst(info *types.Info, body []ast.Stmt) string {
	out := ""
	for _, st := range body {
		ast.Inspect(st, func(n ast.Node) bool {
			ret, ok := n.(*ast.ReturnStmt)
			if !ok || len(ret.Results) != 1 {
				return true
			}
			lit, ok := ast.Unparen(ret.Results[0]).(*ast.CompositeLit)
			if !ok {
				return true
			}
			for _, el := range lit.Elts {
				if kv, ok := el.(*ast.KeyValueExpr); ok {
					if id, ok := kv.Key.(*ast.Ident); ok && id.Name == "Error" {
						if tv, ok := info.Types[kv.Value]; ok && tv.Value != nil && tv.Value.Kind() == constant.String {
							out = constant.StringVal(tv.Value)
						}
					}
				}
			}
			return true
		})
	}
	return out
}
