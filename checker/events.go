package main

import (
	"fmt"
	"go/constant"
	"go/token"
	"go/types"

	"golang.org/x/tools/go/ssa"
)

// E9 — event emission pairing (cache change log).

func stringConstOf(v ssa.Value) (string, bool) {
	c, ok := v.(*ssa.Const)
	if !ok || c.Value == nil || c.Value.Kind() != constant.String {
		return "", false
	}
	return constant.StringVal(c.Value), true
}

func ruleV(p *Program, r *Reporter) {
	const id = "V1"
	apply := p.Fn("cache", "TableCache", "ApplyCacheUpdate")
	addEv := p.Fn("cache", "eventProcessor", "AddEvent")
	run := p.Fn("cache", "eventProcessor", "Run")
	if apply == nil || addEv == nil || run == nil {
		r.Anchor(id, "cache.(*TableCache).ApplyCacheUpdate / (*eventProcessor).AddEvent / Run")
		return
	}
	consts := map[string]string{} // const name -> value
	for _, n := range []string{"addEvent", "updateEvent", "deleteEvent"} {
		c, ok := p.Pkgs["cache"].Types.Scope().Lookup(n).(*types.Const)
		if !ok || c.Val().Kind() != constant.String {
			r.Anchor(id, "cache."+n)
			return
		}
		consts[n] = constant.StringVal(c.Val())
	}
	wantEvent := map[string]string{"Create": consts["addEvent"], "Update": consts["updateEvent"], "Delete": consts["deleteEvent"]}
	// --- V1: in the update callback each successful mutation is followed by exactly one matching event
	nMut := 0
	for _, fn := range p.Reach(apply) {
		// the function that applies one model update: its two model.Model parameters are (old, new)
		var modelPrms []*ssa.Parameter
		for _, prm := range fn.Params {
			if isNamed(prm.Type(), repoMod+"/model", "Model") {
				modelPrms = append(modelPrms, prm)
			}
		}
		if len(modelPrms) != 2 {
			continue
		}
		oldP, newP := modelPrms[0], modelPrms[1]
		var muts, evs []*ssa.Call
		for _, b := range fn.Blocks {
			for _, ins := range b.Instrs {
				c, ok := ins.(*ssa.Call)
				if !ok {
					continue
				}
				sc := c.Call.StaticCallee()
				if sc == nil {
					continue
				}
				if sc == addEv {
					evs = append(evs, c)
				} else if sc.Signature.Recv() != nil && isNamed(sc.Signature.Recv().Type(), repoMod+"/cache", "RowCache") {
					if _, ok := wantEvent[sc.Name()]; ok {
						muts = append(muts, c)
					}
				}
			}
		}
		claimed := map[*ssa.Call]int{}
		for _, m := range muts {
			nMut++
			name := m.Call.StaticCallee().Name()
			var mine []*ssa.Call
			for _, e := range evs {
				if m.Block().Dominates(e.Block()) && (m.Block() != e.Block() || m.Pos() < e.Pos()) {
					// nearest dominating mutation only
					nearest := true
					for _, m2 := range muts {
						if m2 != m && m.Block().Dominates(m2.Block()) && m2.Block().Dominates(e.Block()) && m2.Block() != m.Block() {
							nearest = false
						}
					}
					if nearest {
						mine = append(mine, e)
					}
				}
			}
			construct := "event after RowCache." + name
			if len(mine) != 1 {
				r.Ob(id, funcName(fn), construct, m.Pos(), false, true,
					fmt.Sprintf("a successful %s must be followed by exactly one AddEvent, found %d: the change log %s", name, len(mine), ifs(len(mine) == 0, "misses this change", "reports it more than once")))
				continue
			}
			e := mine[0]
			claimed[e]++
			// args: recv, eventType, table, old, new
			a := e.Call.Args
			et, _ := stringConstOf(a[1])
			okType := et == wantEvent[name]
			var okArgs bool
			var wantArgs string
			switch name {
			case "Create":
				okArgs = isNilConst(a[3]) && a[4] == ssa.Value(newP)
				wantArgs = "(nil, new)"
			case "Update":
				okArgs = a[3] == ssa.Value(oldP) && a[4] == ssa.Value(newP)
				wantArgs = "(old, new)"
			case "Delete":
				okArgs = a[3] == ssa.Value(oldP) && isNilConst(a[4])
				wantArgs = "(old, nil)"
			}
			checked := errCheckedBefore(m, e)
			ok := okType && okArgs && checked
			why := fmt.Sprintf("%s -> AddEvent(%q, table, %s) on the err == nil continuation only", name, et, wantArgs)
			switch {
			case !okType:
				why = fmt.Sprintf("%s is reported as a %q event (expected %q)", name, et, wantEvent[name])
			case !okArgs:
				why = fmt.Sprintf("the event after %s does not carry %s of this update (models swapped or missing)", name, wantArgs)
			case !checked:
				why = fmt.Sprintf("the event after %s is not guarded by its error check: an event is emitted for a change that was not applied", name)
			}
			r.Ob(id, funcName(fn), construct, e.Pos(), ok, true, why)
		}
		for _, e := range evs {
			if claimed[e] == 0 {
				r.Ob(id, funcName(fn), "stray AddEvent", e.Pos(), false, true, "an event is emitted that does not follow a cache mutation")
			}
		}
	}
	if nMut < 3 {
		r.Anchor(id, fmt.Sprintf("ApplyCacheUpdate callback: %d cache mutations found, expected 3", nMut))
	}
	// --- V2: AddEvent stores its parameters into the event; Run hands the right field to each callback
	evT := p.LookupType("cache", "event")
	if evT == nil || len(addEv.Params) != 5 {
		r.Anchor("V2", "cache.event / AddEvent signature")
		return
	}
	st := evT.Underlying().(*types.Struct)
	fieldIdx := map[string]int{}
	for i := 0; i < st.NumFields(); i++ {
		fieldIdx[st.Field(i).Name()] = i
	}
	wantStore := map[string]*ssa.Parameter{"eventType": addEv.Params[1], "table": addEv.Params[2], "old": addEv.Params[3], "new": addEv.Params[4]}
	gotStore := map[string]ssa.Value{}
	for _, b := range addEv.Blocks {
		for _, ins := range b.Instrs {
			if s, ok := ins.(*ssa.Store); ok {
				if fa, ok := s.Addr.(*ssa.FieldAddr); ok && isNamed(fa.X.Type(), repoMod+"/cache", "event") {
					gotStore[st.Field(fa.Field).Name()] = s.Val
				}
			}
		}
	}
	for _, n := range []string{"eventType", "table", "old", "new"} {
		ok := gotStore[n] == ssa.Value(wantStore[n])
		r.Ob("V2", funcName(addEv), "event."+n, addEv.Pos(), ok, true,
			ifs(ok, "event."+n+" is the "+n+" parameter", "AddEvent stores something other than its "+n+" parameter into event."+n))
	}
	// Run: invoke OnAdd/OnUpdate/OnDelete
	wantCB := map[string][]string{"OnAdd": {"table", "new"}, "OnUpdate": {"table", "old", "new"}, "OnDelete": {"table", "old"}}
	wantCase := map[string]string{"OnAdd": consts["addEvent"], "OnUpdate": consts["updateEvent"], "OnDelete": consts["deleteEvent"]}
	seenCB := map[string]bool{}
	fieldOfLoad := func(v ssa.Value) string {
		if ld, ok := v.(*ssa.UnOp); ok && ld.Op == token.MUL {
			if fa, ok := ld.X.(*ssa.FieldAddr); ok && isNamed(fa.X.Type(), repoMod+"/cache", "event") {
				return st.Field(fa.Field).Name()
			}
		}
		return "?"
	}
	var handlerCalls []*ssa.Call
	var runBlocks []*ssa.BasicBlock
	for _, g := range p.Reach(run) {
		runBlocks = append(runBlocks, g.Blocks...)
	}
	for _, b := range runBlocks {
		for _, ins := range b.Instrs {
			c, ok := ins.(*ssa.Call)
			if !ok || !c.Call.IsInvoke() {
				continue
			}
			want, ok := wantCB[c.Call.Method.Name()]
			if !ok || !isNamed(c.Call.Value.Type(), repoMod+"/cache", "EventHandler") {
				continue
			}
			name := c.Call.Method.Name()
			seenCB[name] = true
			handlerCalls = append(handlerCalls, c)
			okArgs := len(c.Call.Args) == len(want)
			got := []string{}
			for i, a := range c.Call.Args {
				f := fieldOfLoad(a)
				got = append(got, f)
				if i < len(want) && f != want[i] {
					okArgs = false
				}
			}
			// dominated by eventType == <const>
			okCase := false
			for _, f := range factsAt(b) {
				cond, truth := normFact(f)
				bo, isBo := cond.(*ssa.BinOp)
				if !isBo || bo.Op != token.EQL || !truth {
					continue
				}
				for _, pair := range [][2]ssa.Value{{bo.X, bo.Y}, {bo.Y, bo.X}} {
					if s, isS := stringConstOf(pair[1]); isS && s == wantCase[name] && fieldOfLoad(pair[0]) == "eventType" {
						okCase = true
					}
				}
			}
			ok2 := okArgs && okCase
			why := fmt.Sprintf("%s(%v) under case %q", name, want, wantCase[name])
			if !okArgs {
				why = fmt.Sprintf("%s receives event fields %v, expected %v", name, got, want)
			} else if !okCase {
				why = fmt.Sprintf("%s is not dispatched under eventType == %q", name, wantCase[name])
			}
			r.Ob("V2", funcName(c.Parent()), "dispatch "+name, c.Pos(), ok2, true, why)
		}
	}
	for _, n := range []string{"OnAdd", "OnUpdate", "OnDelete"} {
		if !seenCB[n] {
			r.Ob("V2", funcName(run), "dispatch "+n, run.Pos(), false, true, n+" is never called by the event loop")
		}
	}
	// --- V3: one channel, one receiver, drop only on overflow, same sequence for every handler
	evCh := p.Field("cache", "eventProcessor", "events")
	hm := p.Field("cache", "eventProcessor", "handlersMutex")
	if evCh == nil {
		r.Anchor("V3", "eventProcessor.events")
		return
	}
	isEvCh := func(v ssa.Value) bool {
		if ld, ok := v.(*ssa.UnOp); ok {
			if fa, ok := ld.X.(*ssa.FieldAddr); ok {
				return fieldOfAddr(fa) == evCh
			}
		}
		return false
	}
	sends, recvs := 0, 0
	var recvFns []string
	inRunRegion := p.PrivateRegion(run)
	inAddRegion := p.PrivateRegion(addEv)
	for _, fn := range p.srcFuncs {
		if pkgOf(fn) != "cache" {
			continue
		}
		for _, b := range fn.Blocks {
			for _, ins := range b.Instrs {
				switch x := ins.(type) {
				case *ssa.Send:
					if isEvCh(x.Chan) {
						sends++
						r.Ob("V3", funcName(fn), "blocking send on events", x.Pos(), false, true, "a blocking send on the event channel can stall the goroutine applying updates")
					}
				case *ssa.Select:
					for _, stt := range x.States {
						if !isEvCh(stt.Chan) {
							continue
						}
						if stt.Dir == types.SendOnly {
							sends++
							ok := inAddRegion[fn] && !x.Blocking
							r.Ob("V3", funcName(fn), "send on events", x.Pos(), ok, true,
								ifs(ok, "the only producer: non-blocking send, an event is dropped only when the buffer is full", "unexpected producer / blocking send on the event channel"))
						} else {
							recvs++
							recvFns = append(recvFns, funcName(fn))
							ok := inRunRegion[fn]
							r.Ob("V3", funcName(fn), "receive from events", x.Pos(), ok, true,
								ifs(ok, "the only consumer: events are dispatched in channel (FIFO) order by one goroutine", "a second consumer of the event channel splits the change log between goroutines"))
						}
					}
				case *ssa.UnOp:
					if x.Op == token.ARROW && isEvCh(x.X) {
						recvs++
						ok := inRunRegion[fn]
						r.Ob("V3", funcName(fn), "receive from events", x.Pos(), ok, true, ifs(ok, "the only consumer", "a second consumer of the event channel"))
					}
				}
			}
		}
	}
	if sends == 0 || recvs == 0 {
		r.Anchor("V3", fmt.Sprintf("event channel: %d sends, %d receives", sends, recvs))
	}
	_ = hm // the handler list itself is guarded by handlersMutex: that is L2's obligation (guard table)
	var inLoopDeep func(fn *ssa.Function, at ssa.Instruction, depth int) bool
	inLoopDeep = func(fn *ssa.Function, at ssa.Instruction, depth int) bool {
		fc := newFlowCtx(fn)
		if fc.blockReach(at.Block(), at.Block()) {
			return true
		}
		// a per-handler helper: every call site of it is inside a loop
		if depth > 2 || fn.Parent() != nil {
			return false
		}
		// static call sites, and calls through a function value that resolve to it
		// (handlers.each(event.deliver): the bound method is called from each's loop)
		sites := p.CallSitesOf(fn)
		if bw := boundWrappersOf(p, fn); len(bw) > 0 {
			for _, w := range bw {
				sites = append(sites, p.CallSitesOf(w)...)
			}
		}
		if len(sites) == 0 {
			return false
		}
		for _, s := range sites {
			if !inLoopDeep(s.caller, s.instr, depth+1) {
				return false
			}
		}
		return true
	}
	for _, c := range handlerCalls {
		hfn := c.Parent()
		ok := inLoopDeep(hfn, c, 0)
		r.Ob("V3", funcName(hfn), "handlers called under handlersMutex", c.Pos(), ok, true,
			ifs(ok, "the handler is called from a loop over the handler list (directly or through a per-handler helper); the list itself is read under handlersMutex (L2)", "handler invoked outside a loop over the handlers: handlers can see different sequences"))
	}
}
