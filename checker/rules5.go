package main

import (
	"fmt"
	"go/ast"
	"go/constant"
	"go/token"
	"go/types"
	"regexp/syntax"
	"sort"
	"strings"

	"golang.org/x/tools/go/ssa"
)

// ---------------------------------------------------------------------------
// L-ATOM — no stale guarded data across a split critical section.
//
// A value read from a lock-guarded field (guardTable) while the guard is held
// must not be used in a *later* critical section of the same lock in the same
// invocation, i.e. after the lock was released and acquired again: whatever was
// read may have changed in between (check-then-act). Equality comparisons are
// exempt (optimistic re-validation compares the stale value with a fresh one).
//
// Obligations: one per (function, lock class) that has an acquisition reachable
// from a release of the same class, plus one per function/lock with a single
// critical section containing a guarded read and a guarded write (trivially
// atomic) so that the rule is not vacuous on a tree without split sections.

func ruleLATOM(pkgs ...string) func(p *Program, r *Reporter) {
	want := map[string]bool{}
	for _, k := range pkgs {
		want[k] = true
	}
	id := "L-ATOM"
	return func(p *Program, r *Reporter) {
		la := getLockAnalysis(p)
		fields := map[*types.Var]bool{}
		guardOf := map[*types.Var]*types.Var{}
		for _, g := range guardTable {
			f := p.Field(g.pkg, g.typ, g.field)
			lt := g.typ
			if g.lockTyp != "" {
				lt = g.lockTyp
			}
			l := p.Field(g.pkg, lt, g.lockField)
			if f == nil || l == nil {
				if g.optional {
					continue
				}
				r.Anchor(id, fmt.Sprintf("guard table entry %s.%s.%s -> %s", g.pkg, g.typ, g.field, g.lockField))
				continue
			}
			fields[f] = true
			guardOf[f] = l
		}
		nSingle, nSplit := 0, 0
		defer func() {
			r.Info("L-ATOM: %d function/lock pairs with one critical section, %d with several", nSingle, nSplit)
		}()
		byFn := map[*ssa.Function][]access{}
		for _, a := range collectAccesses(p, fields) {
			if a.ctor {
				continue
			}
			byFn[a.fn] = append(byFn[a.fn], a)
		}
		for _, fn := range p.srcFuncs {
			if !want[pkgOf(fn)] || len(byFn[fn]) == 0 {
				continue
			}
			facts := la.facts[fn]
			if facts == nil {
				continue
			}
			// direct (non-deferred) lock operations of fn, including wrapper calls
			ops := map[ssa.Instruction]map[*types.Var]lop{}
			classes := map[*types.Var][2]int{} // acquires, releases
			for _, b := range fn.Blocks {
				for _, ins := range b.Instrs {
					c, ok := ins.(*ssa.Call)
					if !ok {
						continue
					}
					if op, isLock, cls := lockOpOf(c.Common()); isLock {
						if !cls {
							continue
						}
						if ops[ins] == nil {
							ops[ins] = map[*types.Var]lop{}
						}
						ops[ins][op.key.field] = lop{op.acquire}
						n := classes[op.key.field]
						if op.acquire {
							n[0]++
						} else {
							n[1]++
						}
						classes[op.key.field] = n
						continue
					}
					for k, d := range la.calleeSummary(c.Common()) {
						if ops[ins] == nil {
							ops[ins] = map[*types.Var]lop{}
						}
						ops[ins][k.field] = lop{d > 0}
						n := classes[k.field]
						if d > 0 {
							n[0]++
						} else {
							n[1]++
						}
						classes[k.field] = n
					}
				}
			}
			// reads per lock class while the class is held locally
			for lock, n := range classes {
				var reads []access
				nw := 0
				for _, a := range byFn[fn] {
					if guardOf[a.field] != lock {
						continue
					}
					st := facts.before[a.instr]
					held := st.mustHeld(lockKey{lock, 'W'}) || st.mustHeld(lockKey{lock, 'R'})
					if !held {
						continue
					}
					if a.write {
						nw++
					} else {
						reads = append(reads, a)
					}
				}
				if len(reads) == 0 {
					continue
				}
				construct := lockClassName(lock)
				if n[0] < 2 || n[1] < 1 {
					nSingle++
					// one critical section: reads and writes are atomic with respect to the lock
					r.Ob(id, funcName(fn), construct, fn.Pos(), true, nw > 0,
						fmt.Sprintf("single critical section (%d acquisition, %d explicit release): %d guarded reads and %d guarded writes happen under one hold", n[0], n[1], len(reads), nw))
					continue
				}
				nSplit++
				ok := true
				reason := ""
				var pos token.Pos = fn.Pos()
				for _, rd := range reads {
					v, isVal := rd.instr.(ssa.Value)
					if !isVal {
						continue
					}
					derived := forwardDerived(fn, v)
					if use := staleUse(fn, rd.instr, lock, ops2(ops, lock), derived); use != nil {
						ok = false
						pos = use.Pos()
						if !pos.IsValid() {
							pos = rd.instr.Pos()
						}
						reason = fmt.Sprintf("value read from %s at %s under %s is used at %s after the lock was released and acquired again (stale: check-then-act)",
							lockClassName(rd.field), p.Pos(rd.instr.Pos()), construct, p.Pos(pos))
						break
					}
				}
				if ok {
					r.Info("L-ATOM: %s has %d critical sections of %s, no stale use", funcName(fn), n[0], construct)
					reason = fmt.Sprintf("%d critical sections; no value read from a guarded field in one is used in a later one", n[0])
				}
				r.Ob(id, funcName(fn), construct, pos, ok, true, reason)
			}
		}
	}
}

type lop struct{ acquire bool }

func ops2(ops map[ssa.Instruction]map[*types.Var]lop, lock *types.Var) map[ssa.Instruction]bool {
	out := map[ssa.Instruction]bool{}
	for ins, m := range ops {
		if o, ok := m[lock]; ok {
			out[ins] = o.acquire
		}
	}
	return out
}

// forwardDerived: values computed from v (data flow through operands; stores
// and map updates into function-local containers make the container derived).
func forwardDerived(fn *ssa.Function, v ssa.Value) map[ssa.Value]bool {
	d := map[ssa.Value]bool{v: true}
	for changed := true; changed; {
		changed = false
		for _, b := range fn.Blocks {
			for _, ins := range b.Instrs {
				anyOp := false
				for _, op := range ins.Operands(nil) {
					if op != nil && *op != nil && d[*op] {
						anyOp = true
						break
					}
				}
				if !anyOp {
					continue
				}
				switch x := ins.(type) {
				case *ssa.Store:
					if d[x.Val] {
						if base := localBase(x.Addr); base != nil && !d[base] {
							d[base] = true
							changed = true
						}
					}
				case *ssa.MapUpdate:
					if (d[x.Key] || d[x.Value]) && !d[x.Map] {
						if _, isParam := x.Map.(*ssa.Parameter); !isParam {
							d[x.Map] = true
							changed = true
						}
					}
				case ssa.Value:
					if !d[x] {
						d[x] = true
						changed = true
					}
				}
			}
		}
	}
	return d
}

func localBase(v ssa.Value) ssa.Value {
	for {
		switch x := v.(type) {
		case *ssa.Alloc:
			return x
		case *ssa.FieldAddr:
			v = x.X
		case *ssa.IndexAddr:
			v = x.X
		default:
			return nil
		}
	}
}

// staleUse walks forward from the read; phase 0 = same hold, 1 = released,
// 2 = acquired again. Returns an instruction using a derived value in phase 2
// while the lock is held.
func staleUse(fn *ssa.Function, rd ssa.Instruction, lock *types.Var, lockOps map[ssa.Instruction]bool, derived map[ssa.Value]bool) ssa.Instruction {
	type st struct {
		b     *ssa.BasicBlock
		i     int
		phase int
	}
	// locate rd
	var start st
	found := false
	for _, b := range fn.Blocks {
		for i, ins := range b.Instrs {
			if ins == rd {
				start = st{b, i + 1, 0}
				found = true
			}
		}
	}
	if !found {
		return nil
	}
	seen := map[st]bool{}
	work := []st{start}
	for len(work) > 0 {
		s := work[len(work)-1]
		work = work[:len(work)-1]
		if seen[s] {
			continue
		}
		seen[s] = true
		phase := s.phase
		stop := false
		for i := s.i; i < len(s.b.Instrs); i++ {
			ins := s.b.Instrs[i]
			if ins == rd {
				// the read executes again: everything derived from it is recomputed
				stop = true
				break
			}
			if acq, isOp := lockOps[ins]; isOp {
				switch {
				case !acq && phase == 0:
					phase = 1
				case acq && phase == 1:
					phase = 2
				case !acq && phase == 2:
					phase = 3
				case acq && phase == 3:
					phase = 2
				}
				continue
			}
			if phase == 2 {
				if _, isPhi := ins.(*ssa.Phi); isPhi {
					continue
				}
				if isEqCompare(ins) {
					continue
				}
				for _, op := range ins.Operands(nil) {
					if op != nil && *op != nil && derived[*op] {
						if _, isDbg := ins.(*ssa.DebugRef); isDbg {
							continue
						}
						return ins
					}
				}
			}
		}
		if stop {
			continue
		}
		for _, succ := range s.b.Succs {
			work = append(work, st{succ, 0, phase})
		}
	}
	return nil
}

func isEqCompare(ins ssa.Instruction) bool {
	if b, ok := ins.(*ssa.BinOp); ok {
		return b.Op == token.EQL || b.Op == token.NEQ
	}
	return false
}

// ---------------------------------------------------------------------------
// T-DANGLE — the dangling-reference test of processStrongReferences does not
// depend on the root set: membership in the root set only decides whether an
// unreferenced row is garbage collected, never whether a strong reference to a
// nonexistent row is refused. Structural form: no call that performs the test
// (rowExists, NewReferentialIntegrityViolation) is dominated by one arm of a
// branch whose condition is computed from isRoot / TableSchema.IsRoot.

func ruleTDANGLE(p *Program, r *Reporter) {
	const id = "T-DANGLE"
	fn := p.Fn("updates", "referenceTracker", "processStrongReferences")
	if fn == nil {
		r.Anchor(id, "updates.(*referenceTracker).processStrongReferences")
		return
	}
	isRootFn := p.Fn("updates", "", "isRoot")
	isRootField := p.Field("ovsdb", "TableSchema", "IsRoot")
	if isRootFn == nil && isRootField == nil {
		r.Anchor(id, "updates.isRoot / ovsdb.TableSchema.IsRoot")
		return
	}
	region := p.PrivateRegion(fn)
	region[fn] = true
	n := 0
	for g := range region {
		// values computed from the root-set test
		rooty := map[ssa.Value]bool{}
		for _, b := range g.Blocks {
			for _, ins := range b.Instrs {
				switch x := ins.(type) {
				case *ssa.Call:
					if sc := x.Call.StaticCallee(); sc != nil && (sc == isRootFn || sc.Name() == "isRoot" || sc.Name() == "IsRoot") {
						rooty[x] = true
					}
				case *ssa.FieldAddr:
					if isRootField != nil && fieldOfAddr(x) == isRootField {
						rooty[x] = true
					}
				case *ssa.Field:
					if st, ok := x.X.Type().Underlying().(*types.Struct); ok && st.Field(x.Field) == isRootField {
						rooty[x] = true
					}
				}
			}
		}
		for changed := true; changed; {
			changed = false
			for _, b := range g.Blocks {
				for _, ins := range b.Instrs {
					v, ok := ins.(ssa.Value)
					if !ok || rooty[v] {
						continue
					}
					switch ins.(type) {
					case *ssa.UnOp, *ssa.BinOp, *ssa.Phi, *ssa.Extract, *ssa.ChangeType, *ssa.Convert:
						for _, op := range ins.Operands(nil) {
							if op != nil && *op != nil && rooty[*op] {
								rooty[v] = true
								changed = true
								break
							}
						}
					}
				}
			}
		}
		var arms []*ssa.BasicBlock // successors executed only under a root-set condition
		for _, b := range g.Blocks {
			if len(b.Instrs) == 0 {
				continue
			}
			if iff, ok := b.Instrs[len(b.Instrs)-1].(*ssa.If); ok && rooty[iff.Cond] {
				for _, s := range b.Succs {
					if len(s.Preds) == 1 {
						arms = append(arms, s)
					}
				}
			}
		}
		for _, b := range g.Blocks {
			for _, ins := range b.Instrs {
				c, ok := ins.(*ssa.Call)
				if !ok {
					continue
				}
				sc := c.Call.StaticCallee()
				if sc == nil {
					continue
				}
				isTest := sc.Name() == "rowExists" || sc.Name() == "NewReferentialIntegrityViolation"
				if !isTest && pkgOf(sc) == "updates" && len(sc.Blocks) > 0 {
					// a wrapper of the existence test (memoising, logging, ...)
					for _, h := range p.Reach(sc) {
						if h != sc && h.Name() == "rowExists" {
							isTest = true
						}
					}
				}
				if !isTest {
					continue
				}
				n++
				bad := false
				for _, a := range arms {
					if a.Dominates(b) {
						bad = true
					}
				}
				r.Ob(id, funcName(g), sc.Name(), c.Pos(), !bad, true,
					ifs(!bad, "the dangling-reference test does not depend on the root set", "the dangling-reference test only runs on one arm of a branch on root-set membership: strong references to nonexistent rows of some tables are accepted"))
			}
		}
	}
	if n < 2 {
		r.Anchor(id, "processStrongReferences: rowExists / NewReferentialIntegrityViolation calls")
	}
}

// ---------------------------------------------------------------------------
// T-PROBE — the inactivity probe's timeout is armed again on every turn of its
// loop. A select state receiving from a time channel inside the probe loop is
// accepted when the channel is produced by a call evaluated inside the loop
// (time.After: fresh timer per iteration), comes from a Ticker, or comes from a
// Timer that is Reset on every path from the select back to the select.

func ruleTPROBE(p *Program, r *Reporter) {
	const id = "T-PROBE"
	fn := p.Fn("client", "ovsdbClient", "handleInactivityProbes")
	if fn == nil {
		r.Anchor(id, "client.(*ovsdbClient).handleInactivityProbes")
		return
	}
	region := p.PrivateRegion(fn)
	region[fn] = true
	n := 0
	isTimeChan := func(t types.Type) bool {
		ch, ok := t.Underlying().(*types.Chan)
		return ok && isNamed(ch.Elem(), "time", "Time")
	}
	for g := range region {
		if g.Parent() != nil {
			continue // goroutines waiting for one reply are not the probe loop
		}
		for _, b := range g.Blocks {
			for _, ins := range b.Instrs {
				sel, ok := ins.(*ssa.Select)
				if !ok {
					continue
				}
				h := loopHeaderOf(b)
				if h == nil {
					continue
				}
				for _, st := range sel.States {
					if st.Dir != types.RecvOnly || !isTimeChan(st.Chan.Type()) {
						continue
					}
					n++
					ok, why := false, "the timeout channel is neither created inside the loop nor a timer that is reset on every turn"
					switch c := st.Chan.(type) {
					case *ssa.Call:
						if inLoopOf(h, c.Block()) {
							ok, why = true, "timeout channel created by a call evaluated on every turn of the loop"
						}
					case *ssa.UnOp:
						if fa, isFA := c.X.(*ssa.FieldAddr); isFA {
							owner := deref(fa.X.Type())
							switch {
							case isNamed(owner, "time", "Ticker"):
								ok, why = true, "ticker channel (periodic)"
							case isNamed(owner, "time", "Timer"):
								resets := map[*ssa.BasicBlock]bool{}
								for _, b2 := range g.Blocks {
									for _, i2 := range b2.Instrs {
										if c2, isCall := i2.(*ssa.Call); isCall {
											if sc := c2.Call.StaticCallee(); sc != nil && sc.Name() == "Reset" && sc.Pkg != nil && sc.Pkg.Pkg.Path() == "time" && len(c2.Call.Args) > 0 && c2.Call.Args[0] == fa.X {
												resets[b2] = true
											}
										}
									}
								}
								if !pathAvoiding(b, b, resets) {
									ok, why = true, "timer is Reset on every path from the select back to the select"
								} else {
									why = "some path from the select back to the select does not Reset the timer: after it fires once it never fires again and a silent peer goes undetected"
								}
							}
						}
					}
					r.Ob(id, funcName(g), "probe timeout re-armed", sel.Pos(), ok, true, why)
				}
			}
		}
	}
	if n < 1 {
		r.Anchor(id, "handleInactivityProbes: no select on a time channel inside a loop")
	}
}

// pathAvoiding: is there a path of length >= 1 from a successor of `from` to
// `to` that never enters a block of `avoid`?
func pathAvoiding(from, to *ssa.BasicBlock, avoid map[*ssa.BasicBlock]bool) bool {
	seen := map[*ssa.BasicBlock]bool{}
	work := append([]*ssa.BasicBlock{}, from.Succs...)
	for len(work) > 0 {
		b := work[len(work)-1]
		work = work[:len(work)-1]
		if seen[b] || avoid[b] {
			continue
		}
		seen[b] = true
		if b == to {
			return true
		}
		work = append(work, b.Succs...)
	}
	return false
}

// ---------------------------------------------------------------------------
// K-REGEX — a regular expression compiled from a constant in package ovsdb and
// used to decide validity (MatchString) is anchored at both ends; an
// unanchored pattern accepts any string merely *containing* a match.

func ruleKREGEX(p *Program, r *Reporter) {
	const id = "K-REGEX"
	n := 0
	var fns []*ssa.Function
	for _, fn := range p.srcFuncs {
		if pkgOf(fn) == "ovsdb" {
			fns = append(fns, fn)
		}
	}
	if sp := p.SSAPkgs["ovsdb"]; sp != nil {
		if ini := sp.Func("init"); ini != nil {
			fns = append(fns, ini) // package-level variable initialisers
		}
	}
	for _, fn := range fns {
		for _, b := range fn.Blocks {
			for _, ins := range b.Instrs {
				c, ok := ins.(*ssa.Call)
				if !ok {
					continue
				}
				sc := c.Call.StaticCallee()
				if sc == nil || sc.Pkg == nil || sc.Pkg.Pkg.Path() != "regexp" || (sc.Name() != "MustCompile" && sc.Name() != "Compile") || len(c.Call.Args) != 1 {
					continue
				}
				cst, ok := c.Call.Args[0].(*ssa.Const)
				if !ok || cst.Value == nil || cst.Value.Kind() != constant.String {
					continue
				}
				n++
				pat := constant.StringVal(cst.Value)
				re, err := syntax.Parse(pat, syntax.Perl)
				okA, why := false, ""
				if err != nil {
					why = "pattern does not parse: " + err.Error()
				} else {
					re = re.Simplify()
					okA = anchoredBothEnds(re)
					why = ifs(okA, "pattern is anchored at both ends", "pattern "+pat+" is not anchored at both ends: any string containing a match is accepted as valid")
				}
				r.Ob(id, funcName(fn), "regexp anchored", c.Pos(), okA, true, why)
			}
		}
	}
	if n < 1 {
		r.Anchor(id, "package ovsdb: regexp compiled from a constant")
	}
}

func anchoredBothEnds(re *syntax.Regexp) bool {
	switch re.Op {
	case syntax.OpCapture:
		return anchoredBothEnds(re.Sub[0])
	case syntax.OpAlternate:
		for _, s := range re.Sub {
			if !anchoredBothEnds(s) {
				return false
			}
		}
		return len(re.Sub) > 0
	case syntax.OpConcat:
		if len(re.Sub) < 2 {
			return false
		}
		return re.Sub[0].Op == syntax.OpBeginText && re.Sub[len(re.Sub)-1].Op == syntax.OpEndText
	}
	return false
}

// ---------------------------------------------------------------------------
// K-WIRETYPE — the two halves of a hand-written JSON codec declare the same Go
// type for the same wire member. For every named type of package ovsdb with
// both MarshalJSON and UnmarshalJSON, the struct types declared inside the two
// method bodies are compared member by member (json tag); a member declared by
// both halves must have identical types, otherwise one direction accepts or
// produces values the other cannot represent.

func ruleKWIRETYPE(p *Program, r *Reporter) {
	const id = "K-WIRETYPE"
	pk := p.Pkgs["ovsdb"]
	if pk == nil {
		r.Anchor(id, "package ovsdb")
		return
	}
	type half struct {
		members map[string]types.Type
		pos     map[string]token.Pos
	}
	collect := func(fd *ast.FuncDecl) half {
		h := half{map[string]types.Type{}, map[string]token.Pos{}}
		ast.Inspect(fd.Body, func(n ast.Node) bool {
			st, ok := n.(*ast.StructType)
			if !ok {
				return true
			}
			tv, ok := pk.TypesInfo.Types[st]
			if !ok {
				return true
			}
			s, ok := tv.Type.Underlying().(*types.Struct)
			if !ok {
				return true
			}
			for i := 0; i < s.NumFields(); i++ {
				name, keep := jsonTagName(s.Tag(i), s.Field(i).Name())
				if !keep {
					continue
				}
				if _, dup := h.members[name]; !dup {
					h.members[name] = s.Field(i).Type()
					h.pos[name] = s.Field(i).Pos()
				}
			}
			return true
		})
		return h
	}
	halves := map[string]map[string]half{} // type -> method -> half
	for _, f := range pk.Syntax {
		for _, d := range f.Decls {
			fd, ok := d.(*ast.FuncDecl)
			if !ok || fd.Recv == nil || fd.Body == nil || (fd.Name.Name != "MarshalJSON" && fd.Name.Name != "UnmarshalJSON") {
				continue
			}
			obj, _ := pk.TypesInfo.Defs[fd.Name].(*types.Func)
			if obj == nil {
				continue
			}
			sig := obj.Type().(*types.Signature)
			nt, _ := deref(sig.Recv().Type()).(*types.Named)
			if nt == nil {
				continue
			}
			tn := nt.Obj().Name()
			if halves[tn] == nil {
				halves[tn] = map[string]half{}
			}
			halves[tn][fd.Name.Name] = collect(fd)
		}
	}
	n := 0
	for _, tn := range sortedKeys(halves) {
		m, okm := halves[tn]["MarshalJSON"]
		u, oku := halves[tn]["UnmarshalJSON"]
		if !okm || !oku {
			continue
		}
		for _, name := range sortedKeys(m.members) {
			ut, both := u.members[name]
			if !both {
				continue
			}
			if isEmptyInterface(ut) || isEmptyInterface(m.members[name]) {
				// polymorphic member decoded/encoded by hand (enum, max): K1 follows it
				continue
			}
			n++
			same := types.Identical(m.members[name], ut)
			r.Ob(id, "ovsdb."+tn, "member "+name, u.pos[name], same, true,
				ifs(same, "encoder and decoder declare "+types.TypeString(ut, nil)+" for this member",
					fmt.Sprintf("encoder declares %s, decoder declares %s for wire member %q: the decoder accepts (or loses) values the encoder cannot write", types.TypeString(m.members[name], nil), types.TypeString(ut, nil), name)))
		}
	}
	if n < 1 {
		r.Anchor(id, "package ovsdb: codec pairs with struct-typed wire forms")
	}
}

func isEmptyInterface(t types.Type) bool {
	i, ok := t.Underlying().(*types.Interface)
	return ok && i.NumMethods() == 0
}

// ---------------------------------------------------------------------------
// L-RPC — no lock that a notification handler needs is held across a blocking
// RPC. The rpc2 read loop runs the registered handlers inline (blocking mode)
// and is also what delivers RPC replies; a goroutine that waits for a reply
// while holding lock m, with a handler that acquires m exclusively (or m held
// exclusively and a handler acquiring it at all), deadlocks the connection as
// soon as such a notification arrives before the reply.

func ruleLRPC(p *Program, r *Reporter) {
	const id = "L-RPC"
	la := getLockAnalysis(p)
	// 1. locks acquired synchronously by the notification handlers
	type acq struct {
		mode byte
		pos  token.Pos
		fn   *ssa.Function
		via  string
		// boolean fields that are known false where the handler takes the lock (the
		// acquisition is only reached past `if x.flag { ...; return }`)
		whenFalse []*types.Var
	}
	var flagsFalseAt func(b *ssa.BasicBlock, depth int) []*types.Var
	// falseWhenReturnsFalse: the boolean fields known false whenever predicate h returns false
	// (every `return false` of h lies past a test that found the field false)
	falseWhenReturnsFalse := func(h *ssa.Function, depth int) []*types.Var {
		if h == nil || len(h.Blocks) == 0 || depth > 2 || h.Signature.Results().Len() != 1 {
			return nil
		}
		var common map[*types.Var]bool
		for _, hb := range h.Blocks {
			ret, ok := hb.Instrs[len(hb.Instrs)-1].(*ssa.Return)
			if !ok || isRecoverBlock(hb) {
				continue
			}
			k, isC := retValue(ret, 0).(*ssa.Const)
			if !isC || k.Value == nil || k.Value.Kind() != constant.Bool {
				return nil
			}
			if constant.BoolVal(k.Value) {
				continue
			}
			here := map[*types.Var]bool{}
			for _, f := range flagsFalseAt(hb, depth+1) {
				here[f] = true
			}
			if common == nil {
				common = here
			} else {
				for f := range common {
					if !here[f] {
						delete(common, f)
					}
				}
			}
		}
		var out []*types.Var
		for f := range common {
			out = append(out, f)
		}
		return out
	}
	flagsFalseAt = func(b *ssa.BasicBlock, depth int) []*types.Var {
		var out []*types.Var
		for _, f := range conjunctFacts(b) {
			c, truth := normFact(f)
			if truth {
				continue
			}
			if call, isCall := c.(*ssa.Call); isCall {
				if sc := call.Call.StaticCallee(); sc != nil && pkgOf(sc) == "client" {
					out = append(out, falseWhenReturnsFalse(sc, depth)...)
				}
				continue
			}
			ld, ok := c.(*ssa.UnOp)
			if !ok || ld.Op != token.MUL {
				continue
			}
			if fa, ok := ld.X.(*ssa.FieldAddr); ok {
				if fld := fieldOfAddr(fa); fld != nil {
					if bt, isB := fld.Type().Underlying().(*types.Basic); isB && bt.Kind() == types.Bool {
						out = append(out, fld)
					}
				}
			}
		}
		return out
	}
	handlerLocks := map[*types.Var][]acq{}
	regs := rpcRegistrations(p, "client", "Client")
	nh := 0
	for _, reg := range regs {
		if reg.target == nil {
			continue
		}
		root := p.SSAFunc(reg.target)
		if root == nil {
			continue
		}
		nh++
		seen := map[*ssa.Function]bool{root: true}
		work := []*ssa.Function{root}
		for len(work) > 0 {
			g := work[0]
			work = work[1:]
			for _, b := range g.Blocks {
				for _, ins := range b.Instrs {
					var cc *ssa.CallCommon
					switch x := ins.(type) {
					case *ssa.Call:
						cc = x.Common()
					case *ssa.Defer:
						cc = x.Common()
					default:
						continue // goroutines started by a handler do not block the read loop
					}
					if op, isLock, cls := lockOpOf(cc); isLock {
						if cls && op.acquire {
							var wf []*types.Var
							if g == root {
								wf = flagsFalseAt(b, 0)
							}
							handlerLocks[op.key.field] = append(handlerLocks[op.key.field], acq{op.key.mode, ins.Pos(), g, reg.name, wf})
						}
						continue
					}
					var callees []*ssa.Function
					if ci, ok := ins.(ssa.CallInstruction); ok {
						callees = la.calleesOf(ci)
					}
					for _, h := range callees {
						if h != nil && !seen[h] && len(h.Blocks) > 0 && pkgOf(h) == "client" {
							seen[h] = true
							work = append(work, h)
						}
					}
				}
			}
		}
	}
	if nh < 3 {
		r.Anchor(id, fmt.Sprintf("client notification handlers: %d resolved, expected >= 3", nh))
		return
	}
	// 2. blocking RPC sites and the locks that may be held there, callers included
	heldAtSite := func(fn *ssa.Function, at ssa.Instruction, visiting map[*ssa.Function]bool, depth int) []heldLock {
		return la.heldWithCallers(fn, at, visiting, depth)
	}
	n := 0
	for _, fn := range p.srcFuncs {
		if pkgOf(fn) != "client" {
			continue
		}
		for _, b := range fn.Blocks {
			for _, ins := range b.Instrs {
				c, ok := ins.(*ssa.Call)
				if !ok {
					continue
				}
				sc := c.Call.StaticCallee()
				if sc == nil || sc.Pkg == nil || sc.Pkg.Pkg.Path() != "github.com/cenkalti/rpc2" || (sc.Name() != "Call" && sc.Name() != "CallWithContext") {
					continue
				}
				n++
				nbad := 0
				narrowed := ""
				seenK := map[string]bool{}
				for _, h := range heldAtSite(fn, c, map[*ssa.Function]bool{}, 0) {
					for _, a := range handlerLocks[h.k.field] {
						if !(h.k.mode == 'W' || a.mode == 'W') {
							continue
						}
						construct := fmt.Sprintf("%s holding %s needed by handler %s", sc.Name(), h.k, a.via)
						if seenK[construct] {
							continue
						}
						// A flag that is true throughout the call and false wherever the handler takes
						// the lock does NOT discharge this: the handler tests the flag and takes the
						// lock in two steps, so a handler that saw the flag clear just before it was
						// armed still goes on to wait for the lock (tried, refuted by the reproducer:
						// DESIGN.md section 7a). lrpcFlagProtects is kept for the evidence text only.
						if flag := lrpcFlagProtects(p, la, fn, c, h.k.field, a.whenFalse); flag != nil {
							narrowed = flag.Name()
						}
						seenK[construct] = true
						nbad++
						extra := ""
						if narrowed != "" {
							extra = " (the window is narrow: " + narrowed + " is set before the call and the handler only takes the lock when it found it clear - but it tests and locks in two steps)"
						}
						r.Ob(id, funcName(fn), construct, c.Pos(), false, true,
							fmt.Sprintf("%s (%s) is held while waiting for the reply, and the %q notification handler acquires it (%s at %s): a notification that arrives before the reply blocks the read loop, which then never delivers the reply%s", h.k, h.how, a.via, string(a.mode), p.Pos(a.pos), extra))
					}
				}
				if nbad == 0 {
					r.Ob(id, funcName(fn), "blocking "+sc.Name(), c.Pos(), true, true, "no lock held across this blocking RPC is needed exclusively by a notification handler")
				}
			}
		}
	}
	if n < 3 {
		r.Anchor(id, fmt.Sprintf("package client: %d blocking RPC calls, expected >= 3", n))
	}
}

type heldLock struct {
	k   lockKey
	how string
	// loopDeferred: taken in a function that defers its release inside a loop, so
	// that it stays held into the next turn (where it belongs to another object)
	loopDeferred bool
}

// heldWithCallers: the locks that may be held before instruction `at` of fn,
// including those held by any static caller (closures: where they are invoked).
func (la *lockAnalysis) heldWithCallers(fn *ssa.Function, at ssa.Instruction, visiting map[*ssa.Function]bool, depth int) []heldLock {
	var out []heldLock
	f := la.facts[fn]
	if f != nil {
		if st, ok := f.before[at]; ok {
			for k := range st {
				if st.mayHeld(k) {
					out = append(out, heldLock{k, "taken in " + funcName(fn), la.deferredUnlockInLoop(fn, k.field)})
				}
			}
		}
	}
	if depth > 6 || visiting[fn] {
		return out
	}
	visiting[fn] = true
	defer delete(visiting, fn)
	var sites []callSite
	if fn.Parent() != nil {
		sites, _ = la.closureSites(fn)
	} else {
		sites = getCallIndex(la.p).sites[fn]
	}
	for _, s := range sites {
		if _, isGo := s.instr.(*ssa.Go); isGo {
			continue
		}
		for _, h := range la.heldWithCallers(s.caller, s.instr, visiting, depth+1) {
			// a caller's lock that this function released before the site is not held
			if f != nil {
				if st, ok := f.before[at]; ok && st.mayReleased(h.k) && !st.mayHeld(h.k) {
					continue
				}
			}
			out = append(out, heldLock{h.k, h.how + " -> " + funcName(fn), h.loopDeferred})
		}
		// withLock(func(){...}): what the helper holds where it calls the closure
		for _, in := range s.inner {
			for _, h := range la.heldWithCallers(in.caller, in.instr, visiting, depth+1) {
				out = append(out, heldLock{h.k, h.how + " -> " + funcName(fn), h.loopDeferred})
			}
		}
	}
	sort.Slice(out, func(i, j int) bool { return out[i].k.String()+out[i].how < out[j].k.String()+out[j].how })
	return out
}

// syncAcquisitions: lock acquisitions executed synchronously by root (its
// callees in the same package included; goroutines it starts excluded).
type lockAcq struct {
	key lockKey
	pos token.Pos
	fn  *ssa.Function
}

func (la *lockAnalysis) syncAcquisitions(root *ssa.Function) []lockAcq {
	var out []lockAcq
	seen := map[*ssa.Function]bool{root: true}
	work := []*ssa.Function{root}
	for len(work) > 0 {
		g := work[0]
		work = work[1:]
		for _, b := range g.Blocks {
			for _, ins := range b.Instrs {
				var cc *ssa.CallCommon
				switch x := ins.(type) {
				case *ssa.Call:
					cc = x.Common()
				case *ssa.Defer:
					cc = x.Common()
				default:
					continue
				}
				if op, isLock, cls := lockOpOf(cc); isLock {
					if cls && op.acquire {
						out = append(out, lockAcq{op.key, ins.Pos(), g})
					}
					continue
				}
				for _, h := range la.calleesOf(ins.(ssa.CallInstruction)) {
					if h != nil && !seen[h] && len(h.Blocks) > 0 && pkgOf(h) == pkgOf(root) {
						seen[h] = true
						work = append(work, h)
					}
				}
			}
		}
	}
	return out
}

// ---------------------------------------------------------------------------
// L-CHAN — no unconditional send on a channel while holding a lock that the
// channel's only receivers may need exclusively: the receiver parks in Lock(),
// nobody receives, and the sender never releases the lock.

func ruleLCHAN(p *Program, r *Reporter) {
	const id = "L-CHAN"
	la := getLockAnalysis(p)
	chanField := func(v ssa.Value) *types.Var {
		if ld, ok := v.(*ssa.UnOp); ok && ld.Op == token.MUL {
			if fa, ok := ld.X.(*ssa.FieldAddr); ok {
				return fieldOfAddr(fa)
			}
		}
		return nil
	}
	// receivers per channel field
	recv := map[*types.Var][]*ssa.Function{}
	addRecv := func(f *types.Var, fn *ssa.Function) {
		top := fn
		for top.Parent() != nil {
			top = top.Parent()
		}
		for _, g := range recv[f] {
			if g == top {
				return
			}
		}
		recv[f] = append(recv[f], top)
	}
	for _, fn := range p.srcFuncs {
		if pkgOf(fn) != "client" {
			continue
		}
		for _, b := range fn.Blocks {
			for _, ins := range b.Instrs {
				switch x := ins.(type) {
				case *ssa.UnOp:
					if x.Op == token.ARROW {
						if f := chanField(x.X); f != nil {
							addRecv(f, fn)
						}
					}
				case *ssa.Select:
					for _, st := range x.States {
						if st.Dir == types.RecvOnly {
							if f := chanField(st.Chan); f != nil {
								addRecv(f, fn)
							}
						}
					}
				}
			}
		}
	}
	n := 0
	for _, fn := range p.srcFuncs {
		if pkgOf(fn) != "client" {
			continue
		}
		for _, b := range fn.Blocks {
			for _, ins := range b.Instrs {
				snd, ok := ins.(*ssa.Send)
				if !ok {
					continue
				}
				f := chanField(snd.Chan)
				if f == nil {
					continue
				}
				n++
				// the send may be guarded by boolean parameters: callers that pass the
				// constant which disables it do not reach it
				required := map[int]bool{}
				for _, fct := range factsAt(b) {
					c, t := normFact(fct)
					if prm, ok := c.(*ssa.Parameter); ok {
						for i, q := range fn.Params {
							if q == prm {
								required[i] = t
							}
						}
					}
				}
				var held []heldLock
				if f0 := la.facts[fn]; f0 != nil {
					if st, ok := f0.before[snd]; ok {
						for k := range st {
							if st.mayHeld(k) {
								held = append(held, heldLock{k: k, how: "taken in " + funcName(fn)})
							}
						}
					}
				}
				for _, s := range getCallIndex(p).sites[fn] {
					if _, isGo := s.instr.(*ssa.Go); isGo {
						continue
					}
					disabled := false
					if ci, ok := s.instr.(ssa.CallInstruction); ok {
						args := ci.Common().Args
						for i, want := range required {
							if i < len(args) {
								if c, ok := args[i].(*ssa.Const); ok && c.Value != nil && c.Value.Kind() == constant.Bool && constant.BoolVal(c.Value) != want {
									disabled = true
								}
							}
						}
					}
					if disabled {
						continue
					}
					for _, h := range la.heldWithCallers(s.caller, s.instr, map[*ssa.Function]bool{fn: true}, 1) {
						held = append(held, heldLock{k: h.k, how: h.how + " -> " + funcName(fn)})
					}
				}
				bad := ""
				for _, g := range recv[f] {
					for _, a := range la.syncAcquisitions(g) {
						for _, h := range held {
							if h.k.field == a.key.field && (h.k.mode == 'W' || a.key.mode == 'W') {
								bad = fmt.Sprintf("unconditional send on %s while holding %s (%s); its receiver %s may block acquiring %s at %s: then nobody receives and the lock is never released",
									lockClassName(f), h.k, h.how, funcName(g), a.key, p.Pos(a.pos))
							}
						}
					}
				}
				r.Ob(id, funcName(fn), "send on "+lockClassName(f), snd.Pos(), bad == "", true,
					ifs(bad == "", fmt.Sprintf("no lock held at this send is needed exclusively by the %d receiver(s) of the channel", len(recv[f])), bad))
			}
		}
	}
	if n == 0 {
		r.Info("L-CHAN: no unconditional send on a struct-field channel in package client")
	}
}

// ---------------------------------------------------------------------------
// ERR-USE — an error that is tested and found non-nil is not silently dropped:
// in the code executed only when the error is set, the error value is used
// (returned, wrapped, converted into a result, logged, sent, stored) or the
// function returns a value that is not the success value... Structural form:
// on the non-nil edge of `err != nil`, some instruction dominated by that edge
// refers to err, or the edge leads straight to a return.

func discoverErrUse(p *Program, pkgs map[string]bool, report func(fn *ssa.Function, call ssa.Value, iff *ssa.If, used, returns bool)) {
	errT := types.Universe.Lookup("error").Type()
	for _, fn := range p.srcFuncs {
		if !pkgs[pkgOf(fn)] {
			continue
		}
		for _, b := range fn.Blocks {
			if len(b.Instrs) == 0 {
				continue
			}
			iff, ok := b.Instrs[len(b.Instrs)-1].(*ssa.If)
			if !ok {
				continue
			}
			var ev ssa.Value
			var alt ssa.Value // the asserted concrete error, when the test is a type assertion
			var bad *ssa.BasicBlock
			if bo, ok := iff.Cond.(*ssa.BinOp); ok && (bo.Op == token.NEQ || bo.Op == token.EQL) {
				if isNilConst(bo.Y) && types.Identical(bo.X.Type(), errT) {
					ev = bo.X
				} else if isNilConst(bo.X) && types.Identical(bo.Y.Type(), errT) {
					ev = bo.Y
				}
				bad = b.Succs[0]
				if bo.Op == token.EQL {
					bad = b.Succs[1]
				}
			} else if ex, ok := iff.Cond.(*ssa.Extract); ok && ex.Index == 1 {
				// if _, isX := err.(*SomeError); isX { ... }: the error is set on the true edge
				if ta, ok := ex.Tuple.(*ssa.TypeAssert); ok && ta.CommaOk && types.Identical(ta.X.Type(), errT) {
					ev = ta.X
					bad = b.Succs[0]
					if refs := ta.Referrers(); refs != nil {
						for _, rf := range *refs {
							if e0, ok := rf.(*ssa.Extract); ok && e0.Index == 0 {
								alt = e0
							}
						}
					}
				}
			}
			if ev == nil {
				continue
			}
			// only errors that come from a call (directly or as a tuple member)
			switch x := ev.(type) {
			case *ssa.Call:
			case *ssa.Extract:
				if _, isCall := x.Tuple.(*ssa.Call); !isCall {
					continue
				}
			default:
				continue
			}
			used, returns := false, false
			joins := len(bad.Preds) != 1
			for _, d := range fn.Blocks {
				// code executed only on failure; when the failing edge joins other paths at once
				// (`if err == nil { ... }` or `if !changed || err != nil { return err }`) nothing
				// runs only on failure, and the error counts as used if anything downstream reads it
				if joins {
					// downstream of the failing edge, but not by going round a loop through the
					// instruction that produced the error (that would be the next error)
					var defBlock *ssa.BasicBlock
					if di, ok := ev.(ssa.Instruction); ok {
						defBlock = di.Block()
					}
					if d != bad && (d == defBlock || !blockReachesAvoiding(bad, d, defBlock)) {
						continue
					}
					if bad == defBlock {
						continue
					}
				} else if !bad.Dominates(d) {
					continue
				}
				for _, ins := range d.Instrs {
					if _, isRet := ins.(*ssa.Return); isRet && (!joins || d == bad) {
						returns = true
					}
					if _, isDbg := ins.(*ssa.DebugRef); isDbg {
						continue
					}
					if v, isV := ins.(ssa.Value); isV && v == iff.Cond {
						continue // the test itself (reached again on the next turn of a loop)
					}
					if ta, isTA := ins.(*ssa.TypeAssert); isTA && ta.X == ev && alt != nil {
						continue
					}
					for _, op := range ins.Operands(nil) {
						if op != nil && (*op == ev || (alt != nil && *op == alt)) {
							used = true
						}
					}
				}
			}
			if joins && used {
				// the failing edge joins other paths at once and a read of the error lies
				// downstream - but inside a loop the error can still be lost: when some path
				// leads from the failing edge back to the instruction that produced it without
				// passing a read, the next turn overwrites it (only the last element's failure
				// survives). Phi nodes carry the value, they do not read it.
				if di, ok := ev.(ssa.Instruction); ok && di.Block() != bad {
					defBlock := di.Block()
					useBlocks := map[*ssa.BasicBlock]bool{}
					for _, d := range fn.Blocks {
						for _, ins := range d.Instrs {
							if _, isPhi := ins.(*ssa.Phi); isPhi {
								continue
							}
							if _, isDbg := ins.(*ssa.DebugRef); isDbg {
								continue
							}
							if v, isV := ins.(ssa.Value); isV && v == iff.Cond {
								continue
							}
							if d == b {
								continue // the test's own block: its reads precede the failing edge
							}
							for _, op := range ins.Operands(nil) {
								if op != nil && (*op == ev || (alt != nil && *op == alt)) {
									useBlocks[d] = true
								}
							}
						}
					}
					delete(useBlocks, defBlock)
					if !useBlocks[bad] && (bad == defBlock || pathAvoidingFrom(bad, defBlock, useBlocks)) {
						used = false
					}
				}
			}
			report(fn, ev, iff, used, returns)
		}
	}
}

func ruleERRUSE(pkgs ...string) func(p *Program, r *Reporter) {
	want := map[string]bool{}
	for _, k := range pkgs {
		want[k] = true
	}
	return func(p *Program, r *Reporter) {
		const id = "ERR-USE"
		discoverErrUse(p, want, func(fn *ssa.Function, ev ssa.Value, iff *ssa.If, used, returns bool) {
			name := "error"
			switch x := ev.(type) {
			case *ssa.Call:
				if sc := x.Call.StaticCallee(); sc != nil {
					name = sc.Name()
				} else if x.Call.IsInvoke() {
					name = x.Call.Method.Name()
				}
			case *ssa.Extract:
				if c, ok := x.Tuple.(*ssa.Call); ok {
					if sc := c.Call.StaticCallee(); sc != nil {
						name = sc.Name()
					} else if c.Call.IsInvoke() {
						name = c.Call.Method.Name()
					}
				}
			}
			ok := used || returns
			pos := iff.Cond.Pos()
			if ex, isEx := iff.Cond.(*ssa.Extract); isEx && !pos.IsValid() {
				pos = ex.Tuple.Pos()
			}
			r.Ob(id, funcName(fn), "error of "+name, pos, ok, true,
				ifs(ok, "the failing branch uses the error or ends the function", "the error of "+name+" is tested but, when set, neither used nor followed by a return: the failure is dropped and the operation is reported successful"))
		})
	}
}

// ---------------------------------------------------------------------------
// ERR-LOOP — an error produced inside a loop is looked at before the loop goes
// round again: an error value whose only uses are phi nodes (carried to the
// next iteration or out of the loop) is overwritten by the next iteration's
// result, so only the last element's failure survives.

func errLoopSites(p *Program, pkgs map[string]bool, report func(fn *ssa.Function, ev ssa.Value, name string, ok bool)) {
	errT := types.Universe.Lookup("error").Type()
	for _, fn := range p.srcFuncs {
		if !pkgs[pkgOf(fn)] {
			continue
		}
		for _, b := range fn.Blocks {
			if loopHeaderOf(b) == nil {
				continue
			}
			for _, ins := range b.Instrs {
				c, ok := ins.(*ssa.Call)
				if !ok {
					continue
				}
				var evs []ssa.Value
				if types.Identical(c.Type(), errT) {
					evs = append(evs, c)
				} else if tup, ok := c.Type().(*types.Tuple); ok && tup.Len() > 0 && types.Identical(tup.At(tup.Len()-1).Type(), errT) {
					if refs := c.Referrers(); refs != nil {
						for _, r := range *refs {
							if ex, ok := r.(*ssa.Extract); ok && ex.Index == tup.Len()-1 {
								evs = append(evs, ex)
							}
						}
					}
				}
				name := "call"
				if sc := c.Call.StaticCallee(); sc != nil {
					name = sc.Name()
				} else if c.Call.IsInvoke() {
					name = c.Call.Method.Name()
				}
				for _, ev := range evs {
					refs := ev.Referrers()
					if refs == nil {
						continue
					}
					onlyPhi, n := true, 0
					for _, r := range *refs {
						if _, isDbg := r.(*ssa.DebugRef); isDbg {
							continue
						}
						n++
						if _, isPhi := r.(*ssa.Phi); !isPhi {
							onlyPhi = false
						}
					}
					if n == 0 {
						continue // blank / unused result: errcheck's business, not a loop overwrite
					}
					report(fn, ev, name, !onlyPhi)
				}
			}
		}
	}
}

func ruleERRLOOP(pkgs ...string) func(p *Program, r *Reporter) {
	want := map[string]bool{}
	for _, k := range pkgs {
		want[k] = true
	}
	return func(p *Program, r *Reporter) {
		const id = "ERR-LOOP"
		errLoopSites(p, want, func(fn *ssa.Function, ev ssa.Value, name string, ok bool) {
			pos := ev.Pos()
			if ex, isEx := ev.(*ssa.Extract); isEx {
				pos = ex.Tuple.Pos()
			}
			r.Ob(id, funcName(fn), "error of "+name+" inside a loop", pos, ok, true,
				ifs(ok, "the error is examined (tested, returned or passed on) in the iteration that produced it", "the error of "+name+" is only carried to the next iteration / out of the loop: a later successful element overwrites it and the failure is lost"))
		})
	}
}

// ---------------------------------------------------------------------------
// X9 — index entries never share a set object. A uuidset stored into an index
// map (or into the staging maps Create/Update/Delete build first) from inside
// the per-index loop must have been created in that same iteration: the sets
// are later modified in place (addUUIDSet/substractUUIDSet), so one object
// reachable from two index entries lets a change of one index corrupt the other.

func ruleX9(p *Program, r *Reporter) {
	const id = "X9"
	setT := p.LookupType("cache", "uuidset")
	specs := p.Field("cache", "RowCache", "indexSpecs")
	if setT == nil || specs == nil {
		r.Anchor(id, "cache.uuidset / cache.RowCache.indexSpecs")
		return
	}
	trio := p.PrivateRegion(p.Fn("cache", "RowCache", "Create"), p.Fn("cache", "RowCache", "Update"), p.Fn("cache", "RowCache", "Delete"))
	var fns []*ssa.Function
	for g := range trio {
		fns = append(fns, g)
	}
	sort.Slice(fns, func(i, j int) bool { return fns[i].Pos() < fns[j].Pos() })
	n := 0
	for _, g := range fns {
		for _, b := range g.Blocks {
			for _, ins := range b.Instrs {
				mu, ok := ins.(*ssa.MapUpdate)
				if !ok || !types.Identical(mu.Value.Type(), setT) {
					continue
				}
				if !dominatedBySpecLoop(b, specs) {
					continue
				}
				h := loopHeaderOf(b)
				if h == nil {
					continue
				}
				// where does the stored set come from?
				var def ssa.Instruction
				switch v := mu.Value.(type) {
				case *ssa.Call:
					def = v
				case *ssa.MakeMap:
					def = v
				case *ssa.ChangeType:
					if d, ok := v.X.(ssa.Instruction); ok {
						def = d
					}
				default:
					continue // an element read back from a staging map, a parameter: created elsewhere, judged there
				}
				if def == nil {
					continue
				}
				if c, isCall := def.(*ssa.Call); isCall {
					// only constructors count (a call returning a fresh set)
					sc := c.Call.StaticCallee()
					if sc == nil || pkgOf(sc) != "cache" {
						continue
					}
				}
				n++
				// outermost enclosing loop over indexSpecs: the definition must lie inside it
				outer := h
				for x := h; x != nil; x = loopHeaderOf(x.Idom()) {
					if dominatedBySpecLoop(x, specs) || x == h {
						outer = x
					}
					if x.Idom() == nil {
						break
					}
				}
				inside := inLoopOf(outer, def.Block()) || inLoopOf(h, def.Block())
				r.Ob(id, funcName(g), "set stored per index", mu.Pos(), inside, true,
					ifs(inside, "the set stored into the index map is created in the same iteration of the per-index loop", "the same set object is stored for every index of the row (created outside the per-index loop): an in-place update of one index entry empties or changes the entries of the row's other indexes"))
			}
		}
	}
	if n < 2 {
		r.Anchor(id, fmt.Sprintf("Create/Update/Delete: %d stores of a freshly created uuidset inside the per-index loop, expected >= 2", n))
	}
}

// ---------------------------------------------------------------------------
// N-SKIP — the substitution pass of ExpandNamedUUIDs, which is also the only
// place where the table (and the columns named in conditions) of an operation
// are validated, is not skipped for any operation that carries a table:
// insert, select, update, mutate, delete, wait. Decided per operation constant
// by propagating that constant through the comparisons of op.Op in the loop
// body: no path from the body entry to the next iteration avoids the table
// lookup.

func ruleNSKIP(p *Program, r *Reporter) {
	const id = "N-SKIP"
	root := p.Fn("ovsdb", "", "ExpandNamedUUIDs")
	opFld := p.Field("ovsdb", "Operation", "Op")
	if root == nil || opFld == nil {
		r.Anchor(id, "ovsdb.ExpandNamedUUIDs / ovsdb.Operation.Op")
		return
	}
	tableOps := []string{"insert", "select", "update", "mutate", "delete", "wait"}
	isOpLoad := func(v ssa.Value) bool {
		ld, ok := v.(*ssa.UnOp)
		if !ok || ld.Op != token.MUL {
			return false
		}
		fa, ok := ld.X.(*ssa.FieldAddr)
		return ok && fieldOfAddr(fa) == opFld
	}
	n := 0
	for g := range p.PrivateRegion(root) {
		for _, b := range g.Blocks {
			for _, ins := range b.Instrs {
				c, ok := ins.(*ssa.Call)
				if !ok {
					continue
				}
				sc := c.Call.StaticCallee()
				if sc == nil || sc.Name() != "Table" || sc.Signature.Recv() == nil || !isNamed(deref(sc.Signature.Recv().Type()), repoMod+"/ovsdb", "DatabaseSchema") {
					continue
				}
				h := loopHeaderOf(b)
				if h == nil {
					continue
				}
				// the pass as a whole is not bypassed: every successful return of the
				// function comes after the loop (it is dominated by the loop header)
				for _, rb := range g.Blocks {
					ret, isRet := rb.Instrs[len(rb.Instrs)-1].(*ssa.Return)
					if !isRet || len(ret.Results) == 0 {
						continue
					}
					if kc, isC := ret.Results[len(ret.Results)-1].(*ssa.Const); !isC || !kc.IsNil() {
						continue
					}
					n++
					after := h.Dominates(rb)
					r.Ob(id, funcName(g), "successful return after the validation pass", ret.Pos(), after, true,
						ifs(after, "this successful return is only reached through the substitution/validation loop", "ExpandNamedUUIDs can return successfully without running its substitution pass at all: the tables and condition columns of the operations are then never validated and later code dereferences their missing schema"))
				}
				// blocks of the loop that obtain a table schema: the lookup itself, or a
				// read of a memo of earlier lookups (a map whose values are table schemas)
				obtain := map[*ssa.BasicBlock]bool{b: true}
				for _, lb := range g.Blocks {
					if !inLoopOf(h, lb) {
						continue
					}
					for _, li := range lb.Instrs {
						if lk, isLk := li.(*ssa.Lookup); isLk {
							if mt, isM := lk.X.Type().Underlying().(*types.Map); isM && isNamed(mt.Elem(), repoMod+"/ovsdb", "TableSchema") {
								obtain[lb] = true
							}
						}
					}
				}
				for _, opv := range tableOps {
					n++
					skipped := false
					for _, s := range h.Succs {
						if !inLoopOf(h, s) || s == h {
							continue
						}
						if enumPathAvoidingSet(s, h, obtain, isOpLoad, opv) {
							skipped = true
						}
					}
					r.Ob(id, funcName(g), "table of "+opv+" validated", c.Pos(), !skipped, true,
						ifs(!skipped, "every "+opv+" operation reaches the table lookup of the substitution pass", "a "+opv+" operation can go round the loop without the table lookup and the substitution: its table and condition columns are never validated (later code dereferences their schema) and the names it uses stay unresolved"))
				}
			}
		}
	}
	if n < 6 {
		r.Anchor(id, "ExpandNamedUUIDs: schema.Table lookup inside the substitution loop")
	}
}

// enumPathAvoiding: with the scrutinee fixed to the string val, is there a path
// from block `from` to block `to` that never enters `avoid`? Branches on
// scrutinee ==/!= "const" are decided; all others are taken both ways.
func enumPathAvoiding(from, to, avoid *ssa.BasicBlock, isScrutinee func(ssa.Value) bool, val string) bool {
	seen := map[*ssa.BasicBlock]bool{}
	work := []*ssa.BasicBlock{from}
	for len(work) > 0 {
		b := work[len(work)-1]
		work = work[:len(work)-1]
		if seen[b] || b == avoid {
			continue
		}
		seen[b] = true
		if b == to {
			return true
		}
		succs := b.Succs
		if len(b.Instrs) > 0 {
			if iff, ok := b.Instrs[len(b.Instrs)-1].(*ssa.If); ok && len(b.Succs) == 2 {
				if bo, ok := iff.Cond.(*ssa.BinOp); ok && (bo.Op == token.EQL || bo.Op == token.NEQ) {
					var cst *ssa.Const
					if isScrutinee(bo.X) {
						cst, _ = bo.Y.(*ssa.Const)
					} else if isScrutinee(bo.Y) {
						cst, _ = bo.X.(*ssa.Const)
					}
					if cst != nil && cst.Value != nil && cst.Value.Kind() == constant.String {
						eq := constant.StringVal(cst.Value) == val
						if bo.Op == token.NEQ {
							eq = !eq
						}
						if eq {
							succs = b.Succs[:1]
						} else {
							succs = b.Succs[1:]
						}
					}
				}
			}
		}
		work = append(work, succs...)
	}
	return false
}

// ---------------------------------------------------------------------------
// R-LEADER — the leadership verdict is taken from the _Server.Database row of
// the client's own database: inside the loop over the rows, every successful
// return is dominated by the edge on which the row's name equals primaryDBName.

func ruleRLEADER(p *Program, r *Reporter) {
	const id = "R-LEADER"
	fn := p.Fn("client", "ovsdbClient", "isEndpointLeader")
	nameFld := p.Field("client", "ovsdbClient", "primaryDBName")
	if fn == nil || nameFld == nil {
		r.Anchor(id, "client.(*ovsdbClient).isEndpointLeader / primaryDBName")
		return
	}
	region := p.PrivateRegion(fn)
	ci := getCallIndex(p)
	isFieldLoad := func(v ssa.Value) bool {
		ld, ok := v.(*ssa.UnOp)
		if !ok {
			return false
		}
		fa, ok := ld.X.(*ssa.FieldAddr)
		return ok && fieldOfAddr(fa) == nameFld
	}
	// a value that stands for the client's database name in g: the field itself, or a
	// parameter of a private helper that receives it at every call site
	nameBound := func(g *ssa.Function, v ssa.Value) bool {
		if isFieldLoad(v) {
			return true
		}
		prm, ok := v.(*ssa.Parameter)
		if !ok || g == fn {
			return false
		}
		idx := -1
		for i, q := range g.Params {
			if q == prm {
				idx = i
			}
		}
		sites := ci.sites[g]
		if idx < 0 || len(sites) == 0 {
			return false
		}
		for _, s := range sites {
			c, ok := s.instr.(ssa.CallInstruction)
			if !ok || idx >= len(c.Common().Args) || !isFieldLoad(c.Common().Args[idx]) {
				return false
			}
		}
		return true
	}
	// the name comparison of g and its "equal" edge
	nameCompare := func(g *ssa.Function) (cmp, eq *ssa.BasicBlock) {
		for _, b := range g.Blocks {
			if len(b.Instrs) == 0 {
				continue
			}
			iff, ok := b.Instrs[len(b.Instrs)-1].(*ssa.If)
			if !ok {
				continue
			}
			bo, ok := iff.Cond.(*ssa.BinOp)
			if !ok || (bo.Op != token.EQL && bo.Op != token.NEQ) {
				continue
			}
			if !nameBound(g, bo.X) && !nameBound(g, bo.Y) {
				continue
			}
			cmp, eq = b, b.Succs[0]
			if bo.Op == token.NEQ {
				eq = b.Succs[1]
			}
		}
		return
	}
	isZeroConst := func(v ssa.Value) bool {
		c, ok := v.(*ssa.Const)
		if !ok {
			return false
		}
		if c.Value == nil {
			return true
		}
		switch c.Value.Kind() {
		case constant.Bool:
			return !constant.BoolVal(c.Value)
		case constant.String:
			return constant.StringVal(c.Value) == ""
		case constant.Int:
			return constant.Sign(c.Value) == 0
		}
		return false
	}
	successReturn := func(b *ssa.BasicBlock) *ssa.Return {
		ret, ok := b.Instrs[len(b.Instrs)-1].(*ssa.Return)
		if !ok || len(ret.Results) == 0 {
			return nil
		}
		if c, isC := ret.Results[len(ret.Results)-1].(*ssa.Const); !isC || !c.IsNil() {
			return nil
		}
		return ret
	}
	n := 0
	// helpers that contain the comparison: anything they return on a path that has not
	// established "this is our row" must be the zero verdict
	helperWithCompare := map[*ssa.Function]bool{}
	for g := range region {
		if g == fn || g.Parent() != nil {
			continue
		}
		cmp, eq := nameCompare(g)
		if cmp == nil {
			continue
		}
		helperWithCompare[g] = true
		for _, b := range g.Blocks {
			ret, ok := b.Instrs[len(b.Instrs)-1].(*ssa.Return)
			if !ok {
				continue
			}
			n++
			established := len(eq.Preds) == 1 && eq.Dominates(b)
			zero := true
			for i, v := range ret.Results {
				if i == len(ret.Results)-1 {
					continue // the error
				}
				if !isZeroConst(v) {
					zero = false
				}
			}
			ok2 := established || zero
			r.Ob(id, funcName(g), "verdict from our database's row", ret.Pos(), ok2, true,
				ifs(ok2, "a verdict other than the zero value is only returned once the row was found to be the client's database", "the helper returns a leadership verdict for a row that was not checked to be the client's own database: the _Server row of another database (e.g. _Server itself, not clustered) makes a follower look like the leader"))
		}
	}
	// the loop over the rows in isEndpointLeader (or a private helper that holds it)
	for g := range region {
		if g.Parent() != nil || helperWithCompare[g] {
			continue
		}
		cmp, eq := nameCompare(g)
		// branches on the result of a helper that holds the comparison
		var helperBranches []*ssa.BasicBlock
		for _, b := range g.Blocks {
			if len(b.Instrs) == 0 {
				continue
			}
			iff, ok := b.Instrs[len(b.Instrs)-1].(*ssa.If)
			if !ok {
				continue
			}
			for _, b2 := range g.Blocks {
				for _, ins := range b2.Instrs {
					c, ok := ins.(*ssa.Call)
					if !ok || !helperWithCompare[c.Call.StaticCallee()] {
						continue
					}
					if forwardDerived(g, c)[iff.Cond] {
						helperBranches = append(helperBranches, b)
					}
				}
			}
		}
		var h *ssa.BasicBlock
		if cmp != nil {
			h = loopHeaderOf(cmp)
		} else if len(helperBranches) > 0 {
			h = loopHeaderOf(helperBranches[0])
		}
		if h == nil {
			continue
		}
		for _, b := range g.Blocks {
			ret := successReturn(b)
			if ret == nil || !loopBodyReturn(h, b) {
				continue
			}
			n++
			ok2 := false
			if cmp != nil && len(eq.Preds) == 1 && eq.Dominates(b) {
				ok2 = true
			}
			for _, hb := range helperBranches {
				// the return lies on one arm of a branch on the helper's answer; which arm is
				// the helper's business (checked above): every arm that reaches the return
				// without the branch would bypass the answer
				if hb.Dominates(b) && hb != b {
					ok2 = true
				}
			}
			r.Ob(id, funcName(g), "verdict from our database's row", ret.Pos(), ok2, true,
				ifs(ok2, "this verdict is only reached for the row whose name is the client's database", "a leadership verdict is returned for a row that was not checked to be the client's own database: the _Server row of another database (e.g. _Server itself, not clustered) makes a follower look like the leader"))
		}
	}
	if n < 2 {
		r.Anchor(id, fmt.Sprintf("isEndpointLeader: %d per-row verdict returns, expected >= 2", n))
	}
}

// loopBodyReturn: the return block is reached from the loop body without
// passing through the loop header again (i.e. it is an exit taken from inside
// an iteration, not the code after the loop's normal end).
func loopBodyReturn(h, ret *ssa.BasicBlock) bool {
	for _, s := range h.Succs {
		if inLoopOf(h, s) && s != h {
			if blockReachesAvoiding(s, ret, h) {
				return true
			}
		}
	}
	return false
}

func blockReachesAvoiding(from, to, avoid *ssa.BasicBlock) bool {
	seen := map[*ssa.BasicBlock]bool{}
	work := []*ssa.BasicBlock{from}
	for len(work) > 0 {
		b := work[len(work)-1]
		work = work[:len(work)-1]
		if seen[b] || b == avoid {
			continue
		}
		seen[b] = true
		if b == to {
			return true
		}
		work = append(work, b.Succs...)
	}
	return false
}

// ---------------------------------------------------------------------------
// T-COMMIT — a commit that fails while applying its rows leaves the reference
// index alone: in inMemoryDatabase.Commit the reference index is only updated
// on the path where ApplyCacheUpdate returned nil.

func ruleTCOMMIT(p *Program, r *Reporter) {
	const id = "T-COMMIT"
	fn := p.Fn("database/inmemory", "inMemoryDatabase", "Commit")
	if fn == nil {
		r.Anchor(id, "inmemory.(*inMemoryDatabase).Commit")
		return
	}
	region := p.PrivateRegion(fn)
	reaches := func(g *ssa.Function, name string) bool {
		for _, h := range p.Reach(g) {
			for _, b := range h.Blocks {
				for _, ins := range b.Instrs {
					if c, ok := ins.(*ssa.Call); ok {
						if sc := c.Call.StaticCallee(); sc != nil && sc.Name() == name {
							return true
						}
					}
				}
			}
		}
		return false
	}
	n := 0
	for g := range region {
		if g.Parent() != nil {
			continue
		}
		// events in g: "rows applied" and "references updated", directly or through a
		// private helper / a closure handed to a callee
		var applies, refs []*ssa.Call
		for _, b := range g.Blocks {
			for _, ins := range b.Instrs {
				c, ok := ins.(*ssa.Call)
				if !ok {
					continue
				}
				name := ""
				var callee *ssa.Function
				if sc := c.Call.StaticCallee(); sc != nil {
					name, callee = sc.Name(), sc
				} else if c.Call.IsInvoke() {
					name = c.Call.Method.Name()
				}
				switch {
				case name == "ApplyCacheUpdate":
					applies = append(applies, c)
				case name == "UpdateReferences":
					refs = append(refs, c)
				default:
					if callee != nil && region[callee] && callee != g {
						if reaches(callee, "ApplyCacheUpdate") {
							applies = append(applies, c)
						}
						if reaches(callee, "UpdateReferences") {
							refs = append(refs, c)
						}
					}
					for _, a := range c.Call.Args {
						if mc, ok := a.(*ssa.MakeClosure); ok {
							if cf, ok := mc.Fn.(*ssa.Function); ok && reaches(cf, "UpdateReferences") {
								refs = append(refs, c)
							}
						}
					}
				}
			}
		}
		if len(applies) == 0 {
			continue
		}
		for _, rc := range refs {
			n++
			ok := false
			for _, apply := range applies {
				if apply != rc && apply.Block().Dominates(rc.Block()) && errorStops(apply, rc.Block()) {
					ok = true
				}
			}
			r.Ob(id, funcName(g), "reference index after rows", rc.Pos(), ok, true,
				ifs(ok, "the reference index is updated only after the rows were applied successfully", "the reference index is updated although ApplyCacheUpdate may not have run or may have failed: a commit that fails half way leaves references to rows that were never stored, and later garbage-collection decisions depend on that history"))
		}
	}
	if n < 1 {
		r.Anchor(id, "Commit: ApplyCacheUpdate followed by an update of the reference index")
	}
}

// ---------------------------------------------------------------------------
// K-FRESH — a decoder never builds its result in storage the destination
// already had: for every slice- or map-typed field of the receiver that an
// UnmarshalJSON of package ovsdb writes, a store of a newly made container
// dominates every other access of that field in the method. (Values copied
// out of the destination earlier share its backing array.)

func ruleKFRESH(p *Program, r *Reporter) {
	const id = "K-FRESH"
	n := 0
	for _, fn := range p.srcFuncs {
		if pkgOf(fn) != "ovsdb" || fn.Name() != "UnmarshalJSON" || fn.Signature.Recv() == nil || len(fn.Params) == 0 {
			continue
		}
		recv := fn.Params[0]
		isFieldLoad := func(v ssa.Value, f *types.Var) bool {
			ld, ok := v.(*ssa.UnOp)
			if !ok || ld.Op != token.MUL {
				return false
			}
			fa, ok := ld.X.(*ssa.FieldAddr)
			return ok && fa.X == ssa.Value(recv) && fieldOfAddr(fa) == f
		}
		var derives func(v ssa.Value, f *types.Var, depth int) bool
		derives = func(v ssa.Value, f *types.Var, depth int) bool {
			if depth > 8 {
				return false
			}
			if isFieldLoad(v, f) {
				return true
			}
			switch x := v.(type) {
			case *ssa.Slice:
				return derives(x.X, f, depth+1)
			case *ssa.ChangeType:
				return derives(x.X, f, depth+1)
			case *ssa.Phi:
				for _, e := range x.Edges {
					if derives(e, f, depth+1) {
						return true
					}
				}
			case *ssa.Call:
				if bi, ok := x.Call.Value.(*ssa.Builtin); ok && bi.Name() == "append" && len(x.Call.Args) > 0 {
					return derives(x.Call.Args[0], f, depth+1)
				}
			}
			return false
		}
		type acc struct {
			ins   ssa.Instruction
			store bool
			fresh bool
		}
		byField := map[*types.Var][]acc{}
		for _, b := range fn.Blocks {
			for _, ins := range b.Instrs {
				fa, ok := ins.(*ssa.FieldAddr)
				if !ok || fa.X != ssa.Value(recv) {
					continue
				}
				f := fieldOfAddr(fa)
				if f == nil {
					continue
				}
				switch f.Type().Underlying().(type) {
				case *types.Slice, *types.Map:
				default:
					continue
				}
				refs := fa.Referrers()
				if refs == nil {
					continue
				}
				for _, ref := range *refs {
					switch u := ref.(type) {
					case *ssa.Store:
						if u.Addr == ssa.Value(fa) {
							byField[f] = append(byField[f], acc{u, true, !derives(u.Val, f, 0)})
						}
					case *ssa.UnOp:
						byField[f] = append(byField[f], acc{u, false, false})
					}
				}
			}
		}
		// a receiver that is itself a pointer to a map or slice (type Row map[...]): *r is the container
		if pt, ok := recv.Type().Underlying().(*types.Pointer); ok {
			switch pt.Elem().Underlying().(type) {
			case *types.Map, *types.Slice:
				var accs []acc
				wrote := false
				if refs := recv.Referrers(); refs != nil {
					for _, ref := range *refs {
						switch u := ref.(type) {
						case *ssa.Store:
							if u.Addr == ssa.Value(recv) {
								fresh := false
								switch v := u.Val.(type) {
								case *ssa.MakeMap, *ssa.MakeSlice:
									fresh = true
								case *ssa.Const:
									fresh = v.IsNil()
								case *ssa.ChangeType:
									switch v.X.(type) {
									case *ssa.MakeMap, *ssa.MakeSlice:
										fresh = true
									}
								}
								accs = append(accs, acc{u, true, fresh})
								wrote = true
							}
						case *ssa.UnOp:
							if u.Op == token.MUL {
								accs = append(accs, acc{u, false, false})
							}
						}
					}
				}
				if wrote {
					n++
					ok := true
					var pos token.Pos = fn.Pos()
					for _, o := range accs {
						if o.store && o.fresh {
							continue
						}
						covered := false
						for _, a := range accs {
							if a.store && a.fresh && a.ins != o.ins && a.ins.Block().Dominates(o.ins.Block()) && (a.ins.Block() != o.ins.Block() || instrBefore(a.ins, o.ins)) {
								covered = true
							}
						}
						if !covered {
							ok = false
							pos = o.ins.Pos()
						}
					}
					r.Ob(id, funcName(fn), "receiver container rebuilt from scratch", pos, ok, true,
						ifs(ok, "every read of the destination container follows a store of a newly made one", "the decoder reads the destination's existing container before storing a new one: columns decoded earlier into the same variable survive into this value"))
				}
			}
		}
		var fields []*types.Var
		for f, as := range byField {
			for _, a := range as {
				if a.store {
					fields = append(fields, f)
					break
				}
			}
		}
		sort.Slice(fields, func(i, j int) bool { return fields[i].Name() < fields[j].Name() })
		for _, f := range fields {
			n++
			ok := true
			var pos token.Pos = fn.Pos()
			for _, o := range byField[f] {
				if o.store && o.fresh {
					continue
				}
				// a read of the field, or a store built from its old content: some store of a
				// value that owes nothing to the old content must come first on every path
				covered := false
				for _, a := range byField[f] {
					if a.store && a.fresh && a.ins != o.ins && a.ins.Block().Dominates(o.ins.Block()) && (a.ins.Block() != o.ins.Block() || instrBefore(a.ins, o.ins)) {
						covered = true
					}
				}
				if !covered {
					ok = false
					pos = o.ins.Pos()
				}
			}
			r.Ob(id, funcName(fn), "field "+f.Name()+" rebuilt from scratch", pos, ok, true,
				ifs(ok, "every read of the field follows a store of a value that owes nothing to the destination's old content", "the decoder reads or re-slices the destination's existing "+f.Name()+" before storing a new container: values decoded earlier into the same variable share the backing array and change after the fact"))
		}
	}
	if n < 2 {
		r.Anchor(id, fmt.Sprintf("package ovsdb: %d container fields written by UnmarshalJSON methods, expected >= 2", n))
	}
}

func instrBefore(a, b ssa.Instruction) bool {
	if a.Block() != b.Block() {
		return false
	}
	for _, ins := range a.Block().Instrs {
		if ins == a {
			return true
		}
		if ins == b {
			return false
		}
	}
	return false
}

// ---------------------------------------------------------------------------
// P-OPT — whether an optional value is set is decided by the pointer alone:
// in the notation/binding code no zero-test (reflect.Value.IsZero, or a
// comparison of Len/Int/Float/String/Bool with the zero constant feeding an
// "is default / is unset" verdict) is applied to the pointee obtained with
// Elem(). An optional that points at 0, "", false is a set optional.
// Structural form checked: the receiver of every (reflect.Value).IsZero call in
// packages ovsdb and mapper does not derive from (reflect.Value).Elem.

func rulePOPT(p *Program, r *Reporter) {
	const id = "P-OPT"
	n := 0
	isReflectMethod := func(c *ssa.Call, name string) bool {
		sc := c.Call.StaticCallee()
		return sc != nil && sc.Name() == name && sc.Pkg != nil && sc.Pkg.Pkg.Path() == "reflect" && sc.Signature.Recv() != nil
	}
	var fromElem func(v ssa.Value, depth int, seen map[ssa.Value]bool) bool
	fromElem = func(v ssa.Value, depth int, seen map[ssa.Value]bool) bool {
		if depth > 8 || seen[v] {
			return false
		}
		seen[v] = true
		switch x := v.(type) {
		case *ssa.Call:
			if isReflectMethod(x, "Elem") {
				return true
			}
			if isReflectMethod(x, "Indirect") {
				return true
			}
			if sc := x.Call.StaticCallee(); sc != nil && sc.Pkg != nil && sc.Pkg.Pkg.Path() == "reflect" && sc.Name() == "Indirect" {
				return true
			}
		case *ssa.Phi:
			for _, e := range x.Edges {
				if fromElem(e, depth+1, seen) {
					return true
				}
			}
		case *ssa.UnOp:
			// load of a local cell: any store into it
			if al, ok := x.X.(*ssa.Alloc); ok {
				if refs := al.Referrers(); refs != nil {
					for _, rf := range *refs {
						if st, ok := rf.(*ssa.Store); ok && st.Addr == ssa.Value(al) && fromElem(st.Val, depth+1, seen) {
							return true
						}
					}
				}
			}
		}
		return false
	}
	for _, fn := range p.srcFuncs {
		if pk := pkgOf(fn); pk != "ovsdb" && pk != "mapper" {
			continue
		}
		for _, b := range fn.Blocks {
			for _, ins := range b.Instrs {
				c, ok := ins.(*ssa.Call)
				if !ok || !isReflectMethod(c, "IsZero") || len(c.Call.Args) == 0 {
					continue
				}
				n++
				bad := fromElem(c.Call.Args[0], 0, map[ssa.Value]bool{})
				r.Ob(id, funcName(fn), "IsZero receiver", c.Pos(), !bad, true,
					ifs(!bad, "IsZero is applied to the value itself (for a pointer: a nil test), not to a pointee", "IsZero is applied to the pointee of an optional (a value obtained with Elem): an optional that is set to the zero value of its type (0, \"\", false) is treated as unset and disappears from the encoded row"))
			}
		}
	}
	if n == 0 {
		r.Info("P-OPT: no reflect.Value.IsZero call in packages ovsdb/mapper (nothing to decide)")
	}
}

// ---------------------------------------------------------------------------
// MAP-EQ — two maps are never compared entry by entry through a single-value
// lookup: inside `for k, v := range m1`, `m2[k] == v` (or !=) also holds for
// a key that m2 does not have when v is the zero value. Obligation per
// single-value map lookup keyed by the key of a range over another map whose
// result is compared with that range's value.

func ruleMAPEQ(p *Program, r *Reporter) {
	const id = "MAP-EQ"
	n, nAll := 0, 0
	for _, fn := range p.srcFuncs {
		for _, b := range fn.Blocks {
			for _, ins := range b.Instrs {
				lk, ok := ins.(*ssa.Lookup)
				if !ok || lk.CommaOk {
					continue
				}
				if _, isMap := lk.X.Type().Underlying().(*types.Map); !isMap {
					continue
				}
				// key and compared value come from one Next of a range over a different map
				kx, ok := lk.Index.(*ssa.Extract)
				if !ok || kx.Index != 1 {
					continue
				}
				nx, ok := kx.Tuple.(*ssa.Next)
				if !ok || nx.IsString {
					continue
				}
				rg, ok := nx.Iter.(*ssa.Range)
				if !ok || rg.X == lk.X {
					continue
				}
				nAll++
				refs := lk.Referrers()
				if refs == nil {
					continue
				}
				bad := false
				for _, rf := range *refs {
					bo, ok := rf.(*ssa.BinOp)
					if !ok || (bo.Op != token.EQL && bo.Op != token.NEQ) {
						continue
					}
					other := bo.X
					if other == ssa.Value(lk) {
						other = bo.Y
					}
					// strip interface wrapping
					if mi, ok := other.(*ssa.MakeInterface); ok {
						other = mi.X
					}
					if vx, ok := other.(*ssa.Extract); ok && vx.Index == 2 && vx.Tuple == kx.Tuple {
						bad = true
					}
				}
				if !bad {
					continue
				}
				n++
				r.Ob(id, funcName(fn), "entrywise map comparison", lk.Pos(), false, true,
					"the entries of one map are compared with single-value lookups in another: a key the other map lacks reads as the zero value and matches a zero-valued entry, so maps with different key sets compare equal / yield an empty difference")
			}
		}
	}
	r.Ob(id, "all packages", "single-value lookups keyed by another map's range", token.NoPos, true, nAll > 0,
		fmt.Sprintf("%d such lookups examined, %d compared with the ranged value", nAll, n))
}

// ---------------------------------------------------------------------------
// P-NIL-REFLECT — converting a wire value to its native form never calls a
// method on reflect.TypeOf(x) unless x is known to be non-nil: a JSON null
// decodes to a nil interface, reflect.TypeOf(nil) is the nil Type, and a
// method call on it is a nil dereference that takes the server down.
// Scope: the OvsToNative* functions of package ovsdb and what they reach.

func rulePNILREFLECT(p *Program, r *Reporter) {
	const id = "P-NIL-REFLECT"
	var roots []*ssa.Function
	for _, fn := range p.srcFuncs {
		if pkgOf(fn) == "ovsdb" && fn.Parent() == nil && strings.HasPrefix(fn.Name(), "OvsToNative") {
			roots = append(roots, fn)
		}
	}
	if len(roots) < 2 {
		r.Anchor(id, "ovsdb.OvsToNative* functions")
		return
	}
	n := 0
	for _, g := range p.Reach(roots...) {
		fc := newFlowCtx(g)
		for _, b := range g.Blocks {
			for _, ins := range b.Instrs {
				c, ok := ins.(*ssa.Call)
				if !ok || !c.Call.IsInvoke() {
					continue
				}
				tc, ok := c.Call.Value.(*ssa.Call)
				if !ok {
					continue
				}
				sc := tc.Call.StaticCallee()
				if sc == nil || sc.Pkg == nil || sc.Pkg.Pkg.Path() != "reflect" || sc.Name() != "TypeOf" || len(tc.Call.Args) != 1 {
					continue
				}
				arg := tc.Call.Args[0]
				n++
				ok2, why := false, ""
				if mi, isMI := arg.(*ssa.MakeInterface); isMI {
					if _, isIface := mi.X.Type().Underlying().(*types.Interface); !isIface {
						ok2, why = true, "argument is a concrete value"
					}
				}
				if !ok2 {
					ok2, why = fc.nonNilAt(arg, c)
				}
				if !ok2 {
					why = "reflect.TypeOf(x)." + c.Call.Method.Name() + " with x possibly nil (a JSON null decodes to nil): nil Type dereference, the transact handler panics and the server dies"
				}
				r.Ob(id, funcName(g), "method on reflect.TypeOf", c.Pos(), ok2, true, why)
			}
		}
	}
	if n == 0 {
		r.Info("P-NIL-REFLECT: no method call on reflect.TypeOf(x) in the wire-to-native conversion")
	}
}

// ---------------------------------------------------------------------------
// T-UUIDFREE — an insert is only turned into an update after the database (and
// the rows the transaction already created) were asked whether the uuid is in
// use. Nothing downstream notices a clash before Commit, which applies rows one
// by one and stops half way. Structural form: in Transaction.Insert the call
// that builds the update is dominated by a branch whose condition derives from
// an existence lookup (Database.Get, RowCache.HasRow/Row) keyed by the
// operation's UUID member, and the other arm of that branch cannot reach it.

func ruleTUUIDFREE(p *Program, r *Reporter) {
	const id = "T-UUIDFREE"
	fn := p.Fn("database/transaction", "Transaction", "Insert")
	uuidFld := p.Field("ovsdb", "Operation", "UUID")
	if fn == nil || uuidFld == nil {
		r.Anchor(id, "transaction.(*Transaction).Insert / ovsdb.Operation.UUID")
		return
	}
	isUUIDLoad := func(v ssa.Value) bool {
		ld, ok := v.(*ssa.UnOp)
		if !ok {
			return false
		}
		fa, ok := ld.X.(*ssa.FieldAddr)
		return ok && fieldOfAddr(fa) == uuidFld
	}
	n := 0
	for g := range p.PrivateRegion(fn) {
		var lookups []*ssa.Call
		var builds []*ssa.Call
		for _, b := range g.Blocks {
			for _, ins := range b.Instrs {
				c, ok := ins.(*ssa.Call)
				if !ok {
					continue
				}
				name := ""
				if sc := c.Call.StaticCallee(); sc != nil {
					name = sc.Name()
				} else if c.Call.IsInvoke() {
					name = c.Call.Method.Name()
				}
				switch name {
				case "AddOperation":
					builds = append(builds, c)
				case "Get", "HasRow", "Row":
					for _, a := range c.Call.Args {
						if isUUIDLoad(a) {
							lookups = append(lookups, c)
						}
					}
				default:
					// a private helper that performs the lookup on the uuid it is handed
					h := c.Call.StaticCallee()
					if h == nil || pkgOf(h) != pkgOf(g) || len(h.Blocks) == 0 {
						break
					}
					for i, a := range c.Call.Args {
						if !isUUIDLoad(a) || i >= len(h.Params) {
							continue
						}
						prm := h.Params[i]
						for _, hb := range h.Blocks {
							for _, hi := range hb.Instrs {
								hc, ok := hi.(*ssa.Call)
								if !ok {
									continue
								}
								hn := ""
								if sc := hc.Call.StaticCallee(); sc != nil {
									hn = sc.Name()
								} else if hc.Call.IsInvoke() {
									hn = hc.Call.Method.Name()
								}
								if hn != "Get" && hn != "HasRow" && hn != "Row" {
									continue
								}
								for _, ha := range hc.Call.Args {
									if ha == ssa.Value(prm) {
										lookups = append(lookups, c)
									}
								}
							}
						}
					}
				}
			}
		}
		for _, bc := range builds {
			n++
			ok := false
			for _, lc := range lookups {
				derived := forwardDerived(g, lc)
				for _, b := range g.Blocks {
					iff, isIf := b.Instrs[len(b.Instrs)-1].(*ssa.If)
					if !isIf || !derived[iff.Cond] || !b.Dominates(bc.Block()) {
						continue
					}
					for _, s := range b.Succs {
						if !blockReaches(s, bc.Block()) {
							ok = true
						}
					}
				}
			}
			r.Ob(id, funcName(g), "uuid checked to be free", bc.Pos(), ok, true,
				ifs(ok, "the update is only built after an existence lookup keyed by the operation's uuid let it through", "the insert is turned into an update without asking whether its uuid is already in use: an insert carrying the uuid of an existing row passes validation, monitors are notified, and Commit fails half way leaving part of the transaction in the database"))
		}
	}
	// exemptions: a branch that lets the insert skip the database lookup on the strength
	// of a map the transaction keeps (rows it deleted) must be keyed by the table as
	// well as the uuid - uuids are unique per table only, and the lookup it replaces is
	// (table, uuid)
	tableFld := p.Field("ovsdb", "Operation", "Table")
	var fromTable func(v ssa.Value, depth int) bool
	fromTable = func(v ssa.Value, depth int) bool {
		if v == nil || depth > 4 || tableFld == nil {
			return false
		}
		switch x := v.(type) {
		case *ssa.UnOp:
			if fa, ok := x.X.(*ssa.FieldAddr); ok && fieldOfAddr(fa) == tableFld {
				return true
			}
			return fromTable(x.X, depth+1)
		case *ssa.BinOp:
			return fromTable(x.X, depth+1) || fromTable(x.Y, depth+1)
		case *ssa.Convert:
			return fromTable(x.X, depth+1)
		case *ssa.ChangeType:
			return fromTable(x.X, depth+1)
		case *ssa.MakeInterface:
			return fromTable(x.X, depth+1)
		case *ssa.Alloc:
			// a composite key built in place: any store of the table into it
			if refs := x.Referrers(); refs != nil {
				for _, ref := range *refs {
					switch u := ref.(type) {
					case *ssa.Store:
						if fromTable(u.Val, depth+1) {
							return true
						}
					case *ssa.FieldAddr, *ssa.IndexAddr:
						if rr := u.(ssa.Value).Referrers(); rr != nil {
							for _, r2 := range *rr {
								if st, ok := r2.(*ssa.Store); ok && fromTable(st.Val, depth+1) {
									return true
								}
							}
						}
					}
				}
			}
		}
		return false
	}
	var keyedByTable func(lk *ssa.Lookup, depth int) bool
	keyedByTable = func(lk *ssa.Lookup, depth int) bool {
		if depth > 3 {
			return false
		}
		if fromTable(lk.Index, 0) {
			return true
		}
		inner := lk.X
		if ex, ok := inner.(*ssa.Extract); ok {
			inner = ex.Tuple
		}
		if l2, ok := inner.(*ssa.Lookup); ok {
			return keyedByTable(l2, depth+1)
		}
		return false
	}
	var lookupsOf func(v ssa.Value, depth int, out *[]*ssa.Lookup)
	lookupsOf = func(v ssa.Value, depth int, out *[]*ssa.Lookup) {
		if v == nil || depth > 6 {
			return
		}
		switch x := v.(type) {
		case *ssa.Lookup:
			if _, isMap := x.X.Type().Underlying().(*types.Map); isMap {
				*out = append(*out, x)
			}
		case *ssa.Extract:
			lookupsOf(x.Tuple, depth+1, out)
		case *ssa.BinOp:
			lookupsOf(x.X, depth+1, out)
			lookupsOf(x.Y, depth+1, out)
		case *ssa.UnOp:
			lookupsOf(x.X, depth+1, out)
		case *ssa.Phi:
			for _, e := range x.Edges {
				lookupsOf(e, depth+1, out)
			}
		}
	}
	for _, g := range sortedFuncs(p.PrivateRegion(fn)) {
		for _, b := range g.Blocks {
			for _, ins := range b.Instrs {
				c, ok := ins.(*ssa.Call)
				if !ok || !c.Call.IsInvoke() || c.Call.Method.Name() != "Get" {
					continue
				}
				keyed := false
				for _, a := range c.Call.Args {
					if isUUIDLoad(a) {
						keyed = true
					}
				}
				if !keyed {
					continue
				}
				for d := b; d != nil; d = d.Idom() {
					iff, isIf := d.Instrs[len(d.Instrs)-1].(*ssa.If)
					if !isIf {
						continue
					}
					skips := false
					for _, s := range d.Succs {
						if s != b && !blockReaches(s, b) {
							skips = true
						}
					}
					if !skips {
						continue
					}
					var lks []*ssa.Lookup
					lookupsOf(iff.Cond, 0, &lks)
					// the condition may be a phi of short-circuit arms: look at the arms' tests too
					for _, pr := range d.Preds {
						if pif, ok := pr.Instrs[len(pr.Instrs)-1].(*ssa.If); ok {
							lookupsOf(pif.Cond, 0, &lks)
						}
					}
					for _, lk := range lks {
						okT := keyedByTable(lk, 0)
						r.Ob(id, funcName(g), "exemption from the lookup keyed by table and uuid", lk.Pos(), okT, true,
							ifs(okT, "the map that lets an insert skip the database lookup is keyed by the table as well as the uuid", "the insert skips the database lookup because a map keyed by the uuid alone says the row was deleted: a row of another table with the same uuid was deleted, the row of this table still exists, the clash is only noticed by Commit, half way"))
					}
				}
			}
		}
	}
	if n < 1 {
		r.Anchor(id, "Transaction.Insert: call building the update (AddOperation)")
	}
}

// lrpcFlagProtects: one of the boolean fields under whose falsity the handler
// takes lock L is provably true for the whole duration of RPC call c in fn:
//   - a store of the constant true to the flag dominates c in fn, and no store of
//     another value (in fn, or in a function called from fn) can come between,
//   - every store of another value to the flag, anywhere in the package, happens
//     with L held exclusively (by the function or all its callers) - and L is
//     held across c, so nobody else can clear the flag meanwhile.
func lrpcFlagProtects(p *Program, la *lockAnalysis, fn *ssa.Function, c *ssa.Call, lock *types.Var, flags []*types.Var) *types.Var {
	isTrue := func(v ssa.Value) bool {
		k, ok := v.(*ssa.Const)
		return ok && k.Value != nil && k.Value.Kind() == constant.Bool && constant.BoolVal(k.Value)
	}
	for _, flag := range flags {
		// stores to the flag, per function
		type st struct {
			fn   *ssa.Function
			ins  *ssa.Store
			true bool
		}
		var stores []st
		clears := map[*ssa.Function]bool{}
		for _, g := range p.srcFuncs {
			if pkgOf(g) != pkgOf(fn) {
				continue
			}
			for _, b := range g.Blocks {
				for _, ins := range b.Instrs {
					s, ok := ins.(*ssa.Store)
					if !ok {
						continue
					}
					fa, ok := s.Addr.(*ssa.FieldAddr)
					if !ok || fieldOfAddr(fa) != flag || baseIsLocalAlloc(fa.X) {
						continue
					}
					stores = append(stores, st{g, s, isTrue(s.Val)})
					if !isTrue(s.Val) {
						clears[g] = true
					}
				}
			}
		}
		// functions that may clear the flag, transitively through static calls
		for changed := true; changed; {
			changed = false
			for _, g := range p.srcFuncs {
				if clears[g] || pkgOf(g) != pkgOf(fn) {
					continue
				}
				for _, b := range g.Blocks {
					for _, ins := range b.Instrs {
						if ci, ok := ins.(*ssa.Call); ok {
							if sc := ci.Call.StaticCallee(); sc != nil && clears[sc] {
								clears[g] = true
								changed = true
							}
						}
					}
				}
			}
		}
		armed := flagArmedAt(p, fn, c, flag)
		if !armed {
			continue
		}
		allUnderLock := true
		for _, s := range stores {
			if s.true {
				continue
			}
			if ok, _ := la.heldAt(s.fn, s.ins, lock, true, map[*ssa.Function]bool{}, 0); !ok {
				allUnderLock = false
			}
		}
		if allUnderLock {
			return flag
		}
	}
	return nil
}

// flagArmedAt: a store of the constant true to boolean field flag dominates
// call c in fn, and no store of another value to it - in fn, or in a function of
// the package that fn calls - can execute between that store and c.
func flagArmedAt(p *Program, fn *ssa.Function, c *ssa.Call, flag *types.Var) bool {
	isTrue := func(v ssa.Value) bool {
		k, ok := v.(*ssa.Const)
		return ok && k.Value != nil && k.Value.Kind() == constant.Bool && constant.BoolVal(k.Value)
	}
	clears := map[*ssa.Function]bool{}
	var arming []ssa.Instruction
	setsTrue := map[*ssa.Function]bool{}
	for _, g := range p.srcFuncs {
		if pkgOf(g) != pkgOf(fn) {
			continue
		}
		for _, b := range g.Blocks {
			for _, ins := range b.Instrs {
				s, ok := ins.(*ssa.Store)
				if !ok {
					continue
				}
				fa, ok := s.Addr.(*ssa.FieldAddr)
				if !ok || fieldOfAddr(fa) != flag || baseIsLocalAlloc(fa.X) {
					continue
				}
				if !isTrue(s.Val) {
					clears[g] = true
				} else {
					setsTrue[g] = true
					if g == fn {
						arming = append(arming, s)
					}
				}
			}
		}
	}
	// a helper that sets the flag (and never clears it) arms it where it is called
	for _, b := range fn.Blocks {
		for _, ins := range b.Instrs {
			if ci, ok := ins.(*ssa.Call); ok {
				if sc := ci.Call.StaticCallee(); sc != nil && sc != fn && setsTrue[sc] && !clears[sc] && sc.Parent() == nil && straightLine(sc) {
					arming = append(arming, ci)
				}
			}
		}
	}
	for changed := true; changed; {
		changed = false
		for _, g := range p.srcFuncs {
			if clears[g] || pkgOf(g) != pkgOf(fn) {
				continue
			}
			for _, b := range g.Blocks {
				for _, ins := range b.Instrs {
					if ci, ok := ins.(*ssa.Call); ok {
						if sc := ci.Call.StaticCallee(); sc != nil && clears[sc] {
							clears[g] = true
							changed = true
						}
					}
				}
			}
		}
	}
	fc := newFlowCtx(fn)
	for _, s := range arming {
		if s == ssa.Instruction(c) {
			continue
		}
		if !(s.Block() == c.Block() && fc.instrIdx[s] < fc.instrIdx[c] || s.Block() != c.Block() && s.Block().Dominates(c.Block())) {
			continue
		}
		clean := true
		for _, b := range fn.Blocks {
			for _, ins := range b.Instrs {
				clearing := false
				if w, ok := ins.(*ssa.Store); ok {
					if fa, ok := w.Addr.(*ssa.FieldAddr); ok && fieldOfAddr(fa) == flag && !isTrue(w.Val) {
						clearing = true
					}
				}
				if ci, ok := ins.(*ssa.Call); ok && ci != c {
					if sc := ci.Call.StaticCallee(); sc != nil && clears[sc] && sc != fn {
						clearing = true
					}
				}
				if !clearing {
					continue
				}
				if ins.Block() == c.Block() {
					if fc.instrIdx[ins] < fc.instrIdx[c] && fc.canFollow(s, ins) {
						clean = false
					}
				} else if fc.canFollow(s, ins) && fc.canFollow(ins, c) {
					clean = false
				}
			}
		}
		if clean {
			return true
		}
	}
	return false
}

// ---------------------------------------------------------------------------
// DEFER-ARM — notifications that overtake the reply to a monitor request are
// buffered: every monitor RPC in (*ovsdbClient).monitor is made with
// deferUpdates armed (a dominating store of true, nothing in between that
// clears it). Without it the notifications for an additional monitor are
// applied to a cache that does not hold its initial contents yet.

func ruleDEFERARM(p *Program, r *Reporter) {
	const id = "DEFER-ARM"
	mon := p.Fn("client", "ovsdbClient", "monitor")
	flag := p.Field("client", "database", "deferUpdates")
	if mon == nil || flag == nil {
		r.Anchor(id, "client.(*ovsdbClient).monitor / database.deferUpdates")
		return
	}
	n := 0
	for _, b := range mon.Blocks {
		for _, ins := range b.Instrs {
			c, ok := ins.(*ssa.Call)
			if !ok {
				continue
			}
			sc := c.Call.StaticCallee()
			if sc == nil || sc.Pkg == nil || sc.Pkg.Pkg.Path() != "github.com/cenkalti/rpc2" || (sc.Name() != "Call" && sc.Name() != "CallWithContext") {
				continue
			}
			n++
			armed := flagArmedAt(p, mon, c, flag)
			r.Ob(id, funcName(mon), "monitor request sent with deferral armed", c.Pos(), armed, true,
				ifs(armed, "deferUpdates is set before the request and nothing clears it until the reply has been applied", "the monitor request is sent without deferUpdates being set first: for an additional monitor on a connection (the flag was cleared when the first one was populated) a notification that overtakes the reply is applied to a cache that does not hold the initial contents yet - the change is refused or lost, and the older snapshot then stays"))
		}
	}
	if n < 1 {
		r.Anchor(id, "monitor(): blocking monitor RPC")
	}
}

// ---------------------------------------------------------------------------
// DEFER-DISARM — monitor() does not leave the deferral armed behind a failure:
// from the store that arms deferUpdates, every path to a return passes a call
// that clears it (applyDeferredUpdates directly or through a helper/closure)
// or re-enters monitor() (the method fallback) - except on paths on which a
// reconnect is in progress (the parameter is true: a failed reconnect is
// retried with the deferral re-armed) or the connection is gone
// (err == rpc2.ErrShutdown: the disconnect handler takes over).

func ruleDEFERDISARM(p *Program, r *Reporter) {
	const id = "DEFER-DISARM"
	mon := p.Fn("client", "ovsdbClient", "monitor")
	flag := p.Field("client", "database", "deferUpdates")
	if mon == nil || flag == nil {
		r.Anchor(id, "client.(*ovsdbClient).monitor / database.deferUpdates")
		return
	}
	isTrue := func(v ssa.Value) bool {
		k, ok := v.(*ssa.Const)
		return ok && k.Value != nil && k.Value.Kind() == constant.Bool && constant.BoolVal(k.Value)
	}
	// functions of the package that may clear the flag (transitively)
	clears := map[*ssa.Function]bool{}
	for _, g := range p.srcFuncs {
		if pkgOf(g) != "client" {
			continue
		}
		for _, b := range g.Blocks {
			for _, ins := range b.Instrs {
				if s, ok := ins.(*ssa.Store); ok {
					if fa, ok := s.Addr.(*ssa.FieldAddr); ok && fieldOfAddr(fa) == flag && !isTrue(s.Val) && !baseIsLocalAlloc(fa.X) {
						clears[g] = true
					}
				}
			}
		}
	}
	for changed := true; changed; {
		changed = false
		for _, g := range p.srcFuncs {
			if clears[g] || pkgOf(g) != "client" || g == mon {
				continue
			}
			for _, b := range g.Blocks {
				for _, ins := range b.Instrs {
					if ci, ok := ins.(ssa.CallInstruction); ok {
						fns, _ := p.Callees(ci)
						for _, f := range fns {
							if clears[f] {
								clears[g] = true
								changed = true
							}
						}
					}
				}
			}
		}
	}
	var reconn *ssa.Parameter
	for _, prm := range mon.Params {
		if prm.Name() == "reconnecting" {
			reconn = prm
		}
	}
	refsShutdown := func(v ssa.Value) bool {
		if mi, ok := v.(*ssa.MakeInterface); ok {
			v = mi.X
		}
		if ld, ok := v.(*ssa.UnOp); ok {
			if g, ok := ld.X.(*ssa.Global); ok && g.Name() == "ErrShutdown" {
				return true
			}
		}
		return false
	}
	var callTestsShutdown func(c *ssa.Call, depth int) bool
	callTestsShutdown = func(c *ssa.Call, depth int) bool {
		for _, a := range c.Call.Args {
			if refsShutdown(a) {
				return true
			}
		}
		sc := c.Call.StaticCallee()
		if sc == nil || depth > 2 || pkgOf(sc) != "client" {
			return false
		}
		if bt, ok := sc.Signature.Results().At(0).Type().Underlying().(*types.Basic); sc.Signature.Results().Len() != 1 || !ok || bt.Kind() != types.Bool {
			return false
		}
		for _, b := range sc.Blocks {
			for _, ins := range b.Instrs {
				switch x := ins.(type) {
				case *ssa.Call:
					if callTestsShutdown(x, depth+1) {
						return true
					}
				case *ssa.BinOp:
					if x.Op == token.EQL && (refsShutdown(x.X) || refsShutdown(x.Y)) {
						return true
					}
				}
			}
		}
		return false
	}
	isShutdownTest := func(c ssa.Value) bool {
		if call, ok := c.(*ssa.Call); ok {
			return callTestsShutdown(call, 0)
		}
		bo, ok := c.(*ssa.BinOp)
		if !ok || bo.Op != token.EQL {
			return false
		}
		for _, side := range []ssa.Value{bo.X, bo.Y} {
			v := side
			if mi, ok := v.(*ssa.MakeInterface); ok {
				v = mi.X
			}
			if ld, ok := v.(*ssa.UnOp); ok {
				if g, ok := ld.X.(*ssa.Global); ok && g.Name() == "ErrShutdown" {
					return true
				}
			}
		}
		return false
	}
	// helpers that set the flag unconditionally and never clear it
	armsHelper := map[*ssa.Function]bool{}
	for _, g := range p.srcFuncs {
		if pkgOf(g) != "client" || g.Parent() != nil || clears[g] || !straightLine(g) {
			continue
		}
		for _, b := range g.Blocks {
			for _, ins := range b.Instrs {
				if s, ok := ins.(*ssa.Store); ok {
					if fa, ok := s.Addr.(*ssa.FieldAddr); ok && fieldOfAddr(fa) == flag && isTrue(s.Val) && !baseIsLocalAlloc(fa.X) {
						armsHelper[g] = true
					}
				}
			}
		}
	}
	n := 0
	for _, b := range mon.Blocks {
		for i, ins := range b.Instrs {
			var s ssa.Instruction
			switch x := ins.(type) {
			case *ssa.Store:
				if fa, ok := x.Addr.(*ssa.FieldAddr); ok && fieldOfAddr(fa) == flag && isTrue(x.Val) {
					s = x
				}
			case *ssa.Call:
				if sc := x.Call.StaticCallee(); sc != nil && armsHelper[sc] {
					s = x
				}
			}
			if s == nil {
				continue
			}
			n++
			// search for a return reachable without a clearing event
			type item struct {
				b    *ssa.BasicBlock
				from int
			}
			seen := map[*ssa.BasicBlock]bool{}
			work := []item{{b, i + 1}}
			var leak *ssa.Return
			for len(work) > 0 && leak == nil {
				it := work[len(work)-1]
				work = work[:len(work)-1]
				if it.from == 0 {
					if seen[it.b] {
						continue
					}
					seen[it.b] = true
				}
				cleared := false
				for _, x := range it.b.Instrs[it.from:] {
					if ci, ok := x.(ssa.CallInstruction); ok {
						if _, isGo := x.(*ssa.Go); !isGo {
							fns, _ := p.Callees(ci)
							for _, f := range fns {
								if clears[f] || f == mon {
									cleared = true
								}
							}
						}
					}
					if st, ok := x.(*ssa.Store); ok {
						if fa2, ok := st.Addr.(*ssa.FieldAddr); ok && fieldOfAddr(fa2) == flag && !isTrue(st.Val) {
							cleared = true
						}
					}
					if cleared {
						break
					}
					if ret, ok := x.(*ssa.Return); ok {
						leak = ret
					}
				}
				if cleared || leak != nil {
					continue
				}
				succs := it.b.Succs
				if iff, ok := it.b.Instrs[len(it.b.Instrs)-1].(*ssa.If); ok && len(succs) == 2 {
					c, truth := normFact(edgeFact{iff.Cond, true, it.b})
					switch {
					case reconn != nil && c == ssa.Value(reconn):
						// follow only the edge on which reconnecting is false
						if truth {
							succs = succs[1:]
						} else {
							succs = succs[:1]
						}
					case isShutdownTest(c):
						// the connection is gone on the equal edge
						if truth {
							succs = succs[1:]
						} else {
							succs = succs[:1]
						}
					}
				}
				for _, sb := range succs {
					work = append(work, item{sb, 0})
				}
			}
			ok2 := leak == nil
			pos := s.Pos()
			if leak != nil {
				pos = leak.Pos()
			}
			r.Ob(id, funcName(mon), "no return leaves the deferral armed", pos, ok2, true,
				ifs(ok2, "every return after the arming passes a call that clears deferUpdates (or happens during a reconnect / after the connection was lost)", "monitor() can return with deferUpdates still set although no reconnect is in progress: every later notification of the monitors already established is buffered and never applied"))
		}
	}
	if n < 1 {
		r.Anchor(id, "monitor(): store of true to deferUpdates")
	}
}

// straightLine: the function has no branch (every instruction runs on every call).
func straightLine(fn *ssa.Function) bool {
	for _, b := range fn.Blocks {
		if isRecoverBlock(b) {
			continue
		}
		if len(b.Succs) > 1 {
			return false
		}
	}
	return len(fn.Blocks) > 0
}
