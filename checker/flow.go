package main

import (
	"go/constant"
	"go/token"
	"go/types"

	"golang.org/x/tools/go/ssa"
)

// Shared SSA flow helpers: dominating branch facts, value equivalence with
// the alloc-stable load rule (DESIGN.md §2 "Value identity in SSA").

type edgeFact struct {
	cond  ssa.Value
	truth bool
	from  *ssa.BasicBlock
}

// factsAt returns the branch conditions known to hold on entry to block b:
// for every dominating If block D and successor s of D with s dom b and D the
// only predecessor of s, the condition has the truth value of that edge.
func factsAt(b *ssa.BasicBlock) []edgeFact {
	var out []edgeFact
	for d := b; d != nil; d = d.Idom() {
		// d dominates b; look at the edge into d from its single predecessor
		if len(d.Preds) != 1 {
			continue
		}
		pr := d.Preds[0]
		if len(pr.Instrs) == 0 {
			continue
		}
		iff, ok := pr.Instrs[len(pr.Instrs)-1].(*ssa.If)
		if !ok || len(pr.Succs) != 2 || pr.Succs[0] == pr.Succs[1] {
			continue
		}
		out = append(out, edgeFact{iff.Cond, pr.Succs[0] == d, pr})
	}
	return out
}

// conjunctFacts expands the facts known at block b with the conjuncts of
// short-circuit conditions that go/ssa materialised as a phi
// (`c := x && y` becomes phi[false, y]): when such a phi is known true, its
// last conjunct is true and so is every condition on the way to the block that
// evaluated it.
func conjunctFacts(b *ssa.BasicBlock) []edgeFact {
	var out []edgeFact
	seen := map[*ssa.BasicBlock]bool{}
	var expand func(f edgeFact, depth int)
	expand = func(f edgeFact, depth int) {
		out = append(out, f)
		c, truth := normFact(f)
		ph, ok := c.(*ssa.Phi)
		if !ok || !truth || depth > 4 {
			return
		}
		// all edges but one are the constant false
		var last ssa.Value
		var lastPred *ssa.BasicBlock
		for i, e := range ph.Edges {
			if k, isC := e.(*ssa.Const); isC && k.Value != nil && k.Value.Kind() == constant.Bool && !constant.BoolVal(k.Value) {
				continue
			}
			if last != nil {
				return
			}
			last = e
			lastPred = ph.Block().Preds[i]
		}
		if last == nil || lastPred == nil {
			return
		}
		expand(edgeFact{last, true, lastPred}, depth+1)
		if !seen[lastPred] {
			seen[lastPred] = true
			for _, g := range factsAt(lastPred) {
				expand(g, depth+1)
			}
		}
	}
	for _, f := range factsAt(b) {
		expand(f, 0)
	}
	return out
}

// atoms decomposes a fact into atomic (cond,truth) pairs through NOT.
func normFact(f edgeFact) (ssa.Value, bool) {
	c, t := f.cond, f.truth
	for {
		u, ok := c.(*ssa.UnOp)
		if !ok || u.Op != token.NOT {
			return c, t
		}
		c, t = u.X, !t
	}
}

func constInt(v ssa.Value) (int64, bool) {
	c, ok := v.(*ssa.Const)
	if !ok || c.Value == nil || c.Value.Kind() != constant.Int {
		return 0, false
	}
	i, exact := constant.Int64Val(c.Value)
	return i, exact
}

func isNilConst(v ssa.Value) bool {
	c, ok := v.(*ssa.Const)
	return ok && c.Value == nil
}

// lenOperand returns X if v is len(X).
func lenOperand(v ssa.Value) (ssa.Value, bool) {
	c, ok := v.(*ssa.Call)
	if !ok {
		return nil, false
	}
	b, ok := c.Call.Value.(*ssa.Builtin)
	if !ok || b.Name() != "len" || len(c.Call.Args) != 1 {
		return nil, false
	}
	return c.Call.Args[0], true
}

type flowCtx struct {
	fn        *ssa.Function
	reachMemo map[[2]int]bool
	instrIdx  map[ssa.Instruction]int
	// constBind: integer parameters of fn bound to the constant passed at the call
	// being examined (p.atLeast(2)): read where a length test compares with them
	constBind map[*ssa.Parameter]int64
}

// factNonNeg: a dominating test establishes idx >= 0 (idx < 0 false, idx >= 0 true, ...).
func (fc *flowCtx) factNonNeg(idx ssa.Value, at ssa.Instruction) bool {
	for _, f := range factsAt(at.Block()) {
		c, truth := normFact(f)
		bo, ok := c.(*ssa.BinOp)
		if !ok || bo.X != idx {
			continue
		}
		k, isC := constInt(bo.Y)
		if !isC {
			continue
		}
		switch {
		case bo.Op == token.LSS && !truth && k >= 0, // !(idx < k), k >= 0
			bo.Op == token.GEQ && truth && k >= 0,
			bo.Op == token.GTR && truth && k >= -1,
			bo.Op == token.LEQ && !truth && k >= -1:
			return true
		}
	}
	return false
}

func newFlowCtx(fn *ssa.Function) *flowCtx {
	fc := &flowCtx{fn: fn, reachMemo: map[[2]int]bool{}, instrIdx: map[ssa.Instruction]int{}}
	for _, b := range fn.Blocks {
		for i, ins := range b.Instrs {
			fc.instrIdx[ins] = i
		}
	}
	return fc
}

// blockReach: is there a non-empty path from block a to block b?
func (fc *flowCtx) blockReach(a, b *ssa.BasicBlock) bool {
	key := [2]int{a.Index, b.Index}
	if v, ok := fc.reachMemo[key]; ok {
		return v
	}
	seen := map[int]bool{}
	stack := append([]*ssa.BasicBlock{}, a.Succs...)
	res := false
	for len(stack) > 0 {
		x := stack[len(stack)-1]
		stack = stack[:len(stack)-1]
		if seen[x.Index] {
			continue
		}
		seen[x.Index] = true
		if x == b {
			res = true
			break
		}
		stack = append(stack, x.Succs...)
	}
	fc.reachMemo[key] = res
	return res
}

// canFollow: can instruction y execute after instruction x (on some path)?
func (fc *flowCtx) canFollow(x, y ssa.Instruction) bool {
	bx, by := x.Block(), y.Block()
	if bx == by && fc.instrIdx[x] < fc.instrIdx[y] {
		return true
	}
	return fc.blockReach(bx, by)
}

// reachAvoid: is there a path from block a (leaving it) to block b that never enters avoid?
func (fc *flowCtx) reachAvoid(a, b, avoid *ssa.BasicBlock) bool {
	seen := map[int]bool{}
	stack := append([]*ssa.BasicBlock{}, a.Succs...)
	for len(stack) > 0 {
		x := stack[len(stack)-1]
		stack = stack[:len(stack)-1]
		if x == avoid || seen[x.Index] {
			continue
		}
		seen[x.Index] = true
		if x == b {
			return true
		}
		stack = append(stack, x.Succs...)
	}
	return false
}

// between: may w execute after the most recent execution of a and before b?
// (a is assumed to dominate b, so every execution of b has a most recent a;
// paths that re-enter a's block re-execute a and do not count.)
func (fc *flowCtx) between(a, w, b ssa.Instruction) bool {
	ba, bw, bb := a.Block(), w.Block(), b.Block()
	ia, iw, ib := fc.instrIdx[a], fc.instrIdx[w], fc.instrIdx[b]
	if ba == bb && ia < ib {
		return bw == ba && ia < iw && iw < ib
	}
	// first leg a -> w
	if bw == ba {
		if iw <= ia {
			return false
		}
	} else if !fc.reachAvoid(ba, bw, ba) {
		return false
	}
	// second leg w -> b
	if bw == bb {
		return iw < ib
	}
	if bb == ba {
		return false
	}
	return fc.reachAvoid(bw, bb, ba)
}

// rootAlloc returns the local allocation an address is based on.
func rootAlloc(addr ssa.Value) *ssa.Alloc {
	for {
		switch a := addr.(type) {
		case *ssa.Alloc:
			return a
		case *ssa.FieldAddr:
			addr = a.X
		case *ssa.IndexAddr:
			addr = a.X
		default:
			return nil
		}
	}
}

// addrEquiv: do two address expressions denote the same location?
func (fc *flowCtx) addrEquiv(a, b ssa.Value, la, lb ssa.Instruction, depth int) bool {
	if a == b {
		return true
	}
	if depth > 6 {
		return false
	}
	switch x := a.(type) {
	case *ssa.FieldAddr:
		y, ok := b.(*ssa.FieldAddr)
		return ok && x.Field == y.Field && fc.valEquiv(x.X, y.X, la, lb, depth+1)
	case *ssa.IndexAddr:
		y, ok := b.(*ssa.IndexAddr)
		if !ok {
			return false
		}
		ci, ok1 := constInt(x.Index)
		cj, ok2 := constInt(y.Index)
		if !(ok1 && ok2 && ci == cj) && x.Index != y.Index {
			return false
		}
		return fc.valEquiv(x.X, y.X, la, lb, depth+1)
	}
	return false
}

// writersOf lists instructions that may write the location denoted by addr
// (stores to an equivalent address, or the address / its root escaping into a call or closure).
func (fc *flowCtx) interferes(addr ssa.Value, l1, l2 ssa.Instruction) bool {
	root := rootAlloc(addr)
	for _, b := range fc.fn.Blocks {
		for _, ins := range b.Instrs {
			switch w := ins.(type) {
			case *ssa.Store:
				hit := false
				if root != nil {
					hit = rootAlloc(w.Addr) == root
				} else {
					// non-local location: a store to the same field / same constant element
					hit = sameShape(addr, w.Addr)
				}
				if hit && fc.between(l1, ins, l2) {
					return true
				}
			case ssa.CallInstruction:
				if root == nil {
					continue
				}
				for _, arg := range w.Common().Args {
					if rootAlloc(arg) == root && fc.between(l1, ins, l2) {
						return true
					}
				}
			case *ssa.MakeClosure:
				if root == nil {
					continue
				}
				for bi, bnd := range w.Bindings {
					if rootAlloc(bnd) == root {
						// captured by reference: any later call could write it, unless the
						// closure only ever reads the captured variable
						if cf, ok := w.Fn.(*ssa.Function); ok && !closureMayWrite(cf, bi, 0) {
							continue
						}
						if fc.canFollow(ins, l2) {
							return true
						}
					}
				}
			}
		}
	}
	return false
}

func sameShape(a, b ssa.Value) bool {
	switch x := a.(type) {
	case *ssa.FieldAddr:
		y, ok := b.(*ssa.FieldAddr)
		return ok && x.Field == y.Field && types.Identical(x.X.Type(), y.X.Type())
	case *ssa.IndexAddr:
		_, ok := b.(*ssa.IndexAddr)
		return ok
	}
	return a == b
}

// valEquiv: do two SSA values denote the same runtime value, where la/lb are
// the instructions at which they are observed (for the no-writer-between rule)?
func (fc *flowCtx) valEquiv(a, b ssa.Value, la, lb ssa.Instruction, depth int) bool {
	if a == b {
		return true
	}
	if depth > 6 {
		return false
	}
	switch x := a.(type) {
	case *ssa.UnOp:
		y, ok := b.(*ssa.UnOp)
		if !ok || x.Op != y.Op {
			return false
		}
		if x.Op != token.MUL {
			return fc.valEquiv(x.X, y.X, la, lb, depth+1)
		}
		if !fc.addrEquiv(x.X, y.X, x, y, depth+1) {
			return false
		}
		// loads of the same location: equal unless a writer can run in between
		first, second := ssa.Instruction(x), ssa.Instruction(y)
		if !fc.canFollow(first, second) {
			first, second = second, first
		}
		return !fc.interferes(x.X, first, second)
	case *ssa.TypeAssert:
		switch y := b.(type) {
		case *ssa.TypeAssert:
			return types.Identical(x.AssertedType, y.AssertedType) && fc.valEquiv(x.X, y.X, la, lb, depth+1)
		case *ssa.Extract:
			if ta, ok := y.Tuple.(*ssa.TypeAssert); ok && y.Index == 0 {
				return types.Identical(x.AssertedType, ta.AssertedType) && fc.valEquiv(x.X, ta.X, la, lb, depth+1)
			}
		}
	case *ssa.Extract:
		if ta, ok := x.Tuple.(*ssa.TypeAssert); ok && x.Index == 0 {
			switch y := b.(type) {
			case *ssa.TypeAssert:
				return types.Identical(ta.AssertedType, y.AssertedType) && fc.valEquiv(ta.X, y.X, la, lb, depth+1)
			case *ssa.Extract:
				if tb, ok := y.Tuple.(*ssa.TypeAssert); ok && y.Index == 0 {
					return types.Identical(ta.AssertedType, tb.AssertedType) && fc.valEquiv(ta.X, tb.X, la, lb, depth+1)
				}
			}
		}
		if y, ok := b.(*ssa.Extract); ok {
			return x.Index == y.Index && x.Tuple == y.Tuple
		}
	case *ssa.ChangeType:
		y, ok := b.(*ssa.ChangeType)
		return ok && types.Identical(x.Type(), y.Type()) && fc.valEquiv(x.X, y.X, la, lb, depth+1)
	case *ssa.Field:
		y, ok := b.(*ssa.Field)
		return ok && x.Field == y.Field && fc.valEquiv(x.X, y.X, la, lb, depth+1)
	case *ssa.Const:
		y, ok := b.(*ssa.Const)
		return ok && x.Value != nil && y.Value != nil && constant.Compare(x.Value, token.EQL, y.Value) && types.Identical(x.Type(), y.Type())
	}
	return false
}

// lenAtLeast: do the facts holding at block b imply len(x) >= n?
func (fc *flowCtx) lenAtLeast(x ssa.Value, n int64, at ssa.Instruction) (bool, string) {
	for _, f := range factsAt(at.Block()) {
		c, truth := normFact(f)
		bo, ok := c.(*ssa.BinOp)
		if !ok {
			continue
		}
		l, r, op := bo.X, bo.Y, bo.Op
		// normalise to len(X) op const
		if _, isLen := lenOperand(r); isLen {
			l, r = r, l
			switch op {
			case token.LSS:
				op = token.GTR
			case token.LEQ:
				op = token.GEQ
			case token.GTR:
				op = token.LSS
			case token.GEQ:
				op = token.LEQ
			}
		}
		lx, isLen := lenOperand(l)
		if !isLen {
			continue
		}
		k, isConst := constInt(r)
		if !isConst {
			if prm, isPrm := r.(*ssa.Parameter); isPrm && fc.constBind != nil {
				k, isConst = fc.constBind[prm]
			}
		}
		if !isConst {
			continue
		}
		if !fc.valEquiv(lx, x, bo, at, 0) {
			continue
		}
		if !truth {
			switch op {
			case token.EQL:
				op = token.NEQ
			case token.NEQ:
				op = token.EQL
			case token.LSS:
				op = token.GEQ
			case token.LEQ:
				op = token.GTR
			case token.GTR:
				op = token.LEQ
			case token.GEQ:
				op = token.LSS
			}
		}
		implied := false
		switch op {
		case token.EQL:
			implied = k >= n
		case token.GTR:
			implied = k+1 >= n
		case token.GEQ:
			implied = k >= n
		case token.NEQ:
			implied = k == 0 && n <= 1 // len != 0  =>  len >= 1
		}
		if implied {
			return true, "dominating test len " + op.String() + " " + itoa(k) + " (" + posOf(fc.fn, bo.Pos()) + ")"
		}
	}
	return false, ""
}

func itoa(i int64) string { return constant.MakeInt64(i).String() }

func posOf(fn *ssa.Function, p token.Pos) string {
	if !p.IsValid() {
		return "?"
	}
	ps := fn.Prog.Fset.Position(p)
	return "line " + itoa(int64(ps.Line))
}

// nonNilAt: do the facts at instruction `at` imply v != nil?
func (fc *flowCtx) nonNilAt(v ssa.Value, at ssa.Instruction) (bool, string) {
	for _, f := range factsAt(at.Block()) {
		c, truth := normFact(f)
		bo, ok := c.(*ssa.BinOp)
		if !ok || (bo.Op != token.EQL && bo.Op != token.NEQ) {
			continue
		}
		var other ssa.Value
		if isNilConst(bo.Y) {
			other = bo.X
		} else if isNilConst(bo.X) {
			other = bo.Y
		} else {
			continue
		}
		nonNil := (bo.Op == token.NEQ) == truth
		if nonNil && fc.valEquiv(other, v, bo, at, 0) {
			return true, "dominating nil test (" + posOf(fc.fn, bo.Pos()) + ")"
		}
	}
	return false, ""
}

// assertOKAt: do the facts at `at` imply that x has dynamic type T?
func (fc *flowCtx) assertOKAt(x ssa.Value, T types.Type, at ssa.Instruction) (bool, string) {
	for _, f := range factsAt(at.Block()) {
		c, truth := normFact(f)
		if !truth {
			continue
		}
		ex, ok := c.(*ssa.Extract)
		if !ok || ex.Index != 1 {
			continue
		}
		ta, ok := ex.Tuple.(*ssa.TypeAssert)
		if !ok || !ta.CommaOk {
			continue
		}
		if types.Identical(ta.AssertedType, T) && fc.valEquiv(ta.X, x, ta, at, 0) {
			return true, "dominated by successful comma-ok assertion / type-switch arm (" + posOf(fc.fn, ta.Pos()) + ")"
		}
	}
	return false, ""
}

// nonNegative: is the integer value provably >= 0 (constants and range/for induction variables)?
func nonNegative(v ssa.Value, depth int) bool {
	if depth > 4 {
		return false
	}
	if k, ok := constInt(v); ok {
		return k >= 0
	}
	switch x := v.(type) {
	case *ssa.BinOp:
		if x.Op == token.ADD {
			if k, ok := constInt(x.Y); ok && k >= 1 {
				if ph, ok := x.X.(*ssa.Phi); ok {
					// phi(-1 | >=0, this add)
					for _, e := range ph.Edges {
						if e == ssa.Value(x) {
							continue
						}
						if c, ok := constInt(e); !ok || c < -1 {
							return false
						}
					}
					return true
				}
				return nonNegative(x.X, depth+1)
			}
		}
	case *ssa.Phi:
		for _, e := range x.Edges {
			if bo, ok := e.(*ssa.BinOp); ok && bo.Op == token.ADD && bo.X == ssa.Value(x) {
				if k, ok := constInt(bo.Y); ok && k >= 0 {
					continue
				}
			}
			if !nonNegative(e, depth+1) {
				return false
			}
		}
		return true
	}
	return false
}

// indexInRange: idx < len(x) by a dominating comparison on the same idx value.
func (fc *flowCtx) indexBelowLen(idx, x ssa.Value, at ssa.Instruction) (bool, string) {
	for _, f := range factsAt(at.Block()) {
		c, truth := normFact(f)
		bo, ok := c.(*ssa.BinOp)
		if !ok {
			continue
		}
		l, r, op := bo.X, bo.Y, bo.Op
		if !truth {
			switch op {
			case token.LSS:
				op = token.GEQ
			case token.GEQ:
				op = token.LSS
			case token.GTR:
				op = token.LEQ
			case token.LEQ:
				op = token.GTR
			default:
				continue
			}
		}
		// idx < len(x)   or   len(x) > idx
		if op == token.GTR {
			l, r, op = r, l, token.LSS
		}
		if op != token.LSS || l != idx {
			continue
		}
		lx, isLen := lenOperand(r)
		if !isLen {
			continue
		}
		if fc.valEquiv(lx, x, bo, at, 0) {
			return true, "index bounded by dominating i < len (" + posOf(fc.fn, bo.Pos()) + ")"
		}
	}
	return false, ""
}

// hashableKnown: is the dynamic type of interface value v known to be
// comparable at instruction `at`? Either v is built from a comparable static
// type, or control can only reach `at` through successful comma-ok assertions
// (type-switch arms) of v to comparable non-interface types.
func (fc *flowCtx) hashableKnown(v ssa.Value, at ssa.Instruction) (bool, string) {
	if mi, ok := v.(*ssa.MakeInterface); ok {
		t := mi.X.Type()
		if _, isIface := t.Underlying().(*types.Interface); !isIface && types.Comparable(t) {
			return true, "key built from comparable static type " + t.String()
		}
		return false, ""
	}
	if c, ok := v.(*ssa.Const); ok && c.Value == nil {
		return true, "nil key"
	}
	if _, isIface := v.Type().Underlying().(*types.Interface); !isIface {
		return types.Comparable(v.Type()), "static key type"
	}
	okEdge := func(pred, succ *ssa.BasicBlock) bool {
		// facts holding in pred, plus the edge pred->succ itself
		facts := factsAt(pred)
		if len(pred.Instrs) > 0 {
			if iff, ok := pred.Instrs[len(pred.Instrs)-1].(*ssa.If); ok && len(pred.Succs) == 2 && pred.Succs[0] != pred.Succs[1] {
				facts = append(facts, edgeFact{iff.Cond, pred.Succs[0] == succ, pred})
			}
		}
		for _, f := range facts {
			c, truth := normFact(f)
			if !truth {
				continue
			}
			// a predicate helper that only answers true for comparable dynamic types
			if call, isCall := c.(*ssa.Call); isCall {
				if sc := call.Call.StaticCallee(); sc != nil && len(call.Call.Args) == 1 && hashablePredicate(sc) && fc.valEquiv(call.Call.Args[0], v, call, at, 0) {
					return true
				}
				continue
			}
			ex, ok := c.(*ssa.Extract)
			if !ok || ex.Index != 1 {
				continue
			}
			ta, ok := ex.Tuple.(*ssa.TypeAssert)
			if !ok || !ta.CommaOk {
				continue
			}
			if _, isIface := ta.AssertedType.Underlying().(*types.Interface); isIface || !types.Comparable(ta.AssertedType) {
				continue
			}
			if fc.valEquiv(ta.X, v, ta, at, 0) {
				return true
			}
		}
		return false
	}
	for d := at.Block(); d != nil; d = d.Idom() {
		if len(d.Preds) == 0 {
			continue
		}
		all := true
		for _, pr := range d.Preds {
			if !okEdge(pr, d) {
				all = false
				break
			}
		}
		if all {
			return true, "every path to this point passes a successful assertion of the key to a comparable type (block " + d.String() + ")"
		}
	}
	return false, ""
}

// retValue returns the value actually returned as result i: go/ssa spills
// results through local cells when the function has a defer ("*r = v;
// rundefers; t = *r; return t"), in which case the value stored in the same
// block is returned.
func retValue(ret *ssa.Return, i int) ssa.Value {
	v := ret.Results[i]
	ld, ok := v.(*ssa.UnOp)
	if !ok || ld.Op != token.MUL {
		return v
	}
	al, ok := ld.X.(*ssa.Alloc)
	if !ok {
		return v
	}
	b := ret.Block()
	var last ssa.Value
	for _, ins := range b.Instrs {
		if ins == ssa.Instruction(ld) {
			break
		}
		if st, ok := ins.(*ssa.Store); ok && st.Addr == al {
			last = st.Val
		}
	}
	if last != nil {
		return last
	}
	return v
}

// isRecoverBlock: the synthetic block that returns the named results after a recovered panic.
func isRecoverBlock(b *ssa.BasicBlock) bool {
	return b.Parent().Recover == b
}

// closureMayWrite: can the closure write (or leak the address of) its idx-th
// captured variable? Loads and address computations that are only loaded from
// are reads.
func closureMayWrite(cf *ssa.Function, idx int, depth int) bool {
	if cf == nil || idx >= len(cf.FreeVars) || depth > 3 {
		return true
	}
	var onlyRead func(v ssa.Value, d int) bool
	onlyRead = func(v ssa.Value, d int) bool {
		if d > 6 {
			return false
		}
		refs := v.Referrers()
		if refs == nil {
			return true
		}
		for _, r := range *refs {
			switch u := r.(type) {
			case *ssa.UnOp:
				if u.Op != token.MUL {
					return false
				}
			case *ssa.FieldAddr:
				if !onlyRead(u, d+1) {
					return false
				}
			case *ssa.IndexAddr:
				if !onlyRead(u, d+1) {
					return false
				}
			case *ssa.DebugRef:
			case *ssa.MakeClosure:
				inner, ok := u.Fn.(*ssa.Function)
				if !ok {
					return false
				}
				for bi, b := range u.Bindings {
					if b == v && closureMayWrite(inner, bi, depth+1) {
						return false
					}
				}
			default:
				return false
			}
		}
		return true
	}
	return !onlyRead(cf.FreeVars[idx], 0)
}

// hashablePredicate: fn is func(x interface{}) bool and every return that may
// yield true is reached only through successful comma-ok assertions (type
// switch arms) of x to comparable non-interface types.
var hashablePredCache = map[*ssa.Function]int{}

func hashablePredicate(fn *ssa.Function) bool {
	if r, ok := hashablePredCache[fn]; ok {
		return r == 1
	}
	hashablePredCache[fn] = 2 // in progress: recursion answers no
	res := func() bool {
		if fn == nil || len(fn.Blocks) == 0 || len(fn.Params) != 1 || fn.Signature.Results().Len() != 1 {
			return false
		}
		if _, isIface := fn.Params[0].Type().Underlying().(*types.Interface); !isIface {
			return false
		}
		if b, ok := fn.Signature.Results().At(0).Type().Underlying().(*types.Basic); !ok || b.Kind() != types.Bool {
			return false
		}
		fc := newFlowCtx(fn)
		for _, b := range fn.Blocks {
			ret, ok := b.Instrs[len(b.Instrs)-1].(*ssa.Return)
			if !ok {
				continue
			}
			rv := ret.Results[0]
			if k, isC := rv.(*ssa.Const); isC && k.Value != nil && k.Value.Kind() == constant.Bool {
				if !constant.BoolVal(k.Value) {
					continue
				}
				if ok, _ := fc.hashableKnown(fn.Params[0], ret); !ok {
					return false
				}
				continue
			}
			// the ok of a comma-ok assertion of the parameter to a comparable type
			if ex, isEx := rv.(*ssa.Extract); isEx && ex.Index == 1 {
				if ta, isTA := ex.Tuple.(*ssa.TypeAssert); isTA && ta.CommaOk && ta.X == ssa.Value(fn.Params[0]) {
					if _, isIface := ta.AssertedType.Underlying().(*types.Interface); !isIface && types.Comparable(ta.AssertedType) {
						continue
					}
				}
			}
			return false
		}
		return true
	}()
	if res {
		hashablePredCache[fn] = 1
	} else {
		hashablePredCache[fn] = 0
	}
	return res
}

// constUpperBound: a dominating comparison idx < K (K constant) holds at `at`.
func (fc *flowCtx) constUpperBound(idx ssa.Value, at ssa.Instruction) (int64, bool) {
	for _, f := range factsAt(at.Block()) {
		c, truth := normFact(f)
		bo, ok := c.(*ssa.BinOp)
		if !ok {
			continue
		}
		l, r, op := bo.X, bo.Y, bo.Op
		if !truth {
			switch op {
			case token.LSS:
				op = token.GEQ
			case token.GEQ:
				op = token.LSS
			case token.GTR:
				op = token.LEQ
			case token.LEQ:
				op = token.GTR
			default:
				continue
			}
		}
		if op == token.GTR {
			l, r, op = r, l, token.LSS
		}
		if op != token.LSS || l != idx {
			continue
		}
		if k, isC := constInt(r); isC {
			return k, true
		}
	}
	return 0, false
}
