package main

import (
	"encoding/json"
	"fmt"
	"go/token"
	"os"
	"sort"
	"strconv"
	"strings"
)

// Obligation is one proof obligation enumerated by a rule.
type Obligation struct {
	Rule       string `json:"rule"`
	Key        string `json:"key"` // rule|function|construct#ordinal — never a line number
	Pos        string `json:"pos"`
	OK         bool   `json:"ok"`
	Nontrivial bool   `json:"nontrivial"`
	Reason     string `json:"reason"`
	base       string
	tpos       token.Pos
}

// Reporter collects the obligations of one analysis run (one program variant).
type Reporter struct {
	p      *Program
	obls   []*Obligation
	infos  []string
	counts map[string]int
	final  bool
}

func NewReporter(p *Program) *Reporter {
	return &Reporter{p: p, counts: map[string]int{}}
}

// Ob records an obligation. fn is the function the construct lives in,
// construct names the construct (callee, field, lock class, tag, constant).
func (r *Reporter) Ob(rule, fn, construct string, pos token.Pos, ok, nontrivial bool, reason string) {
	base := rule + "|" + fn + "|" + construct
	r.obls = append(r.obls, &Obligation{Rule: rule, base: base, Pos: r.p.Pos(pos), tpos: pos, OK: ok, Nontrivial: nontrivial, Reason: reason})
	r.counts[rule]++
}

// Anchor records that an anchor of a rule could not be resolved: always a violation.
func (r *Reporter) Anchor(rule, what string) {
	r.obls = append(r.obls, &Obligation{Rule: rule, base: rule + "|anchor|" + what, Pos: "?:0", OK: false, Reason: "anchor could not be resolved: " + what})
}

func (r *Reporter) Info(format string, a ...interface{}) {
	r.infos = append(r.infos, fmt.Sprintf(format, a...))
}

// Count adds n matched instances to a rule without creating obligations.
func (r *Reporter) Count(rule string, n int) { r.counts[rule] += n }

func posLess(a, b string) bool {
	ai := strings.LastIndex(a, ":")
	bi := strings.LastIndex(b, ":")
	if ai < 0 || bi < 0 || a[:ai] != b[:bi] {
		return a < b
	}
	an, _ := strconv.Atoi(a[ai+1:])
	bn, _ := strconv.Atoi(b[bi+1:])
	return an < bn
}

// Finish sorts obligations and assigns ordinals to equal base keys.
func (r *Reporter) Finish() []*Obligation {
	if r.final {
		return r.obls
	}
	sort.SliceStable(r.obls, func(i, j int) bool {
		a, b := r.obls[i], r.obls[j]
		if a.Pos != b.Pos {
			return posLess(a.Pos, b.Pos)
		}
		if a.tpos != b.tpos {
			return a.tpos < b.tpos
		}
		return a.base < b.base
	})
	seen := map[string]int{}
	for _, o := range r.obls {
		seen[o.base]++
		o.Key = o.base + "#" + strconv.Itoa(seen[o.base])
	}
	r.final = true
	return r.obls
}

func (r *Reporter) Violations() []*Obligation {
	var out []*Obligation
	for _, o := range r.Finish() {
		if !o.OK {
			out = append(out, o)
		}
	}
	return out
}

// ---------------------------------------------------------------------------
// known findings

type KnownFinding struct {
	Property string `json:"property"`
	Rule     string `json:"rule"`
	Key      string `json:"construct_key"`
	Status   string `json:"status"` // "known" | "fixed"
	Commit   string `json:"commit,omitempty"`
	What     string `json:"what"`
}

func loadKnown(path string) ([]KnownFinding, error) {
	b, err := os.ReadFile(path)
	if err != nil {
		if os.IsNotExist(err) {
			return nil, nil
		}
		return nil, err
	}
	var kf []KnownFinding
	if err := json.Unmarshal(b, &kf); err != nil {
		return nil, fmt.Errorf("%s: %v", path, err)
	}
	return kf, nil
}

// ---------------------------------------------------------------------------
// evidence

type RuleStat struct {
	Instances int `json:"instances"`
	Min       int `json:"min"`
	Violated  int `json:"violated"`
}

type ControlResult struct {
	Name     string   `json:"name"`
	Rule     string   `json:"rule"`
	Expect   string   `json:"expect"`
	Status   string   `json:"status"` // fired | MISSED | unavailable
	Reported []string `json:"reported,omitempty"`
}

type Coverage struct {
	Explanation        string               `json:"explanation"`
	Obligations        int                  `json:"obligations"`
	Discharged         int                  `json:"discharged"`
	Evaluations        int                  `json:"evaluations"`
	DistinctNontrivial int                  `json:"distinct_nontrivial"`
	Rule               string               `json:"rule"`
	Samples            []interface{}        `json:"samples"`
	Rules              map[string]*RuleStat `json:"rules"`
	Packages           int                  `json:"packages_analysed"`
	Functions          int                  `json:"functions_analysed"`
	Controls           []ControlResult      `json:"positive_controls"`
	NotCovered         string               `json:"not_covered"`
	KnownFindings      []string             `json:"known_findings,omitempty"`
	Info               []string             `json:"info,omitempty"`
	Exhaustive         bool                 `json:"exhaustive"`
	CheckerCmd         string               `json:"checker_cmd"`
	TrustedBase        []string             `json:"trusted_base"`
}

type Evidence struct {
	PropertyID  string   `json:"property_id"`
	Tier        string   `json:"tier"`
	Seed        int      `json:"seed"`
	Level       string   `json:"level"`
	Coverage    Coverage `json:"coverage"`
	Assumptions []string `json:"assumptions"`
	WallS       float64  `json:"wall_s"`
	Violations  int      `json:"violations"`
}

func writeJSON(path string, v interface{}) error {
	b, err := json.MarshalIndent(v, "", " ")
	if err != nil {
		return err
	}
	if path == "/dev/stdout" {
		_, err := os.Stdout.Write(append(b, '\n'))
		return err
	}
	tmp := path + ".tmp"
	if err := os.WriteFile(tmp, append(b, '\n'), 0o644); err != nil {
		return err
	}
	return os.Rename(tmp, path)
}
