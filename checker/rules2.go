package main

import (
	"fmt"
	"go/token"
	"go/types"
	"sort"
	"strings"

	"golang.org/x/tools/go/ssa"
)

// Rules added after testing the checks against independently seeded changes
// (DESIGN.md §8b): A3-REPAIR, A3-TABLE, S-PURE, X5 (MUT-PARAM), R-REPORT.

// loopHeaderOf returns the header of the innermost natural loop containing b.
func loopHeaderOf(b *ssa.BasicBlock) *ssa.BasicBlock {
	for d := b; d != nil; d = d.Idom() {
		for _, pr := range d.Preds {
			if d.Dominates(pr) && inLoopOf(d, b) {
				return d
			}
		}
	}
	return nil
}

// escapesWithout: starting after instruction `from`, can control reach a
// "completion point" (a success return, or the back edge of the enclosing
// loop) without executing an instruction for which isRepair is true?
func escapesWithout(fn *ssa.Function, from ssa.Instruction, isRepair func(ssa.Instruction) bool) (bool, string) {
	header := loopHeaderOf(from.Block())
	startIdx := 0
	for i, ins := range from.Block().Instrs {
		if ins == from {
			startIdx = i + 1
		}
	}
	type item struct {
		b   *ssa.BasicBlock
		idx int
	}
	seen := map[int]bool{}
	work := []item{{from.Block(), startIdx}}
	for len(work) > 0 {
		it := work[len(work)-1]
		work = work[:len(work)-1]
		repaired := false
		for i := it.idx; i < len(it.b.Instrs); i++ {
			ins := it.b.Instrs[i]
			if isRepair(ins) {
				repaired = true
				break
			}
			if ret, ok := ins.(*ssa.Return); ok {
				if !returnsNonNilError(it.b) {
					return true, "the function can return successfully (" + posOf(fn, ret.Pos()) + ")"
				}
			}
		}
		if repaired {
			continue
		}
		for _, s := range it.b.Succs {
			if s == header {
				return true, "the next loop iteration can start"
			}
			if header != nil && !inLoopOf(header, s) {
				// leaving the loop: continue to look for a success return
			}
			if !seen[s.Index] {
				seen[s.Index] = true
				work = append(work, item{s, 0})
			}
		}
	}
	return false, ""
}

// escapesWithoutFrom: like escapesWithout but starting at the beginning of block start
// and treating any return (not only successful ones) as completion.
func escapesWithoutFrom(fn *ssa.Function, start *ssa.BasicBlock, isRepair func(ssa.Instruction) bool) (bool, string) {
	seen := map[int]bool{start.Index: true}
	work := []*ssa.BasicBlock{start}
	for len(work) > 0 {
		b := work[len(work)-1]
		work = work[:len(work)-1]
		repaired := false
		for _, ins := range b.Instrs {
			if isRepair(ins) {
				repaired = true
				break
			}
			if _, ok := ins.(*ssa.Return); ok {
				return true, "the function returns"
			}
		}
		if repaired {
			continue
		}
		for _, s := range b.Succs {
			if !seen[s.Index] {
				seen[s.Index] = true
				work = append(work, s)
			}
		}
	}
	return false, ""
}

// ruleA3REPAIR: a model field handed to an in-place algorithm is written back
// (SetField on the same Info and column) before the operation completes.
func ruleA3REPAIR(p *Program, r *Reporter) {
	const id = "A3-REPAIR"
	n := 0
	for _, fn := range p.srcFuncs {
		if pkgOf(fn) != "updates" {
			continue
		}
		for _, b := range fn.Blocks {
			for _, ins := range b.Instrs {
				c, ok := ins.(*ssa.Call)
				if !ok {
					continue
				}
				sc := c.Call.StaticCallee()
				if sc == nil {
					continue
				}
				idx := inPlaceArgOf(sc)
				if idx < 0 || idx >= len(c.Call.Args) {
					continue
				}
				// in-place argument = FieldByColumn(info, col)
				arg := c.Call.Args[idx]
				for {
					if mi, ok := arg.(*ssa.MakeInterface); ok {
						arg = mi.X
						continue
					}
					break
				}
				var fbc *ssa.Call
				if ex, ok := arg.(*ssa.Extract); ok && ex.Index == 0 {
					fbc, _ = ex.Tuple.(*ssa.Call)
				}
				if fbc == nil || fbc.Call.StaticCallee() == nil || fbc.Call.StaticCallee().Name() != "FieldByColumn" || pkgOf(fbc.Call.StaticCallee()) != "mapper" {
					continue
				}
				n++
				info, col := fbc.Call.Args[0], fbc.Call.Args[1]
				isRepair := func(i ssa.Instruction) bool {
					sc2, ok := i.(*ssa.Call)
					if !ok || sc2.Call.StaticCallee() == nil || sc2.Call.StaticCallee().Name() != "SetField" || pkgOf(sc2.Call.StaticCallee()) != "mapper" {
						return false
					}
					return sc2.Call.Args[0] == info && (sc2.Call.Args[1] == col || sameValueLoose(sc2.Call.Args[1], col))
				}
				esc, how := escapesWithout(fn, c, isRepair)
				r.Ob(id, funcName(fn), "write-back after "+sc.Name(), c.Pos(), !esc, true,
					ifs(!esc, "the field consumed in place by "+sc.Name()+" is re-assigned with SetField on every path to completion",
						sc.Name()+" computes in place inside the model's own slice/map; on a path where "+how+" the field is not written back with SetField, so the model keeps the scrambled intermediate value"))
			}
		}
	}
	if n < 3 {
		r.Anchor(id, fmt.Sprintf("package updates: %d in-place calls on model fields, expected >= 3", n))
	}
}

// ---------------------------------------------------------------------------
// A3-TABLE: the frozen table of in-place functions agrees with the code

// reflectSrcParams: parameters from which a reflect.Value (or interface) value is derived.
func reflectSrcParams(v ssa.Value, seen map[ssa.Value]bool, depth int, out map[*ssa.Parameter]bool) {
	if v == nil || seen[v] || depth > 25 {
		return
	}
	seen[v] = true
	switch x := v.(type) {
	case *ssa.Parameter:
		out[x] = true
	case *ssa.MakeInterface:
		reflectSrcParams(x.X, seen, depth+1, out)
	case *ssa.ChangeInterface:
		reflectSrcParams(x.X, seen, depth+1, out)
	case *ssa.TypeAssert:
		reflectSrcParams(x.X, seen, depth+1, out)
	case *ssa.Phi:
		for _, e := range x.Edges {
			reflectSrcParams(e, seen, depth+1, out)
		}
	case *ssa.Extract:
		reflectSrcParams(x.Tuple, seen, depth+1, out)
	case *ssa.UnOp:
		if al, ok := x.X.(*ssa.Alloc); ok {
			if refs := al.Referrers(); refs != nil {
				for _, ref := range *refs {
					if st, ok := ref.(*ssa.Store); ok && st.Addr == al {
						reflectSrcParams(st.Val, seen, depth+1, out)
					}
				}
			}
			return
		}
		reflectSrcParams(x.X, seen, depth+1, out)
	case *ssa.Call:
		sc := x.Call.StaticCallee()
		if sc == nil || sc.Pkg == nil || sc.Pkg.Pkg.Path() != "reflect" {
			return
		}
		switch sc.Name() {
		case "ValueOf", "Indirect":
			reflectSrcParams(x.Call.Args[0], seen, depth+1, out)
		case "Index", "Elem", "Slice", "Slice3", "MapIndex", "Field", "FieldByName", "MapRange", "Key", "Value", "Interface":
			if len(x.Call.Args) > 0 {
				reflectSrcParams(x.Call.Args[0], seen, depth+1, out)
			}
		}
	}
}

func ruleA3TABLE(p *Program, r *Reporter) {
	const id = "A3-TABLE"
	n := 0
	for _, fn := range p.srcFuncs {
		if pkgOf(fn) != "updates" || fn.Parent() != nil {
			continue
		}
		mutated := map[*ssa.Parameter]token.Pos{}
		for _, b := range fn.Blocks {
			for _, ins := range b.Instrs {
				c, ok := ins.(*ssa.Call)
				if !ok {
					continue
				}
				sc := c.Call.StaticCallee()
				if sc == nil || sc.Pkg == nil || sc.Pkg.Pkg.Path() != "reflect" || sc.Signature.Recv() == nil {
					continue
				}
				switch sc.Name() {
				case "Set", "SetMapIndex", "SetLen", "SetInt", "SetString", "SetFloat", "SetBool":
				default:
					continue
				}
				src := map[*ssa.Parameter]bool{}
				reflectSrcParams(c.Call.Args[0], map[ssa.Value]bool{}, 0, src)
				for prm := range src {
					if _, seen := mutated[prm]; !seen {
						mutated[prm] = c.Pos()
					}
				}
			}
		}
		declared := inPlaceArgOf(fn)
		if len(mutated) == 0 && declared < 0 {
			continue
		}
		var prms []*ssa.Parameter
		for prm := range mutated {
			prms = append(prms, prm)
		}
		sort.Slice(prms, func(i, j int) bool { return prms[i].Pos() < prms[j].Pos() })
		for _, prm := range prms {
			n++
			idx := -1
			for i, q := range fn.Params {
				if q == prm {
					idx = i
				}
			}
			ok := idx == declared
			if !ok && declared < 0 && !isExportedEntry(fn) && !getCallIndex(p).usedAsVal[fn] {
				// a private helper that is not in the table: accepted when every caller hands it
				// (a reflect view of) its own reviewed in-place argument, or a value it just made
				sites := getCallIndex(p).sites[fn]
				forwarded := len(sites) > 0
				for _, st := range sites {
					ci, isCall := st.instr.(ssa.CallInstruction)
					if !isCall || idx >= len(ci.Common().Args) || pkgOf(st.caller) != "updates" {
						forwarded = false
						break
					}
					src := map[*ssa.Parameter]bool{}
					reflectSrcParams(ci.Common().Args[idx], map[ssa.Value]bool{}, 0, src)
					callerDeclared := inPlaceArgOf(st.caller)
					for q := range src {
						qi := -1
						for i, cp := range st.caller.Params {
							if cp == q {
								qi = i
							}
						}
						if qi != callerDeclared {
							forwarded = false
						}
					}
				}
				if forwarded {
					r.Ob(id, funcName(fn), "in-place parameter "+prm.Name(), mutated[prm], true, true,
						"private helper: every caller passes its own reviewed in-place argument (or a value it created) in this position")
					continue
				}
			}
			r.Ob(id, funcName(fn), "in-place parameter "+prm.Name(), mutated[prm], ok, true,
				ifs(ok, "the only parameter written through reflect is the reviewed in-place argument #"+fmt.Sprint(declared),
					fmt.Sprintf("parameter %s (#%d) is written in place through reflect, but the reviewed in-place argument of %s is #%d: a value the caller still owns (e.g. the update it is about to store, or the original model) is modified", prm.Name(), idx, fn.Name(), declared)))
		}
	}
	if n < 3 {
		r.Anchor(id, fmt.Sprintf("package updates: %d reflect-mutated parameters, expected >= 3", n))
	}
}

// ---------------------------------------------------------------------------
// S-PURE: building a notification only writes containers created for it

func ruleSPURE(p *Program, r *Reporter) {
	const id = "S-PURE"
	root := p.Fn("server", "OvsdbServer", "processMonitors")
	if root == nil {
		r.Anchor(id, "server.(*OvsdbServer).processMonitors")
		return
	}
	la := getLockAnalysis(p)
	f := getFreshness(p)
	seen := map[*ssa.Function]bool{root: true}
	work := []*ssa.Function{root}
	for len(work) > 0 {
		fn := work[0]
		work = work[1:]
		for _, an := range fn.AnonFuncs {
			if !seen[an] {
				seen[an] = true
				work = append(work, an)
			}
		}
		for _, b := range fn.Blocks {
			for _, ins := range b.Instrs {
				if ci, ok := ins.(ssa.CallInstruction); ok {
					for _, g := range la.calleesOf(ci) {
						if !seen[g] && pkgOf(g) == "server" && g.Blocks != nil {
							seen[g] = true
							work = append(work, g)
						}
					}
				}
			}
		}
	}
	var fns []*ssa.Function
	for fn := range seen {
		fns = append(fns, fn)
	}
	sort.Slice(fns, func(i, j int) bool { return fns[i].Pos() < fns[j].Pos() })
	n := 0
	for _, fn := range fns {
		for _, b := range fn.Blocks {
			for _, ins := range b.Instrs {
				var target ssa.Value
				kind := ""
				switch x := ins.(type) {
				case *ssa.MapUpdate:
					target, kind = x.Map, "map store"
				case *ssa.Call:
					if bi, ok := x.Call.Value.(*ssa.Builtin); ok && bi.Name() == "delete" {
						target, kind = x.Call.Args[0], "map delete"
					}
				case *ssa.Store:
					if ia, ok := x.Addr.(*ssa.IndexAddr); ok {
						if _, isSlice := ia.X.Type().Underlying().(*types.Slice); isSlice {
							target, kind = ia.X, "slice element store"
						}
					}
				}
				if target == nil {
					continue
				}
				n++
				f.memo = map[ssa.Value]int{}
				f.whyNot = map[ssa.Value]string{}
				ok := f.containerLocal(target, 0)
				r.Ob(id, funcName(fn), kind, ins.Pos(), ok, true,
					ifs(ok, "writes a container created while building this monitor's notification",
						"the notification path writes into a container it did not create ("+f.reason(target)+"): the rows of a database.Update are shared by every monitor and by the commit that follows, so one monitor's projection changes what the others (and the database) see"))
			}
		}
	}
	if n < 6 {
		r.Anchor(id, fmt.Sprintf("notification path: %d container writes, expected >= 6", n))
	}
}

// containerLocal: the container value was made in this function (make / literal),
// possibly kept in a local variable or captured by a closure of the same function.
func (f *freshness) containerLocal(v ssa.Value, depth int) bool {
	if depth > 8 {
		return false
	}
	switch x := v.(type) {
	case *ssa.MakeMap, *ssa.MakeSlice:
		return true
	case *ssa.Slice:
		_, isAl := x.X.(*ssa.Alloc)
		return isAl
	case *ssa.Phi:
		for _, e := range x.Edges {
			if !f.containerLocal(e, depth+1) {
				return false
			}
		}
		return true
	case *ssa.UnOp:
		switch a := x.X.(type) {
		case *ssa.Alloc:
			ok := true
			any := false
			if refs := a.Referrers(); refs != nil {
				for _, ref := range *refs {
					if st, isSt := ref.(*ssa.Store); isSt && st.Addr == a {
						any = true
						if !f.containerLocal(st.Val, depth+1) {
							ok = false
						}
					}
				}
			}
			if !any || !ok {
				f.whyNot[v] = "a variable that can hold a container received from elsewhere"
			}
			return any && ok
		case *ssa.FreeVar:
			// captured variable: resolve in the parent
			fn := a.Parent()
			parent := fn.Parent()
			if parent == nil {
				return false
			}
			idx := -1
			for i, fv := range fn.FreeVars {
				if fv == a {
					idx = i
				}
			}
			for _, b := range parent.Blocks {
				for _, ins := range b.Instrs {
					if mc, ok := ins.(*ssa.MakeClosure); ok && mc.Fn == fn && idx >= 0 {
						if al, ok := mc.Bindings[idx].(*ssa.Alloc); ok {
							ok2 := true
							any := false
							if refs := al.Referrers(); refs != nil {
								for _, ref := range *refs {
									if st, isSt := ref.(*ssa.Store); isSt && st.Addr == al {
										any = true
										if !f.containerLocal(st.Val, depth+1) {
											ok2 = false
										}
									}
								}
							}
							return any && ok2
						}
					}
				}
			}
			return false
		}
		f.whyNot[v] = "a container reached through a pointer / parameter"
		return false
	case *ssa.FreeVar:
		// captured by value
		fn := x.Parent()
		parent := fn.Parent()
		if parent == nil {
			return false
		}
		idx := -1
		for i, fv := range fn.FreeVars {
			if fv == x {
				idx = i
			}
		}
		for _, b := range parent.Blocks {
			for _, ins := range b.Instrs {
				if mc, ok := ins.(*ssa.MakeClosure); ok && mc.Fn == fn && idx >= 0 {
					return f.containerLocal(mc.Bindings[idx], depth+1)
				}
			}
		}
		return false
	case *ssa.Lookup:
		// element of a local container of containers
		return f.containerLocal(x.X, depth+1) && f.fresh(v, 0)
	case *ssa.Parameter:
		f.whyNot[v] = "parameter " + x.Name()
		return false
	}
	f.whyNot[v] = fmt.Sprintf("a %T", v)
	return false
}

// ---------------------------------------------------------------------------
// X5: index sets are only mutated by the maintenance operations

// paramSources: indexes of the parameters of fn that may flow into v (through phis and local cells).
func paramSources(fn *ssa.Function, v ssa.Value) []int {
	var res []int
	seen := map[ssa.Value]bool{}
	var walk func(v ssa.Value)
	walk = func(v ssa.Value) {
		if seen[v] {
			return
		}
		seen[v] = true
		switch x := v.(type) {
		case *ssa.Parameter:
			for i, q := range fn.Params {
				if q == x {
					res = append(res, i)
				}
			}
		case *ssa.Phi:
			for _, e := range x.Edges {
				walk(e)
			}
		case *ssa.ChangeType:
			walk(x.X)
		case *ssa.UnOp:
			if al, ok := x.X.(*ssa.Alloc); ok {
				if refs := al.Referrers(); refs != nil {
					for _, ref := range *refs {
						if st, ok := ref.(*ssa.Store); ok && st.Addr == al {
							walk(st.Val)
						}
					}
				}
			}
		}
	}
	walk(v)
	return res
}

// mutatedParams computes, for the functions of package cache, which map-typed
// parameters (incl. receivers) they modify, directly or through callees.
func mutatedParams(p *Program) map[*ssa.Function]map[int]bool {
	out := map[*ssa.Function]map[int]bool{}
	paramIdx := func(fn *ssa.Function, v ssa.Value) int {
		seen := map[ssa.Value]bool{}
		var walk func(v ssa.Value) int
		walk = func(v ssa.Value) int {
			if seen[v] {
				return -1
			}
			seen[v] = true
			switch x := v.(type) {
			case *ssa.Parameter:
				for i, q := range fn.Params {
					if q == x {
						return i
					}
				}
			case *ssa.Phi:
				for _, e := range x.Edges {
					if i := walk(e); i >= 0 {
						return i
					}
				}
			case *ssa.ChangeType:
				return walk(x.X)
			case *ssa.UnOp:
				if al, ok := x.X.(*ssa.Alloc); ok {
					if refs := al.Referrers(); refs != nil {
						for _, ref := range *refs {
							if st, ok := ref.(*ssa.Store); ok && st.Addr == al {
								if i := walk(st.Val); i >= 0 {
									return i
								}
							}
						}
					}
				}
			}
			return -1
		}
		return walk(v)
	}
	allParamIdx := func(fn *ssa.Function, v ssa.Value) []int {
		// every parameter that may flow into v
		var res []int
		seen := map[ssa.Value]bool{}
		var walk func(v ssa.Value)
		walk = func(v ssa.Value) {
			if seen[v] {
				return
			}
			seen[v] = true
			switch x := v.(type) {
			case *ssa.Parameter:
				for i, q := range fn.Params {
					if q == x {
						res = append(res, i)
					}
				}
			case *ssa.Phi:
				for _, e := range x.Edges {
					walk(e)
				}
			case *ssa.ChangeType:
				walk(x.X)
			case *ssa.UnOp:
				if al, ok := x.X.(*ssa.Alloc); ok {
					if refs := al.Referrers(); refs != nil {
						for _, ref := range *refs {
							if st, ok := ref.(*ssa.Store); ok && st.Addr == al {
								walk(st.Val)
							}
						}
					}
				}
			}
		}
		walk(v)
		return res
	}
	_ = paramIdx
	mark := func(fn *ssa.Function, i int) bool {
		if out[fn] == nil {
			out[fn] = map[int]bool{}
		}
		if out[fn][i] {
			return false
		}
		out[fn][i] = true
		return true
	}
	for changed := true; changed; {
		changed = false
		for _, fn := range p.srcFuncs {
			if pkgOf(fn) != "cache" || fn.Parent() != nil {
				continue
			}
			for _, b := range fn.Blocks {
				for _, ins := range b.Instrs {
					switch x := ins.(type) {
					case *ssa.MapUpdate:
						for _, i := range allParamIdx(fn, x.Map) {
							if mark(fn, i) {
								changed = true
							}
						}
					case *ssa.Call:
						if bi, ok := x.Call.Value.(*ssa.Builtin); ok {
							if bi.Name() == "delete" {
								for _, i := range allParamIdx(fn, x.Call.Args[0]) {
									if mark(fn, i) {
										changed = true
									}
								}
							}
							continue
						}
						if sc := x.Call.StaticCallee(); sc != nil && out[sc] != nil {
							for j := range out[sc] {
								if j < len(x.Call.Args) {
									for _, i := range allParamIdx(fn, x.Call.Args[j]) {
										if mark(fn, i) {
											changed = true
										}
									}
								}
							}
						}
					}
				}
			}
		}
	}
	return out
}

func ruleX5(p *Program, r *Reporter) {
	const id = "X5"
	mp := mutatedParams(p)
	f := getFreshness(p)
	allowed := map[string]bool{}
	for fn := range p.PrivateRegion(p.Fn("cache", "RowCache", "Create"), p.Fn("cache", "RowCache", "Update"), p.Fn("cache", "RowCache", "Delete"),
		p.Fn("cache", "", "newRowCache"), p.Fn("cache", "RowCache", "newIndexes")) {
		allowed[funcName(fn)] = true
	}
	var names []string
	for fn, ps := range mp {
		var is []string
		for i := range ps {
			is = append(is, fmt.Sprint(i))
		}
		sort.Strings(is)
		names = append(names, funcName(fn)+"#"+strings.Join(is, ","))
	}
	sort.Strings(names)
	r.Info("%s: functions of package cache that modify a map argument in place: %s", id, strings.Join(names, "; "))
	n := 0
	for _, fn := range p.srcFuncs {
		if pkgOf(fn) != "cache" {
			continue
		}
		top := fn
		for top.Parent() != nil {
			top = top.Parent()
		}
		for _, b := range fn.Blocks {
			for _, ins := range b.Instrs {
				c, ok := ins.(*ssa.Call)
				if !ok {
					continue
				}
				sc := c.Call.StaticCallee()
				if sc == nil || mp[sc] == nil {
					continue
				}
				for j := range mp[sc] {
					if j >= len(c.Call.Args) || j >= len(sc.Params) {
						continue
					}
					// the rule is about sets of row identifiers (index entries), not about any map
					if mt, isMap := sc.Params[j].Type().Underlying().(*types.Map); !isMap {
						continue
					} else if st, isStruct := mt.Elem().Underlying().(*types.Struct); !isStruct || st.NumFields() != 0 {
						continue
					}
					arg := c.Call.Args[j]
					// a helper passing on (a value that is either fresh or) its own
					// parameter is covered by its own summary: the obligation is on its callers
					if fn.Parent() == nil && mp[fn] != nil {
						own := paramSources(fn, arg)
						covered := len(own) > 0
						for _, i := range own {
							if !mp[fn][i] {
								covered = false
							}
						}
						if covered {
							continue
						}
					}
					n++
					if allowed[funcName(top)] {
						r.Ob(id, funcName(fn), sc.Name()+" arg#"+fmt.Sprint(j), c.Pos(), true, false, "index maintenance operation (holds the write lock)")
						continue
					}
					f.memo = map[ssa.Value]int{}
					f.whyNot = map[ssa.Value]string{}
					ok2 := f.fresh(arg, 0)
					r.Ob(id, funcName(fn), sc.Name()+" arg#"+fmt.Sprint(j), c.Pos(), ok2, true,
						ifs(ok2, "the set modified in place was created by this lookup",
							sc.Name()+" modifies its argument #"+fmt.Sprint(j)+" in place, and outside Create/Update/Delete it is handed a set that may be a live index entry ("+f.reason(arg)+"): a read-only lookup then removes rows from the index"))
				}
			}
		}
	}
	if n < 4 {
		r.Anchor(id, fmt.Sprintf("package cache: %d calls of set-modifying helpers, expected >= 4", n))
	}
}

// ---------------------------------------------------------------------------
// R-REPORT: the result of every operation, including a late failure, is what gets reported

func ruleRREPORT(p *Program, r *Reporter) {
	const id = "R-REPORT"
	fn := p.Fn("database/transaction", "Transaction", "Transact")
	if fn == nil {
		r.Anchor(id, "transaction.(*Transaction).Transact")
		return
	}
	// the results slice and the report store results[i] = &result
	var report *ssa.Store
	var resAlloc *ssa.Alloc
	for _, b := range fn.Blocks {
		for _, ins := range b.Instrs {
			st, ok := ins.(*ssa.Store)
			if !ok {
				continue
			}
			ia, ok := st.Addr.(*ssa.IndexAddr)
			if !ok {
				continue
			}
			if _, isConst := ia.Index.(*ssa.Const); isConst {
				continue
			}
			if !isNamed(deref(st.Val.Type()), repoMod+"/ovsdb", "OperationResult") {
				continue
			}
			if loopHeaderOf(b) == nil {
				continue
			}
			report = st
			if al, ok := st.Val.(*ssa.Alloc); ok {
				resAlloc = al
			}
		}
	}
	if report == nil || resAlloc == nil {
		r.Anchor(id, "the store results[i] = &result inside the operation loop")
		return
	}
	// the cell the reported value is copied from: *resAlloc = *rCell
	var rCell *ssa.Alloc
	if refs := resAlloc.Referrers(); refs != nil {
		for _, ref := range *refs {
			if st, ok := ref.(*ssa.Store); ok && st.Addr == resAlloc {
				if ld, ok := st.Val.(*ssa.UnOp); ok {
					rCell, _ = ld.X.(*ssa.Alloc)
				}
			}
		}
	}
	if rCell == nil {
		r.Anchor(id, "the operation result variable copied into results[i]")
		return
	}
	header := loopHeaderOf(report.Block())
	n := 0
	if refs := rCell.Referrers(); refs != nil {
		for _, ref := range *refs {
			st, ok := ref.(*ssa.Store)
			if !ok || st.Addr != rCell || !header.Dominates(st.Block()) {
				continue
			}
			n++
			// the copy into result (and hence the report) must follow on every path of the iteration
			isReport := func(i ssa.Instruction) bool {
				s2, ok := i.(*ssa.Store)
				// copied into the per-operation result, or appended by reference (&r) after the loop
				return ok && (s2.Addr == resAlloc || s2.Val == ssa.Value(rCell))
			}
			esc, how := escapesWithout(fn, st, isReport)
			r.Ob(id, funcName(fn), "result assignment reaches results[i]", st.Pos(), !esc, true,
				ifs(!esc, "this outcome of the operation is copied into results[i] before the iteration ends",
					"an outcome assigned to the operation result here (e.g. a failure detected while merging/applying the update) is never copied into results[i] ("+how+"): the operation is reported as successful and the transaction is committed"))
		}
	}
	if n < 4 {
		r.Anchor(id, fmt.Sprintf("operation loop: %d assignments of the operation result, expected >= 4", n))
	}
}
