package main

import (
	"fmt"
	"go/token"
	"go/types"
	"sort"

	"golang.org/x/tools/go/ssa"
)

// C15 — named UUID expansion: coverage of value-carrying members, two-phase
// discipline of the name map, position-local guards, gate before dispatch.

// carriesValue: a type that (within three levels) contains an empty interface,
// i.e. can hold a wire value in which a named UUID may occur.
func carriesValue(t types.Type, depth int) bool {
	if depth > 4 {
		return false
	}
	switch u := t.Underlying().(type) {
	case *types.Interface:
		return u.NumMethods() == 0
	case *types.Map:
		return carriesValue(u.Elem(), depth+1) || carriesValue(u.Key(), depth+1)
	case *types.Slice:
		return carriesValue(u.Elem(), depth+1)
	case *types.Struct:
		for i := 0; i < u.NumFields(); i++ {
			if carriesValue(u.Field(i).Type(), depth+1) {
				return true
			}
		}
	}
	return false
}

// derivesFromField: v is computed from a load of field fld (through ranges, lookups, index, loads).
var paramOrigins func(*ssa.Parameter) []ssa.Value // set while a rule that follows values into helpers runs

func derivesFromField(v ssa.Value, fld *types.Var, depth int) bool {
	if depth > 12 || v == nil {
		return false
	}
	switch x := v.(type) {
	case *ssa.Parameter:
		if paramOrigins != nil {
			for _, o := range paramOrigins(x) {
				if derivesFromField(o, fld, depth+3) {
					return true
				}
			}
		}
		return false
	case *ssa.FreeVar:
		for _, bv := range freeVarBindings(x) {
			if derivesFromField(bv, fld, depth+1) {
				return true
			}
		}
		return false
	case *ssa.Alloc:
		if refs := x.Referrers(); refs != nil {
			for _, ref := range *refs {
				if st, ok := ref.(*ssa.Store); ok && st.Addr == x && derivesFromField(st.Val, fld, depth+1) {
					return true
				}
			}
		}
		return false
	case *ssa.FieldAddr:
		if fieldOfAddr(x) == fld {
			return true
		}
		return derivesFromField(x.X, fld, depth+1)
	case *ssa.Field:
		if st, ok := x.X.Type().Underlying().(*types.Struct); ok && st.Field(x.Field) == fld {
			return true
		}
		return derivesFromField(x.X, fld, depth+1)
	case *ssa.UnOp:
		return derivesFromField(x.X, fld, depth+1)
	case *ssa.IndexAddr:
		return derivesFromField(x.X, fld, depth+1)
	case *ssa.Index:
		return derivesFromField(x.X, fld, depth+1)
	case *ssa.Lookup:
		return derivesFromField(x.X, fld, depth+1)
	case *ssa.Extract:
		return derivesFromField(x.Tuple, fld, depth+1)
	case *ssa.Next:
		return derivesFromField(x.Iter, fld, depth+1)
	case *ssa.Range:
		return derivesFromField(x.X, fld, depth+1)
	case *ssa.Phi:
		for _, e := range x.Edges {
			if derivesFromField(e, fld, depth+1) {
				return true
			}
		}
	case *ssa.Slice:
		return derivesFromField(x.X, fld, depth+1)
	}
	return false
}

func ruleN(p *Program, r *Reporter) {
	const id = "N-COVER"
	defer ruleGGate(p, r)
	defer ruleNPos(p, r)
	fn := p.Fn("ovsdb", "", "ExpandNamedUUIDs")
	opT := p.LookupType("ovsdb", "Operation")
	expCol := p.Fn("ovsdb", "", "expandColumnNamedUUIDs")
	if fn == nil || opT == nil {
		r.Anchor(id, "ovsdb.ExpandNamedUUIDs / ovsdb.Operation")
		return
	}
	st := opT.Underlying().(*types.Struct)
	region := map[*ssa.Function]bool{}
	var regionFns []*ssa.Function
	for _, g := range p.Reach(fn) {
		region[g] = true
		regionFns = append(regionFns, g)
	}
	paramOrigins = func(prm *ssa.Parameter) []ssa.Value {
		g := prm.Parent()
		idx := -1
		for i, q := range g.Params {
			if q == prm {
				idx = i
			}
		}
		var out []ssa.Value
		if idx < 0 || !region[g] || g == fn {
			return nil
		}
		for _, s := range p.CallSitesOf(g) {
			if c, ok := s.instr.(ssa.CallInstruction); ok && idx < len(c.Common().Args) && len(c.Common().Args) == len(g.Params) {
				out = append(out, c.Common().Args[idx])
			}
		}
		return out
	}
	defer func() { paramOrigins = nil }()
	sort.Slice(regionFns, func(i, j int) bool { return regionFns[i].Pos() < regionFns[j].Pos() })
	isExp := func(sc *ssa.Function) bool {
		return sc != nil && (sc == expCol || sc.Name() == "expandNamedUUID" || sc.Name() == "expandColumnNamedUUIDs")
	}
	// calls that expand one value, in ExpandNamedUUIDs or its private helpers
	var expCalls []*ssa.Call
	for _, g := range regionFns {
		if isExp(g) || (g.Parent() == nil && g != fn && g.Name() == "expandNamedUUIDAtomic") {
			continue // the expansion functions themselves
		}
		for _, b := range g.Blocks {
			for _, ins := range b.Instrs {
				if c, ok := ins.(*ssa.Call); ok && isExp(c.Call.StaticCallee()) {
					expCalls = append(expCalls, c)
				}
			}
		}
	}
	if len(expCalls) == 0 {
		r.Anchor(id, "no expansion call in ExpandNamedUUIDs")
		return
	}
	storedBack := func(c *ssa.Call) bool {
		var res []ssa.Value
		if _, isTuple := c.Type().(*types.Tuple); isTuple {
			if refs := c.Referrers(); refs != nil {
				for _, ref := range *refs {
					if ex, ok := ref.(*ssa.Extract); ok && ex.Index == 0 {
						res = append(res, ex)
					}
				}
			}
		} else {
			res = append(res, c)
		}
		var stored func(v ssa.Value, depth int) bool
		stored = func(v ssa.Value, depth int) bool {
			refs := v.Referrers()
			if refs == nil || depth > 3 {
				return false
			}
			for _, ref := range *refs {
				switch u := ref.(type) {
				case *ssa.MapUpdate:
					if u.Value == v {
						return true
					}
				case *ssa.Store:
					if u.Val == v {
						return true
					}
				case *ssa.Return:
					// handed back to the caller: stored there
					g := u.Parent()
					if g == fn || !region[g] {
						continue
					}
					for k, rv := range u.Results {
						if rv != v {
							continue
						}
						for _, s := range p.CallSitesOf(g) {
							cv, ok := s.instr.(*ssa.Call)
							if !ok {
								continue
							}
							if len(u.Results) == 1 {
								if stored(cv, depth+1) {
									return true
								}
								continue
							}
							if crefs := cv.Referrers(); crefs != nil {
								for _, cr := range *crefs {
									if ex, ok := cr.(*ssa.Extract); ok && ex.Index == k && stored(ex, depth+1) {
										return true
									}
								}
							}
						}
					}
				}
			}
			return false
		}
		for _, v := range res {
			if stored(v, 0) {
				return true
			}
		}
		return false
	}
	for i := 0; i < st.NumFields(); i++ {
		f := st.Field(i)
		if !carriesValue(f.Type(), 0) {
			continue
		}
		covered, stored := false, false
		var pos token.Pos = fn.Pos()
		for _, c := range expCalls {
			for _, a := range c.Call.Args {
				if derivesFromField(a, f, 0) {
					covered = true
					pos = c.Pos()
					if storedBack(c) {
						stored = true
					}
				}
			}
		}
		ok := covered && stored
		why := "every value of Operation." + f.Name() + " is passed through the expansion and stored back"
		if !covered {
			why = "Operation." + f.Name() + " can carry values but is never passed to the named-UUID expansion: a name used there is sent to the database unresolved"
		} else if !stored {
			why = "the expansion result for Operation." + f.Name() + " is not stored back into the operation"
		}
		r.Ob(id, funcName(fn), "member "+f.Name(), pos, ok, true, why)
	}
	// N-PHASE: in ExpandNamedUUIDs no write of the name map can follow a substitution.
	// The name map is the map[string]string handed to the substitution calls; it is written by
	// map stores in this function, or by the helper call that builds/fills it.
	isNameMap := func(v ssa.Value) bool {
		m, ok := v.Type().Underlying().(*types.Map)
		return ok && types.Identical(m.Key(), types.Typ[types.String]) && types.Identical(m.Elem(), types.Typ[types.String])
	}
	fc := newFlowCtx(fn)
	var reads, writes []ssa.Instruction
	for _, b := range fn.Blocks {
		for _, ins := range b.Instrs {
			switch x := ins.(type) {
			case *ssa.MapUpdate:
				if isNameMap(x.Map) {
					writes = append(writes, x)
				}
			case *ssa.Call:
				sc := x.Call.StaticCallee()
				passes := false
				for _, a := range x.Call.Args {
					if isNameMap(a) {
						passes = true
					}
				}
				if isExp(sc) {
					if passes {
						reads = append(reads, x)
					}
					continue
				}
				// a helper (called directly, through a table or as a function value): it
				// writes the name map and/or substitutes, itself or in what it reaches
				callees, _ := p.Callees(x)
				helperWrites, helperReads := false, false
				for _, callee := range callees {
					if callee == nil || callee == fn || !region[callee] || isExp(callee) {
						continue
					}
					for _, h := range p.Reach(callee) {
						if h == fn {
							continue
						}
						for _, hb := range h.Blocks {
							for _, hi := range hb.Instrs {
								if mu, ok := hi.(*ssa.MapUpdate); ok && isNameMap(mu.Map) && !isExp(h) {
									helperWrites = true
								}
								if hc, ok := hi.(*ssa.Call); ok && isExp(hc.Call.StaticCallee()) && !isExp(h) {
									helperReads = true
								}
							}
						}
					}
				}
				if helperWrites {
					writes = append(writes, x)
				}
				if helperReads {
					reads = append(reads, x)
				}
			}
		}
	}
	for _, rd := range reads {
		ok := true
		for _, w := range writes {
			if w != rd && fc.canFollow(rd, w) {
				ok = false
			}
			if w == rd {
				ok = false // one helper both substitutes and defines names
			}
		}
		r.Ob("N-PHASE", funcName(fn), "substitution after the name map is complete", rd.Pos(), ok, true,
			ifs(ok, "no write of the name map can follow this substitution: names defined by later inserts are already known (forward references work)",
				"the name map can still be written after this substitution ran: a name defined by a later insert is not resolved here"))
	}
	if len(reads) == 0 || len(writes) == 0 {
		r.Anchor("N-PHASE", fmt.Sprintf("name map: %d write events, %d substitution reads", len(writes), len(reads)))
	}
}

// ruleNPos: the decision to expand a position depends only on that position's type.
func ruleNPos(p *Program, r *Reporter) {
	const id = "N-POS"
	fn := p.Fn("ovsdb", "", "expandNamedUUID")
	atomic := p.Fn("ovsdb", "", "expandNamedUUIDAtomic")
	if fn == nil || atomic == nil {
		r.Anchor(id, "ovsdb.expandNamedUUID / expandNamedUUIDAtomic")
		return
	}
	// type variables: locals of type ExtendedType assigned from the column type (keyType, valType)
	isTypeVar := func(v ssa.Value) (ssa.Value, bool) {
		// normalise loads of an Alloc to the Alloc; phis stay themselves
		if ld, ok := v.(*ssa.UnOp); ok && ld.Op == token.MUL {
			if al, ok := ld.X.(*ssa.Alloc); ok {
				return al, true
			}
		}
		if _, ok := v.(*ssa.Phi); ok {
			return v, true
		}
		return nil, false
	}
	n := 0
	for _, b := range fn.Blocks {
		for _, ins := range b.Instrs {
			c, ok := ins.(*ssa.Call)
			if !ok || c.Call.StaticCallee() != atomic {
				continue
			}
			n++
			tv, isVar := isTypeVar(c.Call.Args[0])
			if !isVar {
				r.Ob(id, funcName(fn), "expansion guard", c.Pos(), true, false, "position type is not a local variable")
				continue
			}
			var foreign []string
			for _, f := range factsAt(b) {
				cond, truth := normFact(f)
				bo, isBo := cond.(*ssa.BinOp)
				if !isBo || (bo.Op != token.EQL && bo.Op != token.NEQ) {
					continue
				}
				// only a positive requirement on the other position ("the other one is a uuid") counts
				if (bo.Op == token.EQL) != truth {
					continue
				}
				for _, side := range []ssa.Value{bo.X, bo.Y} {
					if ov, ok := isTypeVar(side); ok && ov != tv {
						if types.Identical(side.Type(), c.Call.Args[0].Type()) {
							foreign = append(foreign, p.Pos(bo.Pos()))
						}
					}
				}
			}
			ok2 := len(foreign) == 0
			r.Ob(id, funcName(fn), "expansion guard", c.Pos(), ok2, true,
				ifs(ok2, "whether this position is expanded depends only on its own type",
					fmt.Sprintf("this position is only expanded when another position's type passes the test at %v: a map whose key is a uuid and whose value is not (or vice versa) keeps its named UUIDs", foreign)))
		}
	}
	if n < 4 {
		r.Anchor(id, fmt.Sprintf("expandNamedUUID: %d atomic expansion calls, expected >= 4", n))
	}
}

// ruleGGate: named-UUID expansion (which also rejects unknown tables and columns)
// precedes every operation dispatch in Transaction.Transact, with its error checked.
func ruleGGate(p *Program, r *Reporter) {
	const id = "G-GATE"
	fn := p.Fn("database/transaction", "Transaction", "Transact")
	exp := p.Fn("ovsdb", "", "ExpandNamedUUIDs")
	if fn == nil || exp == nil {
		r.Anchor(id, "Transaction.Transact / ovsdb.ExpandNamedUUIDs")
		return
	}
	dispatch := map[string]bool{"Insert": true, "Select": true, "Update": true, "Mutate": true, "Delete": true, "Wait": true}
	n := 0
	region := p.PrivateRegion(fn)
	ci := getCallIndex(p)
	// gated: the call is dominated by a checked expansion in its own function, or its
	// function is a private helper of Transact all of whose call sites are gated
	gates := gateWrappers(exp, region)
	var gated func(g *ssa.Function, c *ssa.Call, depth int) bool
	gated = func(g *ssa.Function, c *ssa.Call, depth int) bool {
		for _, gate := range gates {
			if dominatedByCheckedCall(g, c, gate, func(*ssa.Call) bool { return true }) {
				return true
			}
		}
		if g == fn || depth > 4 || !region[g] {
			return false
		}
		sites := ci.sites[g]
		if len(sites) == 0 {
			return false
		}
		for _, s := range sites {
			sc, ok := s.instr.(*ssa.Call)
			if !ok || !region[s.caller] || !gated(s.caller, sc, depth+1) {
				return false
			}
		}
		return true
	}
	var fns []*ssa.Function
	for g := range region {
		fns = append(fns, g)
	}
	sort.Slice(fns, func(i, j int) bool { return fns[i].Pos() < fns[j].Pos() })
	for _, g := range fns {
		for _, b := range g.Blocks {
			for _, ins := range b.Instrs {
				c, ok := ins.(*ssa.Call)
				if !ok {
					continue
				}
				sc := c.Call.StaticCallee()
				if sc == nil || !dispatch[sc.Name()] || sc.Signature.Recv() == nil || !isNamed(sc.Signature.Recv().Type(), repoMod+"/database/transaction", "Transaction") {
					continue
				}
				n++
				ok2 := gated(g, c, 0)
				r.Ob(id, funcName(fn), "dispatch "+sc.Name(), c.Pos(), ok2, true,
					ifs(ok2, "dominated by a checked ExpandNamedUUIDs (unknown tables/columns already rejected, names resolved)",
						sc.Name()+" can run before / without a successful ExpandNamedUUIDs: unknown tables or columns reach code that dereferences their schema"))
			}
		}
	}
	if n < 6 {
		r.Anchor(id, fmt.Sprintf("Transact dispatches %d table operations, expected 6", n))
	}
}

// gateWrappers: the gate function and the private helpers that cannot report
// success without it having succeeded: every return of such a helper hands back
// the error of a gate call, is dominated by a checked gate call, or returns an
// error that was just created.
func gateWrappers(gate *ssa.Function, region map[*ssa.Function]bool) []*ssa.Function {
	errT := types.Universe.Lookup("error").Type()
	out := []*ssa.Function{gate}
	isGate := func(f *ssa.Function) bool {
		for _, g := range out {
			if g == f {
				return true
			}
		}
		return false
	}
	var fns []*ssa.Function
	for g := range region {
		fns = append(fns, g)
	}
	sort.Slice(fns, func(i, j int) bool { return fns[i].Pos() < fns[j].Pos() })
	for round := 0; round < 3; round++ {
		for _, g := range fns {
			if isGate(g) || g.Parent() != nil || len(g.Blocks) == 0 {
				continue
			}
			res := g.Signature.Results()
			if res.Len() == 0 || !types.Identical(res.At(res.Len()-1).Type(), errT) {
				continue
			}
			calls := false
			ok := true
			for _, b := range g.Blocks {
				ret, isRet := b.Instrs[len(b.Instrs)-1].(*ssa.Return)
				if !isRet {
					continue
				}
				ev := ret.Results[len(ret.Results)-1]
				good := false
				switch x := ev.(type) {
				case *ssa.Extract:
					if c, isC := x.Tuple.(*ssa.Call); isC && isGate(c.Call.StaticCallee()) {
						good, calls = true, true
					}
				case *ssa.Call:
					if sc := x.Call.StaticCallee(); sc != nil {
						if isGate(sc) {
							good, calls = true, true
						} else if sc.Pkg != nil && (sc.Pkg.Pkg.Path() == "fmt" && sc.Name() == "Errorf" || sc.Pkg.Pkg.Path() == "errors" && sc.Name() == "New") {
							good = true
						}
					}
				case *ssa.MakeInterface:
					good = true
				}
				if !good {
					// an error that has just been found set is handed back
					for _, f := range factsAt(b) {
						c, truth := normFact(f)
						if bo, ok := c.(*ssa.BinOp); ok && (bo.Op == token.NEQ || bo.Op == token.EQL) {
							var other ssa.Value
							if isNilConst(bo.Y) {
								other = bo.X
							} else if isNilConst(bo.X) {
								other = bo.Y
							}
							if other != nil && other == ev && (bo.Op == token.NEQ) == truth {
								good = true
							}
						}
					}
				}
				if !good {
					for _, gt := range out {
						for _, b2 := range g.Blocks {
							for _, i2 := range b2.Instrs {
								if c, isC := i2.(*ssa.Call); isC && c.Call.StaticCallee() == gt && b2.Dominates(b) && errCheckedBefore(c, ret) {
									good, calls = true, true
								}
							}
						}
					}
				}
				if !good {
					ok = false
				}
			}
			if ok && calls {
				out = append(out, g)
			}
		}
	}
	return out
}
