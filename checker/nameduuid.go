package main

import (
	"fmt"
	"go/token"
	"go/types"

	"golang.org/x/tools/go/ssa"
)

// C15 — named UUID expansion: coverage of value-carrying members, two-phase
// discipline of the name map, position-local guards, gate before dispatch.

// carriesValue: a type that (within three levels) contains an empty interface,
// i.e. can hold a wire value in which a named UUID may occur.
func carriesValue(t types.Type, depth int) bool {
	if depth > 4 {
		return false
	}
	switch u := t.Underlying().(type) {
	case *types.Interface:
		return u.NumMethods() == 0
	case *types.Map:
		return carriesValue(u.Elem(), depth+1) || carriesValue(u.Key(), depth+1)
	case *types.Slice:
		return carriesValue(u.Elem(), depth+1)
	case *types.Struct:
		for i := 0; i < u.NumFields(); i++ {
			if carriesValue(u.Field(i).Type(), depth+1) {
				return true
			}
		}
	}
	return false
}

// derivesFromField: v is computed from a load of field fld (through ranges, lookups, index, loads).
func derivesFromField(v ssa.Value, fld *types.Var, depth int) bool {
	if depth > 12 || v == nil {
		return false
	}
	switch x := v.(type) {
	case *ssa.Alloc:
		if refs := x.Referrers(); refs != nil {
			for _, ref := range *refs {
				if st, ok := ref.(*ssa.Store); ok && st.Addr == x && derivesFromField(st.Val, fld, depth+1) {
					return true
				}
			}
		}
		return false
	case *ssa.FieldAddr:
		if fieldOfAddr(x) == fld {
			return true
		}
		return derivesFromField(x.X, fld, depth+1)
	case *ssa.Field:
		if st, ok := x.X.Type().Underlying().(*types.Struct); ok && st.Field(x.Field) == fld {
			return true
		}
		return derivesFromField(x.X, fld, depth+1)
	case *ssa.UnOp:
		return derivesFromField(x.X, fld, depth+1)
	case *ssa.IndexAddr:
		return derivesFromField(x.X, fld, depth+1)
	case *ssa.Index:
		return derivesFromField(x.X, fld, depth+1)
	case *ssa.Lookup:
		return derivesFromField(x.X, fld, depth+1)
	case *ssa.Extract:
		return derivesFromField(x.Tuple, fld, depth+1)
	case *ssa.Next:
		return derivesFromField(x.Iter, fld, depth+1)
	case *ssa.Range:
		return derivesFromField(x.X, fld, depth+1)
	case *ssa.Phi:
		for _, e := range x.Edges {
			if derivesFromField(e, fld, depth+1) {
				return true
			}
		}
	case *ssa.Slice:
		return derivesFromField(x.X, fld, depth+1)
	}
	return false
}

func ruleN(p *Program, r *Reporter) {
	const id = "N-COVER"
	fn := p.Fn("ovsdb", "", "ExpandNamedUUIDs")
	opT := p.LookupType("ovsdb", "Operation")
	expCol := p.Fn("ovsdb", "", "expandColumnNamedUUIDs")
	if fn == nil || opT == nil {
		r.Anchor(id, "ovsdb.ExpandNamedUUIDs / ovsdb.Operation")
		return
	}
	st := opT.Underlying().(*types.Struct)
	// calls that expand one value: expandColumnNamedUUIDs or expandNamedUUID
	var expCalls []*ssa.Call
	for _, b := range fn.Blocks {
		for _, ins := range b.Instrs {
			if c, ok := ins.(*ssa.Call); ok {
				if sc := c.Call.StaticCallee(); sc != nil && (sc == expCol || sc.Name() == "expandNamedUUID") {
					expCalls = append(expCalls, c)
				}
			}
		}
	}
	if len(expCalls) == 0 {
		r.Anchor(id, "no expansion call in ExpandNamedUUIDs")
		return
	}
	storedBack := func(c *ssa.Call) bool {
		// the expanded value (result 0) reaches a MapUpdate value or a Store
		var res []ssa.Value
		if _, isTuple := c.Type().(*types.Tuple); isTuple {
			if refs := c.Referrers(); refs != nil {
				for _, ref := range *refs {
					if ex, ok := ref.(*ssa.Extract); ok && ex.Index == 0 {
						res = append(res, ex)
					}
				}
			}
		} else {
			res = append(res, c)
		}
		for _, v := range res {
			if refs := v.Referrers(); refs != nil {
				for _, ref := range *refs {
					switch u := ref.(type) {
					case *ssa.MapUpdate:
						if u.Value == v {
							return true
						}
					case *ssa.Store:
						if u.Val == v {
							return true
						}
					}
				}
			}
		}
		return false
	}
	for i := 0; i < st.NumFields(); i++ {
		f := st.Field(i)
		if !carriesValue(f.Type(), 0) {
			continue
		}
		covered, stored := false, false
		var pos token.Pos = fn.Pos()
		for _, c := range expCalls {
			// the value argument (or the key/column argument) derives from this member
			for _, a := range c.Call.Args {
				if derivesFromField(a, f, 0) {
					covered = true
					pos = c.Pos()
					if storedBack(c) {
						stored = true
					}
				}
			}
		}
		ok := covered && stored
		why := "every value of Operation." + f.Name() + " is passed through the expansion and stored back"
		if !covered {
			why = "Operation." + f.Name() + " can carry values but is never passed to the named-UUID expansion: a name used there is sent to the database unresolved"
		} else if !stored {
			why = "the expansion result for Operation." + f.Name() + " is not stored back into the operation"
		}
		r.Ob(id, funcName(fn), "member "+f.Name(), pos, ok, true, why)
	}
	// N-PHASE: all writes of the name map precede all reads
	var nameMap *ssa.MakeMap
	for _, b := range fn.Blocks {
		for _, ins := range b.Instrs {
			if mm, ok := ins.(*ssa.MakeMap); ok {
				if m, ok := mm.Type().Underlying().(*types.Map); ok && types.Identical(m.Key(), types.Typ[types.String]) && types.Identical(m.Elem(), types.Typ[types.String]) {
					nameMap = mm
				}
			}
		}
	}
	if nameMap == nil {
		r.Anchor("N-PHASE", "name map in ExpandNamedUUIDs")
		return
	}
	fc := newFlowCtx(fn)
	var writes, reads []ssa.Instruction
	if refs := nameMap.Referrers(); refs != nil {
		for _, ref := range *refs {
			switch u := ref.(type) {
			case *ssa.MapUpdate:
				writes = append(writes, u)
			case *ssa.Call:
				// passed to the substitution
				reads = append(reads, u)
			case *ssa.Lookup:
				// the duplicate-name test of pass 1 reads the map while building it: that read
				// is part of the build phase when it controls a write (same loop body)
				reads = append(reads, u)
			}
		}
	}
	nSubst := 0
	for _, rd := range reads {
		c, isCall := rd.(*ssa.Call)
		if !isCall {
			continue
		}
		nSubst++
		ok := true
		for _, w := range writes {
			if fc.canFollow(rd, w) {
				ok = false
			}
		}
		r.Ob("N-PHASE", funcName(fn), "substitution after the name map is complete", c.Pos(), ok, true,
			ifs(ok, "no write of the name map can follow this substitution: names defined by later inserts are already known (forward references work)",
				"the name map can still be written after this substitution ran: a name defined by a later insert is not resolved here"))
	}
	if nSubst == 0 || len(writes) == 0 {
		r.Anchor("N-PHASE", fmt.Sprintf("name map: %d writes, %d substitution reads", len(writes), nSubst))
	}
	ruleNPos(p, r)
	ruleGGate(p, r)
}

// ruleNPos: the decision to expand a position depends only on that position's type.
func ruleNPos(p *Program, r *Reporter) {
	const id = "N-POS"
	fn := p.Fn("ovsdb", "", "expandNamedUUID")
	atomic := p.Fn("ovsdb", "", "expandNamedUUIDAtomic")
	if fn == nil || atomic == nil {
		r.Anchor(id, "ovsdb.expandNamedUUID / expandNamedUUIDAtomic")
		return
	}
	// type variables: locals of type ExtendedType assigned from the column type (keyType, valType)
	isTypeVar := func(v ssa.Value) (ssa.Value, bool) {
		// normalise loads of an Alloc to the Alloc; phis stay themselves
		if ld, ok := v.(*ssa.UnOp); ok && ld.Op == token.MUL {
			if al, ok := ld.X.(*ssa.Alloc); ok {
				return al, true
			}
		}
		if _, ok := v.(*ssa.Phi); ok {
			return v, true
		}
		return nil, false
	}
	n := 0
	for _, b := range fn.Blocks {
		for _, ins := range b.Instrs {
			c, ok := ins.(*ssa.Call)
			if !ok || c.Call.StaticCallee() != atomic {
				continue
			}
			n++
			tv, isVar := isTypeVar(c.Call.Args[0])
			if !isVar {
				r.Ob(id, funcName(fn), "expansion guard", c.Pos(), true, false, "position type is not a local variable")
				continue
			}
			var foreign []string
			for _, f := range factsAt(b) {
				cond, truth := normFact(f)
				bo, isBo := cond.(*ssa.BinOp)
				if !isBo || (bo.Op != token.EQL && bo.Op != token.NEQ) {
					continue
				}
				// only a positive requirement on the other position ("the other one is a uuid") counts
				if (bo.Op == token.EQL) != truth {
					continue
				}
				for _, side := range []ssa.Value{bo.X, bo.Y} {
					if ov, ok := isTypeVar(side); ok && ov != tv {
						if types.Identical(side.Type(), c.Call.Args[0].Type()) {
							foreign = append(foreign, p.Pos(bo.Pos()))
						}
					}
				}
			}
			ok2 := len(foreign) == 0
			r.Ob(id, funcName(fn), "expansion guard", c.Pos(), ok2, true,
				ifs(ok2, "whether this position is expanded depends only on its own type",
					fmt.Sprintf("this position is only expanded when another position's type passes the test at %v: a map whose key is a uuid and whose value is not (or vice versa) keeps its named UUIDs", foreign)))
		}
	}
	if n < 4 {
		r.Anchor(id, fmt.Sprintf("expandNamedUUID: %d atomic expansion calls, expected >= 4", n))
	}
}

// ruleGGate: named-UUID expansion (which also rejects unknown tables and columns)
// precedes every operation dispatch in Transaction.Transact, with its error checked.
func ruleGGate(p *Program, r *Reporter) {
	const id = "G-GATE"
	fn := p.Fn("database/transaction", "Transaction", "Transact")
	exp := p.Fn("ovsdb", "", "ExpandNamedUUIDs")
	if fn == nil || exp == nil {
		r.Anchor(id, "Transaction.Transact / ovsdb.ExpandNamedUUIDs")
		return
	}
	dispatch := map[string]bool{"Insert": true, "Select": true, "Update": true, "Mutate": true, "Delete": true, "Wait": true}
	n := 0
	for _, b := range fn.Blocks {
		for _, ins := range b.Instrs {
			c, ok := ins.(*ssa.Call)
			if !ok {
				continue
			}
			sc := c.Call.StaticCallee()
			if sc == nil || !dispatch[sc.Name()] || sc.Signature.Recv() == nil || !isNamed(sc.Signature.Recv().Type(), repoMod+"/database/transaction", "Transaction") {
				continue
			}
			n++
			ok2 := dominatedByCheckedCall(fn, c, exp, func(*ssa.Call) bool { return true })
			r.Ob(id, funcName(fn), "dispatch "+sc.Name(), c.Pos(), ok2, true,
				ifs(ok2, "dominated by a checked ExpandNamedUUIDs (unknown tables/columns already rejected, names resolved)",
					sc.Name()+" can run before / without a successful ExpandNamedUUIDs: unknown tables or columns reach code that dereferences their schema"))
		}
	}
	if n < 6 {
		r.Anchor(id, fmt.Sprintf("Transact dispatches %d table operations, expected 6", n))
	}
}
