package main

import (
	"fmt"
	"go/ast"
	"go/token"
	"go/types"
	"os"
	"path/filepath"
	"sort"
	"strings"

	"golang.org/x/tools/go/packages"
	"golang.org/x/tools/go/ssa"
	"golang.org/x/tools/go/ssa/ssautil"
)

const repoMod = "github.com/ovn-org/libovsdb"

var repoDir = "/repo"

// analysedPkgs is the set of non-test packages of the module that type-check
// on the pinned tree (DESIGN.md §2). The loader asserts the count.
var analysedPkgs = []string{
	"cache", "client", "cmd/modelgen", "cmd/print_schema", "cmd/stress",
	"database", "database/inmemory", "database/transaction", "mapper", "model",
	"modelgen", "ovsdb", "ovsdb/serverdb", "server", "test", "updates",
}

// Program is the resolved program: type-checked syntax and SSA of the
// analysed packages.
type Program struct {
	Fset    *token.FileSet
	Pkgs    map[string]*packages.Package // key: path relative to module ("cache")
	SSA     *ssa.Program
	SSAPkgs map[string]*ssa.Package
	Files   map[string][]byte // overlay used for this load (abs path -> src)

	funcDecls map[*types.Func]*ast.FuncDecl
	declPkg   map[*types.Func]*packages.Package
	namedAll  []*types.Named // all named types declared in analysed packages
	implCache map[*types.Interface][]types.Type
	srcFuncs  []*ssa.Function // all functions (incl. anonymous) with repo syntax
	NFuncs    int
}

// Load type-checks the analysed packages of /repo's working tree (with an
// optional overlay) and builds SSA for them.
func Load(overlay map[string][]byte) (*Program, error) {
	os.Unsetenv("GOWORK")
	env := append(os.Environ(), "GOFLAGS=-mod=mod", "GOPROXY=off", "GOSUMDB=off", "GOTOOLCHAIN=local", "GOWORK=off")
	fset := token.NewFileSet()
	cfg := &packages.Config{
		Mode:    packages.LoadAllSyntax,
		Dir:     repoDir,
		Fset:    fset,
		Env:     env,
		Overlay: overlay,
		Tests:   false,
	}
	var patterns []string
	for _, p := range analysedPkgs {
		patterns = append(patterns, "./"+p)
	}
	pkgs, err := packages.Load(cfg, patterns...)
	if err != nil {
		return nil, fmt.Errorf("load: %v", err)
	}
	if len(pkgs) != len(analysedPkgs) {
		return nil, fmt.Errorf("load: expected %d packages, got %d", len(analysedPkgs), len(pkgs))
	}
	p := &Program{Fset: fset, Pkgs: map[string]*packages.Package{}, SSAPkgs: map[string]*ssa.Package{},
		funcDecls: map[*types.Func]*ast.FuncDecl{}, declPkg: map[*types.Func]*packages.Package{},
		implCache: map[*types.Interface][]types.Type{}, Files: overlay}
	for _, pk := range pkgs {
		if len(pk.Errors) > 0 {
			var msgs []string
			for _, e := range pk.Errors {
				msgs = append(msgs, e.Error())
			}
			return nil, fmt.Errorf("package %s has errors: %s", pk.PkgPath, strings.Join(msgs, "; "))
		}
		if pk.Types == nil || pk.TypesInfo == nil || len(pk.Syntax) == 0 {
			return nil, fmt.Errorf("package %s not loaded with syntax", pk.PkgPath)
		}
		rel := strings.TrimPrefix(strings.TrimPrefix(pk.PkgPath, repoMod), "/")
		p.Pkgs[rel] = pk
	}
	for _, rel := range analysedPkgs {
		if p.Pkgs[rel] == nil {
			return nil, fmt.Errorf("package %s missing from load", rel)
		}
	}
	prog, spkgs := ssautil.Packages(pkgs, ssa.InstantiateGenerics)
	for i, sp := range spkgs {
		if sp == nil {
			return nil, fmt.Errorf("no SSA for %s", pkgs[i].PkgPath)
		}
	}
	prog.Build()
	p.SSA = prog
	for i, pk := range pkgs {
		rel := strings.TrimPrefix(strings.TrimPrefix(pk.PkgPath, repoMod), "/")
		p.SSAPkgs[rel] = spkgs[i]
	}
	// index declarations
	for _, pk := range p.Pkgs {
		for _, f := range pk.Syntax {
			for _, d := range f.Decls {
				if fd, ok := d.(*ast.FuncDecl); ok {
					if obj, ok := pk.TypesInfo.Defs[fd.Name].(*types.Func); ok {
						p.funcDecls[obj] = fd
						p.declPkg[obj] = pk
					}
				}
			}
		}
		sc := pk.Types.Scope()
		for _, n := range sc.Names() {
			if tn, ok := sc.Lookup(n).(*types.TypeName); ok && !tn.IsAlias() {
				if nt, ok := tn.Type().(*types.Named); ok {
					p.namedAll = append(p.namedAll, nt)
				}
			}
		}
	}
	sort.Slice(p.namedAll, func(i, j int) bool { return p.namedAll[i].String() < p.namedAll[j].String() })
	// all source functions of analysed packages
	for fn := range ssautil.AllFunctions(prog) {
		if fn.Pkg == nil && fn.Parent() == nil && fn.Origin() == nil {
			// wrappers / bound thunks: skip
			continue
		}
		if p.inRepo(fn) && fn.Blocks != nil && fn.Synthetic == "" {
			p.srcFuncs = append(p.srcFuncs, fn)
		}
	}
	sort.Slice(p.srcFuncs, func(i, j int) bool {
		a, b := p.srcFuncs[i], p.srcFuncs[j]
		if a.Pos() != b.Pos() {
			return a.Pos() < b.Pos()
		}
		return a.String() < b.String()
	})
	p.NFuncs = len(p.srcFuncs)
	p.indexFieldOwners()
	return p, nil
}

func (p *Program) inRepo(fn *ssa.Function) bool {
	for fn.Parent() != nil {
		fn = fn.Parent()
	}
	if fn.Pkg == nil {
		if o := fn.Origin(); o != nil && o.Pkg != nil {
			fn = o
		} else {
			return false
		}
	}
	path := fn.Pkg.Pkg.Path()
	rel := strings.TrimPrefix(strings.TrimPrefix(path, repoMod), "/")
	_, ok := p.Pkgs[rel]
	return ok && strings.HasPrefix(path, repoMod)
}

// Pos renders a position relative to the repository root.
func (p *Program) Pos(pos token.Pos) string {
	if !pos.IsValid() {
		return "?:0"
	}
	ps := p.Fset.Position(pos)
	rel, err := filepath.Rel(repoDir, ps.Filename)
	if err != nil {
		rel = ps.Filename
	}
	return fmt.Sprintf("%s:%d", rel, ps.Line)
}

// LookupFunc resolves "pkgrel", "Recv" (may be "" or "*T"/"T"), "name".
func (p *Program) LookupFunc(pkgrel, recv, name string) *types.Func {
	pk := p.Pkgs[pkgrel]
	if pk == nil {
		return nil
	}
	if recv == "" {
		if f, ok := pk.Types.Scope().Lookup(name).(*types.Func); ok {
			return f
		}
		return nil
	}
	tn, ok := pk.Types.Scope().Lookup(strings.TrimPrefix(recv, "*")).(*types.TypeName)
	if !ok {
		return nil
	}
	obj, _, _ := types.LookupFieldOrMethod(types.NewPointer(tn.Type()), true, pk.Types, name)
	if f, ok := obj.(*types.Func); ok {
		return f
	}
	return nil
}

// SSAFunc returns the SSA function for a types.Func declared in the repo.
func (p *Program) SSAFunc(f *types.Func) *ssa.Function {
	if f == nil {
		return nil
	}
	return p.SSA.FuncValue(f)
}

// Fn resolves and returns the SSA function; nil if not found.
func (p *Program) Fn(pkgrel, recv, name string) *ssa.Function {
	return p.SSAFunc(p.LookupFunc(pkgrel, recv, name))
}

func (p *Program) Decl(f *types.Func) (*ast.FuncDecl, *packages.Package) {
	return p.funcDecls[f], p.declPkg[f]
}

// LookupType returns the named type pkgrel.name.
func (p *Program) LookupType(pkgrel, name string) *types.Named {
	pk := p.Pkgs[pkgrel]
	if pk == nil {
		return nil
	}
	if tn, ok := pk.Types.Scope().Lookup(name).(*types.TypeName); ok {
		if nt, ok := tn.Type().(*types.Named); ok {
			return nt
		}
	}
	return nil
}

// Field returns the field object pkgrel.Type.field
func (p *Program) Field(pkgrel, typ, field string) *types.Var {
	nt := p.LookupType(pkgrel, typ)
	if nt == nil {
		return nil
	}
	st, ok := nt.Underlying().(*types.Struct)
	if !ok {
		return nil
	}
	for i := 0; i < st.NumFields(); i++ {
		if st.Field(i).Name() == field {
			return st.Field(i)
		}
	}
	return nil
}

// Implementers lists the repo types (T or *T) whose method set satisfies iface.
func (p *Program) Implementers(iface *types.Interface) []types.Type {
	if r, ok := p.implCache[iface]; ok {
		return r
	}
	var out []types.Type
	for _, nt := range p.namedAll {
		if _, isIface := nt.Underlying().(*types.Interface); isIface {
			continue
		}
		if nt.TypeParams().Len() > 0 {
			continue
		}
		if types.Implements(nt, iface) {
			out = append(out, nt)
		} else if pt := types.NewPointer(nt); types.Implements(pt, iface) {
			out = append(out, pt)
		}
	}
	p.implCache[iface] = out
	return out
}

// Callees resolves a call to repo functions: the static callee, or for an
// interface invoke every repo implementation (class-hierarchy over the
// analysed packages). ok=false when the callee is a dynamic function value.
func (p *Program) Callees(c ssa.CallInstruction) (fns []*ssa.Function, ok bool) {
	cc := c.Common()
	if cc.IsInvoke() {
		iface, _ := cc.Value.Type().Underlying().(*types.Interface)
		if iface == nil {
			return nil, false
		}
		for _, t := range p.Implementers(iface) {
			ms := p.SSA.MethodSets.MethodSet(t)
			sel := ms.Lookup(cc.Method.Pkg(), cc.Method.Name())
			if sel == nil {
				continue
			}
			if fn := p.SSA.MethodValue(sel); fn != nil {
				fns = append(fns, fn)
			}
		}
		return fns, true
	}
	if fn := cc.StaticCallee(); fn != nil {
		return []*ssa.Function{fn}, true
	}
	// a function looked up in a package-level dispatch table
	if g := dispatchTable(cc.Value); g != nil {
		if es := p.tableFuncs(g); len(es) > 0 {
			for _, e := range es {
				fns = append(fns, e.fn)
			}
			return fns, true
		}
	}
	// a function value: closure, local variable, slice table, function-typed parameter
	if fv := p.funcValues(cc.Value, 0, true); len(fv) > 0 {
		seen := map[*ssa.Function]bool{}
		for _, f := range fv {
			if !seen[f] {
				seen[f] = true
				fns = append(fns, f)
			}
		}
		return fns, true
	}
	return nil, false
}

// tableFuncs: the function values stored by the package initialiser into the
// map held by a package-level variable (a dispatch table such as
// `var senders = map[kind]func(...){k1: f1, ...}`), with their constant keys.
type tableEntry struct {
	key *ssa.Const
	fn  *ssa.Function
}

func (p *Program) tableFuncs(g *ssa.Global) []tableEntry {
	if g == nil || g.Pkg == nil {
		return nil
	}
	ini := g.Pkg.Func("init")
	if ini == nil {
		return nil
	}
	var maps []ssa.Value
	for _, b := range ini.Blocks {
		for _, ins := range b.Instrs {
			if st, ok := ins.(*ssa.Store); ok && st.Addr == ssa.Value(g) {
				maps = append(maps, st.Val)
			}
		}
	}
	var out []tableEntry
	funcOf := func(v ssa.Value) *ssa.Function {
		for i := 0; i < 4; i++ {
			switch x := v.(type) {
			case *ssa.Function:
				return x
			case *ssa.MakeClosure:
				f, _ := x.Fn.(*ssa.Function)
				return f
			case *ssa.ChangeType:
				v = x.X
			case *ssa.MakeInterface:
				v = x.X
			default:
				return nil
			}
		}
		return nil
	}
	for _, b := range ini.Blocks {
		for _, ins := range b.Instrs {
			mu, ok := ins.(*ssa.MapUpdate)
			if !ok {
				continue
			}
			for _, m := range maps {
				if mu.Map == m {
					if f := funcOf(mu.Value); f != nil {
						k, _ := mu.Key.(*ssa.Const)
						out = append(out, tableEntry{k, f})
					}
				}
			}
		}
	}
	return out
}

// tableConsts: constant key -> constant value pairs stored by the package
// initialiser into the map held by a package-level variable.
func (p *Program) tableConsts(g *ssa.Global) map[string]*ssa.Const {
	out := map[string]*ssa.Const{}
	if g == nil || g.Pkg == nil {
		return out
	}
	ini := g.Pkg.Func("init")
	if ini == nil {
		return out
	}
	var maps []ssa.Value
	for _, b := range ini.Blocks {
		for _, ins := range b.Instrs {
			if st, ok := ins.(*ssa.Store); ok && st.Addr == ssa.Value(g) {
				maps = append(maps, st.Val)
			}
		}
	}
	for _, b := range ini.Blocks {
		for _, ins := range b.Instrs {
			mu, ok := ins.(*ssa.MapUpdate)
			if !ok {
				continue
			}
			for _, m := range maps {
				if mu.Map != m {
					continue
				}
				k, ok1 := mu.Key.(*ssa.Const)
				v, ok2 := mu.Value.(*ssa.Const)
				if ok1 && ok2 && k.Value != nil {
					out[k.Value.ExactString()] = v
				}
			}
		}
	}
	return out
}

// dispatchTable: when v is the result of looking a key up in the map of a
// package-level variable, that variable.
func dispatchTable(v ssa.Value) *ssa.Global {
	for i := 0; i < 4; i++ {
		switch x := v.(type) {
		case *ssa.Extract:
			v = x.Tuple
		case *ssa.Lookup:
			v = x.X
		case *ssa.UnOp:
			g, _ := x.X.(*ssa.Global)
			return g
		default:
			return nil
		}
	}
	return nil
}

// funcName gives a stable, human readable name: "client.(*ovsdbClient).monitor".
func funcName(fn *ssa.Function) string {
	if fn == nil {
		return "<nil>"
	}
	s := fn.String()
	s = strings.ReplaceAll(s, repoMod+"/", "")
	return s
}

func typesFuncName(f *types.Func) string {
	s := f.FullName()
	return strings.ReplaceAll(s, repoMod+"/", "")
}

// isNamed reports whether t (possibly through one pointer) is the named type pkgpath.name
func isNamed(t types.Type, pkgpath, name string) bool {
	if pt, ok := t.(*types.Pointer); ok {
		t = pt.Elem()
	}
	nt, ok := t.(*types.Named)
	if !ok {
		return false
	}
	o := nt.Obj()
	return o.Name() == name && o.Pkg() != nil && o.Pkg().Path() == pkgpath
}

func deref(t types.Type) types.Type {
	if pt, ok := t.Underlying().(*types.Pointer); ok {
		return pt.Elem()
	}
	return t
}

// enclosingFuncName for AST positions
func (p *Program) fileOf(pk *packages.Package, pos token.Pos) *ast.File {
	for _, f := range pk.Syntax {
		if f.Pos() <= pos && pos <= f.End() {
			return f
		}
	}
	return nil
}

func sortedKeys[V any](m map[string]V) []string {
	var ks []string
	for k := range m {
		ks = append(ks, k)
	}
	sort.Strings(ks)
	return ks
}

// Reach returns root, its nested closures, and the functions of the same
// package it reaches through static calls (transitively), in a stable order.
// Rules that speak about "what function F does" use this region instead of
// F's body alone, so that extracting part of F into a helper does not hide it.
func (p *Program) Reach(roots ...*ssa.Function) []*ssa.Function {
	seen := map[*ssa.Function]bool{}
	var out []*ssa.Function
	var work []*ssa.Function
	for _, r := range roots {
		if r != nil && !seen[r] {
			seen[r] = true
			work = append(work, r)
		}
	}
	pkgs := map[string]bool{}
	for _, r := range roots {
		if r != nil {
			pkgs[pkgOf(r)] = true
		}
	}
	for len(work) > 0 {
		fn := work[0]
		work = work[1:]
		out = append(out, fn)
		add := func(g *ssa.Function) {
			if g != nil && !seen[g] && g.Blocks != nil && (pkgs[pkgOf(g)] || pkgOf(g) == "" && g.Synthetic != "") {
				seen[g] = true
				work = append(work, g)
			}
		}
		for _, an := range fn.AnonFuncs {
			add(an)
		}
		for _, b := range fn.Blocks {
			for _, ins := range b.Instrs {
				if ci, ok := ins.(ssa.CallInstruction); ok {
					add(ci.Common().StaticCallee())
					if ci.Common().StaticCallee() == nil && !ci.Common().IsInvoke() {
						if fns, ok := p.Callees(ci); ok {
							for _, f := range fns {
								add(f)
							}
						}
					}
				}
			}
		}
	}
	return out
}

// PrivateRegion returns the roots, their closures, and the unexported
// same-package functions that are called only from inside the region (their
// private helpers). Used for "only these operations may ..." rules.
func (p *Program) PrivateRegion(roots ...*ssa.Function) map[*ssa.Function]bool {
	region := map[*ssa.Function]bool{}
	for _, r := range roots {
		if r != nil {
			region[r] = true
		}
	}
	ci := getCallIndex(p)
	for changed := true; changed; {
		changed = false
		for fn := range region {
			for _, an := range fn.AnonFuncs {
				if !region[an] {
					region[an] = true
					changed = true
				}
			}
			for _, b := range fn.Blocks {
				for _, ins := range b.Instrs {
					c, ok := ins.(ssa.CallInstruction)
					if !ok {
						continue
					}
					g := c.Common().StaticCallee()
					if g == nil || region[g] || g.Blocks == nil || pkgOf(g) != pkgOf(fn) || g.Parent() != nil {
						continue
					}
					if isExportedEntry(g) || ci.usedAsVal[g] {
						continue
					}
					private := true
					for _, s := range ci.sites[g] {
						top := s.caller
						if !region[top] {
							private = false
						}
					}
					if private {
						region[g] = true
						changed = true
					}
				}
			}
		}
	}
	return region
}

// bodyOf returns the syntax body of an SSA function (FuncDecl or FuncLit).
func bodyOf(fn *ssa.Function) (ast.Node, *types.Info) {
	if fn == nil || fn.Syntax() == nil {
		return nil, nil
	}
	var info *types.Info
	top := fn
	for top.Parent() != nil {
		top = top.Parent()
	}
	_ = top
	switch s := fn.Syntax().(type) {
	case *ast.FuncDecl:
		return s.Body, info
	case *ast.FuncLit:
		return s.Body, info
	}
	return nil, info
}

// regionBodies returns the syntax bodies (with their type info) of the region reached from the named function.
func (p *Program) regionBodies(pkgrel, recv, name string) (bodies []ast.Node, info *types.Info, root *ssa.Function) {
	root = p.Fn(pkgrel, recv, name)
	if root == nil {
		return nil, nil, nil
	}
	pk := p.Pkgs[pkgrel]
	for _, fn := range p.Reach(root) {
		if fn.Parent() != nil {
			continue // closures are inside their parent's body
		}
		if b, _ := bodyOf(fn); b != nil {
			bodies = append(bodies, b)
		}
	}
	return bodies, pk.TypesInfo, root
}
