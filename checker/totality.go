package main

import (
	"fmt"
	"go/token"
	"go/types"
	"sort"
	"strings"

	"golang.org/x/tools/go/ssa"
)

// E4 — totality obligations on input-reachable code.

// decoderScope: every UnmarshalJSON method of package ovsdb plus the
// functions of that package they reach by static calls / nested closures.
func decoderScope(p *Program) []*ssa.Function {
	inScope := map[*ssa.Function]bool{}
	var work []*ssa.Function
	for _, fn := range p.srcFuncs {
		if pkgOf(fn) == "ovsdb" && fn.Parent() == nil && fn.Name() == "UnmarshalJSON" && fn.Signature.Recv() != nil {
			inScope[fn] = true
			work = append(work, fn)
		}
	}
	for len(work) > 0 {
		fn := work[0]
		work = work[1:]
		add := func(g *ssa.Function) {
			if g != nil && !inScope[g] && g.Blocks != nil && pkgOf(g) == "ovsdb" && g.Name() != "UnmarshalJSON" {
				inScope[g] = true
				work = append(work, g)
			}
		}
		for _, an := range fn.AnonFuncs {
			add(an)
		}
		for _, b := range fn.Blocks {
			for _, ins := range b.Instrs {
				if ci, ok := ins.(ssa.CallInstruction); ok {
					add(ci.Common().StaticCallee())
				}
			}
		}
	}
	var out []*ssa.Function
	for fn := range inScope {
		out = append(out, fn)
	}
	sort.Slice(out, func(i, j int) bool { return out[i].Pos() < out[j].Pos() })
	return out
}

func typeStr(t types.Type) string {
	return strings.ReplaceAll(types.TypeString(t, nil), repoMod+"/", "")
}

func opndStr(v ssa.Value) string {
	n := v.Name()
	switch x := v.(type) {
	case *ssa.UnOp:
		if x.Op == token.MUL {
			return "*" + opndStr(x.X)
		}
	case *ssa.Alloc:
		if x.Comment != "" {
			return x.Comment
		}
	case *ssa.FieldAddr:
		st, _ := deref(x.X.Type()).Underlying().(*types.Struct)
		if st != nil {
			return opndStr(x.X) + "." + st.Field(x.Field).Name()
		}
	case *ssa.Field:
		st, _ := x.X.Type().Underlying().(*types.Struct)
		if st != nil {
			return opndStr(x.X) + "." + st.Field(x.Field).Name()
		}
	case *ssa.IndexAddr:
		if k, ok := constInt(x.Index); ok {
			return fmt.Sprintf("%s[%d]", opndStr(x.X), k)
		}
		return opndStr(x.X) + "[i]"
	case *ssa.Parameter:
		return x.Name()
	case *ssa.TypeAssert:
		return opndStr(x.X) + ".(" + typeStr(x.AssertedType) + ")"
	case *ssa.Extract:
		if ta, ok := x.Tuple.(*ssa.TypeAssert); ok && x.Index == 0 {
			return opndStr(ta.X) + ".(" + typeStr(ta.AssertedType) + ")"
		}
	case *ssa.Const:
		return x.String()
	}
	return n
}

// checkIndex discharges one index obligation.
func checkIndex(fc *flowCtx, x, idx ssa.Value, at ssa.Instruction) (bool, bool, string) {
	xt := x.Type().Underlying()
	if pt, ok := xt.(*types.Pointer); ok {
		xt = pt.Elem().Underlying()
	}
	if arr, ok := xt.(*types.Array); ok {
		if k, isC := constInt(idx); isC && k >= 0 && k < arr.Len() {
			return true, false, "constant index into fixed-size array"
		}
	}
	if k, isC := constInt(idx); isC {
		if k < 0 {
			return false, true, "negative constant index"
		}
		if ok, why := fc.lenAtLeast(x, k+1, at); ok {
			return true, true, why
		}
		return false, true, fmt.Sprintf("index %d on %s is not dominated by a test implying len >= %d on an equivalent operand", k, opndStr(x), k+1)
	}
	if ok, why := fc.indexBelowLen(idx, x, at); ok && nonNegative(idx, 0) {
		return true, true, why + ", non-negative induction variable"
	}
	if ok, why := fc.indexBelowLen(idx, x, at); ok && fc.factNonNeg(idx, at) {
		return true, true, why + ", and a dominating test that it is not negative"
	}
	// idx < K for a constant K (a loop over a fixed-size array) and len(x) >= K
	if k, ok := fc.constUpperBound(idx, at); ok && nonNegative(idx, 0) {
		if arr, isArr := xt.(*types.Array); isArr && k <= arr.Len() {
			return true, true, fmt.Sprintf("index bounded by the constant %d, the array has %d elements", k, arr.Len())
		}
		if ok2, why := fc.lenAtLeast(x, k, at); ok2 {
			return true, true, fmt.Sprintf("index bounded by the constant %d and %s", k, why)
		}
	}
	return false, true, fmt.Sprintf("variable index on %s without a dominating bound i < len on the same operand", opndStr(x))
}

func rulePIDX(p *Program, r *Reporter) {
	const id = "P-IDX"
	for _, fn := range decoderScope(p) {
		fc := newFlowCtx(fn)
		for _, b := range fn.Blocks {
			for _, ins := range b.Instrs {
				switch x := ins.(type) {
				case *ssa.IndexAddr:
					ok, nt, why := checkIndex(fc, x.X, x.Index, x)
					r.Ob(id, funcName(fn), "index "+opndStr(x), x.Pos(), ok, nt, why)
				case *ssa.Index:
					ok, nt, why := checkIndex(fc, x.X, x.Index, x)
					r.Ob(id, funcName(fn), "index "+opndStr(x.X)+"[.]", x.Pos(), ok, nt, why)
				case *ssa.Lookup:
					if bt, isB := x.X.Type().Underlying().(*types.Basic); isB && bt.Info()&types.IsString != 0 {
						ok, nt, why := checkIndex(fc, x.X, x.Index, x)
						r.Ob(id, funcName(fn), "string index "+opndStr(x.X), x.Pos(), ok, nt, why)
					}
				case *ssa.Slice:
					var need int64 = -1
					okc := true
					for _, bnd := range []ssa.Value{x.Low, x.High, x.Max} {
						if bnd == nil {
							continue
						}
						if k, isC := constInt(bnd); isC {
							if k > need {
								need = k
							}
						} else {
							okc = false
						}
					}
					switch {
					case !okc:
						r.Ob(id, funcName(fn), "slice "+opndStr(x.X), x.Pos(), false, true, "slice expression with a non-constant bound is not discharged by this rule")
					case need <= 0:
						r.Ob(id, funcName(fn), "slice "+opndStr(x.X), x.Pos(), true, false, "bounds are 0/absent")
					default:
						ok, why := fc.lenAtLeast(x.X, need, x)
						if !ok {
							why = fmt.Sprintf("slice bound %d on %s without a dominating test implying len >= %d", need, opndStr(x.X), need)
						}
						r.Ob(id, funcName(fn), "slice "+opndStr(x.X), x.Pos(), ok, true, why)
					}
				}
			}
		}
	}
}

func rulePASSERT(p *Program, r *Reporter) {
	const id = "P-ASSERT"
	for _, fn := range decoderScope(p) {
		fc := newFlowCtx(fn)
		for _, b := range fn.Blocks {
			for _, ins := range b.Instrs {
				ta, ok := ins.(*ssa.TypeAssert)
				if !ok {
					continue
				}
				construct := "assert " + opndStr(ta.X) + ".(" + typeStr(ta.AssertedType) + ")"
				if ta.CommaOk {
					r.Ob(id, funcName(fn), construct, ta.Pos(), true, false, "comma-ok form cannot panic")
					continue
				}
				ok2, why := fc.assertOKAt(ta.X, ta.AssertedType, ta)
				if !ok2 {
					why = "single-result type assertion on decoded data is not dominated by a successful comma-ok assertion / type-switch arm of the same operand to " + typeStr(ta.AssertedType) + ": panics on any other JSON type"
				}
				r.Ob(id, funcName(fn), construct, ta.Pos(), ok2, true, why)
			}
		}
	}
}

// optionalPtr reports whether v is a pointer read from a pointer-typed field
// of a wire struct declared in package ovsdb (an optional JSON member).
func optionalPtrField(v ssa.Value) *types.Var {
	var f *types.Var
	switch x := v.(type) {
	case *ssa.UnOp:
		if x.Op != token.MUL {
			return nil
		}
		fa, ok := x.X.(*ssa.FieldAddr)
		if !ok {
			return nil
		}
		f = fieldOfAddr(fa)
	case *ssa.Field:
		st, ok := x.X.Type().Underlying().(*types.Struct)
		if !ok {
			return nil
		}
		f = st.Field(x.Field)
	default:
		return nil
	}
	if f == nil || f.Pkg() == nil || f.Pkg().Path() != repoMod+"/ovsdb" {
		return nil
	}
	if _, isPtr := f.Type().Underlying().(*types.Pointer); !isPtr {
		return nil
	}
	return f
}

// derefSites enumerates instructions in fn that dereference pointer value-producing
// instructions for which pick returns a non-empty label.
func derefSites(fn *ssa.Function, pick func(v ssa.Value) string, visit func(at ssa.Instruction, ptr ssa.Value, label string)) {
	for _, b := range fn.Blocks {
		for _, ins := range b.Instrs {
			var ptr ssa.Value
			switch x := ins.(type) {
			case *ssa.FieldAddr:
				ptr = x.X
			case *ssa.UnOp:
				if x.Op == token.MUL {
					ptr = x.X
				}
			case *ssa.IndexAddr:
				if _, isPtr := x.X.Type().Underlying().(*types.Pointer); isPtr {
					ptr = x.X
				}
			case *ssa.Store:
				ptr = x.Addr
			}
			if ptr == nil {
				continue
			}
			if lbl := pick(ptr); lbl != "" {
				visit(ins, ptr, lbl)
			}
		}
	}
}

func rulePNILdec(p *Program, r *Reporter) {
	const id = "P-NIL"
	for _, fn := range decoderScope(p) {
		fc := newFlowCtx(fn)
		derefSites(fn, func(v ssa.Value) string {
			if f := optionalPtrField(v); f != nil {
				return fieldOwner[f] + "." + f.Name()
			}
			return ""
		}, func(at ssa.Instruction, ptr ssa.Value, label string) {
			ok, why := fc.nonNilAt(ptr, at)
			if !ok {
				why = "optional wire member " + label + " is dereferenced without a dominating != nil test: a JSON document omitting it crashes the decoder"
			}
			r.Ob(id, funcName(fn), "deref "+label, at.Pos(), ok, true, why)
		})
	}
}

// txnScope: library functions reachable from OvsdbServer.Transact (static
// calls, interface invokes, nested closures), restricted to the packages
// that execute a transaction.
func txnScope(p *Program) []*ssa.Function {
	root := p.Fn("server", "OvsdbServer", "Transact")
	if root == nil {
		return nil
	}
	la := getLockAnalysis(p)
	seen := map[*ssa.Function]bool{root: true}
	work := []*ssa.Function{root}
	for len(work) > 0 {
		fn := work[0]
		work = work[1:]
		add := func(g *ssa.Function) {
			if g != nil && !seen[g] && g.Blocks != nil && p.inRepo(g) {
				seen[g] = true
				work = append(work, g)
			}
		}
		for _, an := range fn.AnonFuncs {
			add(an)
		}
		for _, b := range fn.Blocks {
			for _, ins := range b.Instrs {
				if ci, ok := ins.(ssa.CallInstruction); ok {
					for _, g := range la.calleesOf(ci) {
						add(g)
					}
				}
			}
		}
	}
	var out []*ssa.Function
	for fn := range seen {
		out = append(out, fn)
	}
	sort.Slice(out, func(i, j int) bool { return out[i].Pos() < out[j].Pos() })
	return out
}

// rulePNILtxn: optional members of ovsdb.Operation / MonitorRequest used by the server.
func rulePNILtxn(p *Program, r *Reporter) {
	const id = "P-NIL-TXN"
	opT := p.LookupType("ovsdb", "Operation")
	if opT == nil {
		r.Anchor(id, "ovsdb.Operation")
		return
	}
	scope := txnScope(p)
	if len(scope) == 0 {
		r.Anchor(id, "server.(*OvsdbServer).Transact")
		return
	}
	r.Info("%s: %d functions reachable from OvsdbServer.Transact", id, len(scope))
	for _, fn := range scope {
		pk := pkgOf(fn)
		if pk != "database/transaction" && pk != "server" && pk != "updates" && pk != "database/inmemory" {
			continue
		}
		fc := newFlowCtx(fn)
		derefSites(fn, func(v ssa.Value) string {
			f := optionalPtrField(v)
			if f == nil || fieldOwner[f] != "Operation" {
				return ""
			}
			return "Operation." + f.Name()
		}, func(at ssa.Instruction, ptr ssa.Value, label string) {
			ok, why := fc.nonNilAt(ptr, at)
			if !ok {
				why = "optional member " + label + " of a client-supplied operation is dereferenced without a dominating != nil test"
			}
			r.Ob(id, funcName(fn), "deref "+label, at.Pos(), ok, true, why)
		})
		// pointer parameters that receive an optional Operation member
		// (e.g. Wait(timeout *int)) are checked where they are dereferenced
		for i, prm := range fn.Params {
			if _, isPtr := prm.Type().Underlying().(*types.Pointer); !isPtr {
				continue
			}
			if !paramFedByOptional(p, fn, i) {
				continue
			}
			prm := prm
			derefSites(fn, func(v ssa.Value) string {
				if v == ssa.Value(prm) {
					return "param " + prm.Name()
				}
				return ""
			}, func(at ssa.Instruction, ptr ssa.Value, label string) {
				ok, why := fc.nonNilAt(ptr, at)
				if !ok {
					why = label + " receives an optional operation member and is dereferenced without a dominating != nil test"
				}
				r.Ob(id, funcName(fn), "deref "+label, at.Pos(), ok, true, why)
			})
		}
	}
}

// paramFedByOptional: some static call site passes an optional Operation member as argument i.
func paramFedByOptional(p *Program, fn *ssa.Function, i int) bool {
	ci := getCallIndex(p)
	for _, s := range ci.sites[fn] {
		args := s.instr.(ssa.CallInstruction).Common().Args
		if i < len(args) {
			if f := optionalPtrField(args[i]); f != nil && fieldOwner[f] == "Operation" {
				return true
			}
		}
	}
	return false
}

// rulePDIV: integer division/modulo with a non-constant divisor on the transaction path.
func rulePDIV(p *Program, r *Reporter) {
	const id = "P-DIV"
	validated, vwhy := gValidate(p)
	scope := map[*ssa.Function]bool{}
	for _, fn := range txnScope(p) {
		scope[fn] = true
	}
	for _, fn := range p.srcFuncs {
		if pkgOf(fn) == "updates" {
			scope[fn] = true // arithmetic helpers may be dispatched through a function table
		}
	}
	var fns []*ssa.Function
	for fn := range scope {
		fns = append(fns, fn)
	}
	sort.Slice(fns, func(i, j int) bool { return fns[i].Pos() < fns[j].Pos() })
	for _, fn := range fns {
		fc := newFlowCtx(fn)
		for _, b := range fn.Blocks {
			for _, ins := range b.Instrs {
				bo, ok := ins.(*ssa.BinOp)
				if !ok || (bo.Op != token.QUO && bo.Op != token.REM) {
					continue
				}
				bt, isB := bo.Y.Type().Underlying().(*types.Basic)
				if !isB || bt.Info()&types.IsInteger == 0 {
					continue
				}
				if k, isC := constInt(bo.Y); isC && k != 0 {
					r.Ob(id, funcName(fn), "divide by constant", bo.Pos(), true, false, "non-zero constant divisor")
					continue
				}
				if ok, why := nonZeroAt(fc, bo.Y, bo); ok {
					r.Ob(id, funcName(fn), "integer "+bo.Op.String(), bo.Pos(), true, true, why)
					continue
				}
				// gate pair
				if validated && pkgOf(fn) == "updates" && reachedOnlyThroughMutate(p, fn) {
					r.Ob(id, funcName(fn), "integer "+bo.Op.String(), bo.Pos(), true, true, "G-VALIDATE: "+vwhy)
					continue
				}
				why := "integer " + bo.Op.String() + " by a client-supplied value with neither a local non-zero test nor a validator that rejects 0"
				if !validated {
					why += " (" + vwhy + ")"
				}
				r.Ob(id, funcName(fn), "integer "+bo.Op.String(), bo.Pos(), false, true, why)
			}
		}
	}
}

func nonZeroAt(fc *flowCtx, v ssa.Value, at ssa.Instruction) (bool, string) {
	for _, f := range factsAt(at.Block()) {
		c, truth := normFact(f)
		bo, ok := c.(*ssa.BinOp)
		if !ok || (bo.Op != token.EQL && bo.Op != token.NEQ) {
			continue
		}
		var other ssa.Value
		if k, isC := constInt(bo.Y); isC && k == 0 {
			other = bo.X
		} else if k, isC := constInt(bo.X); isC && k == 0 {
			other = bo.Y
		} else {
			continue
		}
		if (bo.Op == token.NEQ) == truth && fc.valEquiv(other, v, bo, at, 0) {
			return true, "dominating non-zero test (" + posOf(fc.fn, bo.Pos()) + ")"
		}
	}
	return false, ""
}

// reachedOnlyThroughMutate: every reference to fn (static call, or use as a function
// value, possibly through a package-level dispatch table) lies inside updates.mutate and
// its private helpers.
func reachedOnlyThroughMutate(p *Program, fn *ssa.Function) bool {
	mut := p.Fn("updates", "", "mutate")
	if mut == nil {
		return false
	}
	if fn == mut {
		return true
	}
	region := p.PrivateRegion(mut)
	// private helpers of mutate reached by static calls
	if region[fn] {
		return true
	}
	top := func(f *ssa.Function) *ssa.Function {
		for f.Parent() != nil {
			f = f.Parent()
		}
		return f
	}
	var initFn *ssa.Function
	if sp := p.SSAPkgs["updates"]; sp != nil {
		initFn = sp.Func("init")
	}
	all := append([]*ssa.Function{}, p.srcFuncs...)
	if initFn != nil {
		all = append(all, initFn)
	}
	refs := 0
	viaTable := false
	for _, f := range all {
		for _, b := range f.Blocks {
			for _, ins := range b.Instrs {
				for _, op := range ins.Operands(nil) {
					if op == nil || *op != ssa.Value(fn) {
						continue
					}
					refs++
					switch {
					case region[top(f)] || top(f) == mut:
					case f == initFn:
						viaTable = true
					default:
						return false
					}
				}
			}
		}
	}
	if refs == 0 {
		return false
	}
	if viaTable {
		// the package-level tables of functions may only be read inside mutate's region
		sp := p.SSAPkgs["updates"]
		for _, m := range sp.Members {
			g, ok := m.(*ssa.Global)
			if !ok || !strings.Contains(g.Type().String(), "func(") {
				continue
			}
			for _, f := range p.srcFuncs {
				for _, b := range f.Blocks {
					for _, ins := range b.Instrs {
						for _, op := range ins.Operands(nil) {
							if op != nil && *op == ssa.Value(g) && !(region[top(f)] || top(f) == mut) {
								return false
							}
						}
					}
				}
			}
		}
	}
	return true
}

// gValidate checks the gate pair: (1) every call to updates.mutate is dominated by a
// checked call to ovsdb.ValidateMutation on the same mutator and value; (2) the
// validator (ValidateMutation and the functions it calls in ovsdb) contains a
// comparison of the int-asserted value with 0 whose zero outcome returns a non-nil error.
func gValidate(p *Program) (bool, string) {
	mut := p.Fn("updates", "", "mutate")
	val := p.Fn("ovsdb", "", "ValidateMutation")
	if mut == nil || val == nil {
		return false, "anchors updates.mutate / ovsdb.ValidateMutation not found"
	}
	ci := getCallIndex(p)
	sites := ci.sites[mut]
	if len(sites) == 0 {
		return false, "updates.mutate has no static call site"
	}
	for _, s := range sites {
		call, ok := s.instr.(*ssa.Call)
		if !ok {
			return false, "mutate invoked by go/defer"
		}
		if !dominatedByCheckedCall(s.caller, call, val, func(vc *ssa.Call) bool {
			// same mutator and value arguments
			return len(vc.Call.Args) == 3 && len(call.Call.Args) == 3 &&
				sameValueLoose(vc.Call.Args[1], call.Call.Args[1]) && sameValueLoose(vc.Call.Args[2], call.Call.Args[2])
		}) {
			// the validation may sit in a private helper that hands back the validated value:
			// the helper cannot succeed without a successful ValidateMutation (gateWrappers), the
			// call to it is checked and dominates, and mutate gets the value it returned
			viaWrapper := false
			region := map[*ssa.Function]bool{}
			for _, g := range p.srcFuncs {
				if pkgOf(g) == "updates" && g.Parent() == nil {
					region[g] = true
				}
			}
			for _, w := range gateWrappers(val, region) {
				if w == val {
					continue
				}
				if dominatedByCheckedCall(s.caller, call, w, func(wc *ssa.Call) bool {
					if len(call.Call.Args) != 3 {
						return false
					}
					v := call.Call.Args[2]
					if ex, ok := v.(*ssa.Extract); ok && ex.Tuple == ssa.Value(wc) && ex.Index == 0 {
						return true
					}
					return false
				}) {
					viaWrapper = true
				}
			}
			if !viaWrapper {
				return false, "call to mutate at " + p.Pos(call.Pos()) + " is not dominated by a checked ValidateMutation on the same mutator and value"
			}
		}
	}
	// validator half
	seen := map[*ssa.Function]bool{val: true}
	work := []*ssa.Function{val}
	for len(work) > 0 {
		fn := work[0]
		work = work[1:]
		for _, b := range fn.Blocks {
			for _, ins := range b.Instrs {
				if c, ok := ins.(ssa.CallInstruction); ok {
					if g := c.Common().StaticCallee(); g != nil && !seen[g] && pkgOf(g) == "ovsdb" && g.Blocks != nil {
						seen[g] = true
						work = append(work, g)
					}
				}
				bo, ok := ins.(*ssa.BinOp)
				if !ok || (bo.Op != token.EQL && bo.Op != token.NEQ) {
					continue
				}
				var other ssa.Value
				if k, isC := constInt(bo.Y); isC && k == 0 {
					other = bo.X
				} else if k, isC := constInt(bo.X); isC && k == 0 {
					other = bo.Y
				} else {
					continue
				}
				if !derivedFromParamAssertInt(other) {
					continue
				}
				// the zero edge must return a non-nil error
				refs := bo.Referrers()
				if refs == nil {
					continue
				}
				for _, ref := range *refs {
					iff, ok := ref.(*ssa.If)
					if !ok {
						continue
					}
					zeroSucc := iff.Block().Succs[0]
					if bo.Op == token.NEQ {
						zeroSucc = iff.Block().Succs[1]
					}
					if returnsNonNilError(zeroSucc) {
						return true, "every mutate call is preceded by a checked ValidateMutation, which rejects a zero integer operand (" + p.Pos(bo.Pos()) + ")"
					}
				}
			}
		}
	}
	return false, "ValidateMutation has no test that rejects a zero integer operand"
}

func derivedFromParamAssertInt(v ssa.Value) bool {
	for i := 0; i < 4; i++ {
		switch x := v.(type) {
		case *ssa.TypeAssert:
			_, isParam := x.X.(*ssa.Parameter)
			bt, isB := x.AssertedType.Underlying().(*types.Basic)
			return isParam && isB && bt.Info()&types.IsInteger != 0
		case *ssa.Extract:
			v = x.Tuple
		case *ssa.ChangeType:
			v = x.X
		case *ssa.Convert:
			v = x.X
		default:
			return false
		}
	}
	return false
}

func returnsNonNilError(b *ssa.BasicBlock) bool {
	// follow unconditional jumps
	for i := 0; i < 4 && b != nil; i++ {
		last := b.Instrs[len(b.Instrs)-1]
		switch t := last.(type) {
		case *ssa.Return:
			for i := range t.Results {
				res := retValue(t, i)
				if types.Identical(res.Type(), types.Universe.Lookup("error").Type()) && !isNilConst(res) {
					return true
				}
			}
			return false
		case *ssa.Jump:
			b = b.Succs[0]
		default:
			return false
		}
	}
	return false
}

func sameValueLoose(a, b ssa.Value) bool {
	if a == b {
		return true
	}
	// loads of the same field of the same base / same alloc
	ua, ok1 := a.(*ssa.UnOp)
	ub, ok2 := b.(*ssa.UnOp)
	if ok1 && ok2 && ua.Op == token.MUL && ub.Op == token.MUL {
		if ua.X == ub.X {
			return true
		}
		fa, ok1 := ua.X.(*ssa.FieldAddr)
		fb, ok2 := ub.X.(*ssa.FieldAddr)
		if ok1 && ok2 && fa.Field == fb.Field && fa.X == fb.X {
			return true
		}
	}
	fa, ok1 := a.(*ssa.Field)
	fb, ok2 := b.(*ssa.Field)
	if ok1 && ok2 && fa.Field == fb.Field && sameValueLoose(fa.X, fb.X) {
		return true
	}
	return false
}

// dominatedByCheckedCall: a call to callee (satisfying match) dominates `at`,
// and its error result controls a return on the non-nil edge that `at` is not on.
func dominatedByCheckedCall(fn *ssa.Function, at *ssa.Call, callee *ssa.Function, match func(*ssa.Call) bool) bool {
	for _, b := range fn.Blocks {
		for _, ins := range b.Instrs {
			c, ok := ins.(*ssa.Call)
			if !ok || c.Call.StaticCallee() != callee || !match(c) {
				continue
			}
			if !(c.Block().Dominates(at.Block())) {
				continue
			}
			if errCheckedBefore(c, at) {
				return true
			}
		}
	}
	return false
}

// errCheckedBefore: the error result of call c is compared with nil and `at` lies
// on the == nil side (dominated by that edge).
func errCheckedBefore(c *ssa.Call, at ssa.Instruction) bool {
	var errVals []ssa.Value
	if types.Identical(c.Type(), types.Universe.Lookup("error").Type()) {
		errVals = append(errVals, c)
	} else if tup, ok := c.Type().(*types.Tuple); ok {
		if refs := c.Referrers(); refs != nil {
			for _, ref := range *refs {
				if ex, ok := ref.(*ssa.Extract); ok && types.Identical(tup.At(ex.Index).Type(), types.Universe.Lookup("error").Type()) {
					errVals = append(errVals, ex)
				}
			}
		}
	}
	for _, f := range factsAt(at.Block()) {
		cond, truth := normFact(f)
		bo, ok := cond.(*ssa.BinOp)
		if !ok || (bo.Op != token.EQL && bo.Op != token.NEQ) {
			continue
		}
		var other ssa.Value
		if isNilConst(bo.Y) {
			other = bo.X
		} else if isNilConst(bo.X) {
			other = bo.Y
		} else {
			continue
		}
		isNil := (bo.Op == token.EQL) == truth
		if !isNil {
			continue
		}
		for _, ev := range errVals {
			if other == ev {
				return true
			}
		}
	}
	return false
}

// rulePHASH: map writes/reads keyed by an interface value inside decoders
// panic ("hash of unhashable type") unless the key's dynamic type is known comparable.
func rulePHASH(p *Program, r *Reporter) {
	const id = "P-HASH"
	for _, fn := range decoderScope(p) {
		fc := newFlowCtx(fn)
		for _, b := range fn.Blocks {
			for _, ins := range b.Instrs {
				var key ssa.Value
				switch x := ins.(type) {
				case *ssa.MapUpdate:
					key = x.Key
				case *ssa.Lookup:
					if _, isMap := x.X.Type().Underlying().(*types.Map); isMap {
						key = x.Index
					}
				}
				if key == nil {
					continue
				}
				if _, isIface := key.Type().Underlying().(*types.Interface); !isIface {
					continue
				}
				ok, why := fc.hashableKnown(key, ins)
				if !ok {
					why = "map keyed by an interface value decoded from input without constraining its dynamic type: a JSON array/object (or decoded set/map) as key panics with 'hash of unhashable type'"
				}
				r.Ob(id, funcName(fn), "interface map key", ins.Pos(), ok, true, why)
			}
		}
	}
}

// rulePNILmon: the server's monitor filter must tolerate a monitor request
// without "select" and a table that has no explicit request entry.
func rulePNILmon(p *Program, r *Reporter) {
	const id = "P-NIL-MON"
	n := 0
	for _, fn := range p.srcFuncs {
		if pkgOf(fn) != "server" {
			continue
		}
		fc := newFlowCtx(fn)
		derefSites(fn, func(v ssa.Value) string {
			if f := optionalPtrField(v); f != nil && fieldOwner[f] == "MonitorRequest" {
				return "MonitorRequest." + f.Name()
			}
			var lk *ssa.Lookup
			switch x := v.(type) {
			case *ssa.Lookup:
				lk = x
			case *ssa.Extract:
				lk, _ = x.Tuple.(*ssa.Lookup)
				if x.Index != 0 {
					lk = nil
				}
			}
			if lk != nil {
				if mt, ok := lk.X.Type().Underlying().(*types.Map); ok && isNamed(mt.Elem(), repoMod+"/ovsdb", "MonitorRequest") {
					if _, isPtr := mt.Elem().(*types.Pointer); isPtr {
						return "request[table]"
					}
				}
			}
			// for table, request := range requests: the element of a decoded map of requests
			if ex, isEx := v.(*ssa.Extract); isEx && ex.Index == 2 {
				if nx, isNext := ex.Tuple.(*ssa.Next); isNext {
					if rg, isRg := nx.Iter.(*ssa.Range); isRg {
						if mt, ok := rg.X.Type().Underlying().(*types.Map); ok && isNamed(mt.Elem(), repoMod+"/ovsdb", "MonitorRequest") {
							if _, isPtr := mt.Elem().(*types.Pointer); isPtr {
								return "request of a ranged table"
							}
						}
					}
				}
			}
			return ""
		}, func(at ssa.Instruction, ptr ssa.Value, label string) {
			n++
			ok, why := fc.nonNilAt(ptr, at)
			if !ok {
				why = label + " is dereferenced without a dominating != nil test: a monitor request that omits it makes the server panic while notifying"
			}
			r.Ob(id, funcName(fn), "deref "+label, at.Pos(), ok, true, why)
		})
	}
}
