package main

import (
	"fmt"
	"go/constant"
	"go/token"
	"go/types"
	"strings"

	"golang.org/x/tools/go/ssa"
)

// ---------------------------------------------------------------------------
// C11 — structural clauses of "aggregating successive updates equals the net
// update". The algebra over rows is out of reach; these are the parts of it
// that are visible in the shape of the accumulator code:
//
// M-OLD   the accumulated update keeps its first old value: in the merge
//         functions the accumulator's old (modelUpdate.old, RowUpdate2.Old) is
//         only ever assigned from the incoming update while the accumulator is
//         still empty (first operation), never afterwards;
// M-NEW   its new value is the last one: every assignment to the accumulator's
//         new (modelUpdate.new, RowUpdate2.New) stores the incoming update's
//         new, or nil (final delete);
// M-DROP  an accumulated update that became empty does not stay in the table:
//         in addUpdate the entry is stored only on the "not empty" edge and is
//         deleted on the other.

// fieldStores: every store into field fld of some struct in fn and its private helpers
// (the accumulator passed by value or by pointer, or a result built afresh).
func fieldStores(p *Program, fn *ssa.Function, fld *types.Var) []*ssa.Store {
	var out []*ssa.Store
	for g := range p.PrivateRegion(fn) {
		for _, b := range g.Blocks {
			for _, ins := range b.Instrs {
				st, ok := ins.(*ssa.Store)
				if !ok {
					continue
				}
				if fa, ok := st.Addr.(*ssa.FieldAddr); ok && fieldOfAddr(fa) == fld {
					out = append(out, st)
				}
			}
		}
	}
	return out
}

// fieldLoadOfParam: v is a load of field fld of parameter prm (directly, or of the cell prm was spilled to).
func fieldLoadOfParam(v ssa.Value, prm *ssa.Parameter, fld *types.Var) bool {
	// field of a struct parameter that was never spilled: prm.f
	if fv, ok := v.(*ssa.Field); ok {
		if st, ok := fv.X.Type().Underlying().(*types.Struct); ok && st.Field(fv.Field) == fld {
			if fv.X == ssa.Value(prm) {
				return true
			}
			// load of the cell the parameter was spilled to
			if ld, ok := fv.X.(*ssa.UnOp); ok {
				if al, ok := ld.X.(*ssa.Alloc); ok {
					if refs := al.Referrers(); refs != nil {
						for _, r := range *refs {
							if st2, ok := r.(*ssa.Store); ok && st2.Addr == ssa.Value(al) && st2.Val == ssa.Value(prm) {
								return true
							}
						}
					}
				}
			}
		}
		return false
	}
	ld, ok := v.(*ssa.UnOp)
	if !ok || ld.Op != token.MUL {
		return false
	}
	fa, ok := ld.X.(*ssa.FieldAddr)
	if !ok || fieldOfAddr(fa) != fld {
		return false
	}
	base := fa.X
	if base == ssa.Value(prm) {
		return true
	}
	if l2, ok := base.(*ssa.UnOp); ok {
		base = l2.X
	}
	if al, ok := base.(*ssa.Alloc); ok {
		if refs := al.Referrers(); refs != nil {
			for _, r := range *refs {
				if st, ok := r.(*ssa.Store); ok && st.Addr == ssa.Value(al) && st.Val == ssa.Value(prm) {
					return true
				}
			}
		}
	}
	return false
}

type mergeSite struct {
	pkg, recv, name string
	acc, in         int    // parameter indices of the accumulator and of the incoming update
	typPkg, typ     string // struct declaring the fields
	oldF, newF      string
}

var mergeSites = []mergeSite{
	{"updates", "", "merge", 1, 2, "updates", "modelUpdate", "old", "new"},
	{"updates", "", "mergeRowUpdate", 1, 2, "ovsdb", "RowUpdate2", "Old", "New"},
}

func ruleMOLDNEW(p *Program, r *Reporter) {
	n := 0
	for _, ms := range mergeSites {
		fn := p.Fn(ms.pkg, ms.recv, ms.name)
		oldF := p.Field(ms.typPkg, ms.typ, ms.oldF)
		newF := p.Field(ms.typPkg, ms.typ, ms.newF)
		if fn == nil || oldF == nil || newF == nil || ms.in >= len(fn.Params) {
			r.Anchor("M-OLD", ms.pkg+"."+ms.name+" / "+ms.typ+"."+ms.oldF)
			continue
		}
		in := fn.Params[ms.in]
		acc := fn.Params[ms.acc]
		for _, st := range fieldStores(p, fn, oldF) {
			if st.Parent() != fn {
				continue // helpers have their own parameters; only the merge function's own stores are judged
			}
			n++
			if fieldLoadOfParam(st.Val, acc, oldF) {
				r.Ob("M-OLD", funcName(fn), "assignment of the accumulator's "+ms.oldF, st.Pos(), true, true, "copies the accumulator's own old value")
				continue
			}
			// only while the accumulator is still empty: a dominating edge on which its old is nil
			firstOp := false
			for _, f := range conjunctFacts(st.Block()) {
				c, truth := normFact(f)
				bo, ok := c.(*ssa.BinOp)
				if !ok {
					continue
				}
				isNilCmp := (isNilConst(bo.X) && fieldLoadOfParam(bo.Y, acc, oldF)) || (isNilConst(bo.Y) && fieldLoadOfParam(bo.X, acc, oldF))
				if isNilCmp && ((bo.Op == token.EQL && truth) || (bo.Op == token.NEQ && !truth)) {
					firstOp = true
				}
			}
			fromIn := fieldLoadOfParam(st.Val, in, oldF)
			ok := firstOp && fromIn
			r.Ob("M-OLD", funcName(fn), "assignment of the accumulator's "+ms.oldF, st.Pos(), ok, true,
				ifs(ok, "the old value is only taken from the incoming update while the accumulator has none (first operation)", "the accumulator's "+ms.oldF+" is assigned after the first operation (or from something other than the incoming update's "+ms.oldF+"): the aggregated update no longer carries the first old value"))
		}
		for _, st := range fieldStores(p, fn, newF) {
			if st.Parent() != fn {
				continue
			}
			n++
			ok := isNilConst(st.Val) || fieldLoadOfParam(st.Val, in, newF) || fieldLoadOfParam(st.Val, acc, newF)
			r.Ob("M-NEW", funcName(fn), "assignment of the accumulator's "+ms.newF, st.Pos(), ok, true,
				ifs(ok, "the new value is the incoming update's new value (or nil for a final delete)", "the accumulator's "+ms.newF+" is assigned something other than the incoming update's "+ms.newF+": the aggregated update does not end with the last new value"))
		}
	}
	if n < 4 {
		r.Anchor("M-OLD", fmt.Sprintf("merge functions: %d assignments of old/new of the accumulator, expected >= 4", n))
	}
}

func ruleMDROP(p *Program, r *Reporter) {
	const id = "M-DROP"
	fn := p.Fn("updates", "ModelUpdates", "addUpdate")
	updF := p.Field("updates", "ModelUpdates", "updates")
	if fn == nil || updF == nil {
		r.Anchor(id, "updates.(*ModelUpdates).addUpdate / ModelUpdates.updates")
		return
	}
	n := 0
	for g := range p.PrivateRegion(fn) {
		// the emptiness test: a branch on the result of isEmpty
		type edge struct{ notEmpty, empty *ssa.BasicBlock }
		var tests []edge
		for _, b := range g.Blocks {
			if len(b.Instrs) == 0 {
				continue
			}
			iff, ok := b.Instrs[len(b.Instrs)-1].(*ssa.If)
			if !ok {
				continue
			}
			c, truth := normFact(edgeFact{iff.Cond, true, b})
			call, ok := c.(*ssa.Call)
			if !ok {
				continue
			}
			if sc := call.Call.StaticCallee(); sc == nil || sc.Name() != "isEmpty" {
				continue
			}
			// truth: value of isEmpty() on the true edge of the If
			e := edge{notEmpty: b.Succs[1], empty: b.Succs[0]}
			if !truth {
				e = edge{notEmpty: b.Succs[0], empty: b.Succs[1]}
			}
			tests = append(tests, e)
		}
		for _, b := range g.Blocks {
			for _, ins := range b.Instrs {
				switch x := ins.(type) {
				case *ssa.MapUpdate:
					if !isNamed(x.Value.Type(), repoMod+"/updates", "modelUpdate") {
						continue
					}
					n++
					ok := false
					for _, t := range tests {
						if len(t.notEmpty.Preds) == 1 && t.notEmpty.Dominates(b) {
							ok = true
						}
					}
					r.Ob(id, funcName(g), "entry stored only when not empty", x.Pos(), ok, true,
						ifs(ok, "the merged update is stored on the not-empty edge of the emptiness test only", "a merged update is stored without having been found non-empty: a row that ends as it began (or is inserted and deleted again) stays in the accumulated updates as an empty entry"))
				case *ssa.Call:
					bi, isB := x.Call.Value.(*ssa.Builtin)
					if !isB || bi.Name() != "delete" || len(x.Call.Args) != 2 {
						continue
					}
					// delete(u.updates[table], uuid): the inner map holds modelUpdate values
					mt, isMap := x.Call.Args[0].Type().Underlying().(*types.Map)
					if !isMap || !isNamed(mt.Elem(), repoMod+"/updates", "modelUpdate") {
						continue
					}
					n++
					ok := false
					for _, t := range tests {
						if len(t.empty.Preds) == 1 && t.empty.Dominates(b) {
							ok = true
						}
					}
					r.Ob(id, funcName(g), "empty entry removed", x.Pos(), ok, true,
						ifs(ok, "the entry is removed on the empty edge of the emptiness test", "the removal of the accumulated entry does not depend on the merged update being empty"))
				}
			}
		}
	}
	if n < 2 {
		r.Anchor(id, fmt.Sprintf("addUpdate: %d store/delete of an accumulated entry, expected >= 2", n))
	}
}

// ---------------------------------------------------------------------------
// ERR-DEAD — the error returned by a call into the repository's own code is
// looked at: an error result that nothing reads (it was assigned to a variable
// that is overwritten before any test, or not assigned at all) hides the
// failure of that step. Calls whose result is discarded on purpose are few and
// listed with a reason.

var errDeadAllowed = map[string]string{
	"(*server.monitor).filter|ForEachRowUpdate":  "the callback passed to ForEachRowUpdate only fills a map and always returns nil",
	"(*server.monitor).filter2|ForEachRowUpdate": "the callback passed to ForEachRowUpdate only fills a map and always returns nil",
}

func errDeadSites(p *Program, pkgs map[string]bool, report func(fn *ssa.Function, c *ssa.Call, name string, dead bool)) {
	errT := types.Universe.Lookup("error").Type()
	for _, fn := range p.srcFuncs {
		if !pkgs[pkgOf(fn)] {
			continue
		}
		for _, b := range fn.Blocks {
			for _, ins := range b.Instrs {
				c, ok := ins.(*ssa.Call)
				if !ok {
					continue
				}
				// callee in the repository (static or interface method declared in it)
				name, inRepo := "", false
				if sc := c.Call.StaticCallee(); sc != nil {
					name = sc.Name()
					inRepo = sc.Pkg != nil && strings.HasPrefix(sc.Pkg.Pkg.Path(), repoMod)
				} else if c.Call.IsInvoke() {
					name = c.Call.Method.Name()
					inRepo = c.Call.Method.Pkg() != nil && strings.HasPrefix(c.Call.Method.Pkg().Path(), repoMod)
				}
				if !inRepo {
					continue
				}
				var ev ssa.Value
				hasErr := false
				if types.Identical(c.Type(), errT) {
					ev, hasErr = c, true
				} else if tup, ok := c.Type().(*types.Tuple); ok && tup.Len() > 0 && types.Identical(tup.At(tup.Len()-1).Type(), errT) {
					hasErr = true
					if refs := c.Referrers(); refs != nil {
						for _, r := range *refs {
							if ex, ok := r.(*ssa.Extract); ok && ex.Index == tup.Len()-1 {
								ev = ex
							}
						}
					}
				}
				if !hasErr {
					continue
				}
				dead := true
				if ev != nil {
					if refs := ev.Referrers(); refs != nil {
						for _, r := range *refs {
							if _, isDbg := r.(*ssa.DebugRef); !isDbg {
								dead = false
							}
						}
					}
				}
				report(fn, c, name, dead)
			}
		}
	}
}

func ruleERRDEAD(pkgs ...string) func(p *Program, r *Reporter) {
	want := map[string]bool{}
	for _, k := range pkgs {
		want[k] = true
	}
	return func(p *Program, r *Reporter) {
		const id = "ERR-DEAD"
		errDeadSites(p, want, func(fn *ssa.Function, c *ssa.Call, name string, dead bool) {
			if why, ok := errDeadAllowed[funcName(fn)+"|"+name]; ok && dead {
				r.Ob(id, funcName(fn), "error of "+name, c.Pos(), true, false, "discarded on purpose: "+why)
				return
			}
			// the same exception wherever the code moved to, decided by what it rests on: the
			// iteration only hands back what its callback returns, and this callback always returns nil
			if dead && name == "ForEachRowUpdate" && pkgOf(fn) == "server" && callbackAlwaysNil(p, c) {
				r.Ob(id, funcName(fn), "error of "+name, c.Pos(), true, false, "discarded on purpose: the callback passed to ForEachRowUpdate always returns nil")
				return
			}
			r.Ob(id, funcName(fn), "error of "+name, c.Pos(), !dead, true,
				ifs(!dead, "the error result is read", "the error returned by "+name+" is never read (overwritten before any test, or dropped): a failure of this step goes unnoticed and the operation is reported successful"))
		})
	}
}

// ---------------------------------------------------------------------------
// T-WARM — a row read from the database inside a transaction is never handed to
// an operation as it is: in the loop that reconciles Database.List's result
// with the transaction cache, every iteration either replaces the row by the
// transaction's own version, or creates it in the transaction cache (so that
// later operations see this one's effect on it), or drops it from the result,
// or leaves the function. A path round the loop that does none of these keeps
// the committed, possibly stale version of a row the transaction has already
// changed.

func ruleTWARM(p *Program, r *Reporter) {
	const id = "T-WARM"
	fn := p.Fn("database/transaction", "Transaction", "rowsFromTransactionCacheAndDatabase")
	if fn == nil {
		r.Anchor(id, "transaction.(*Transaction).rowsFromTransactionCacheAndDatabase")
		return
	}
	n := 0
	region := p.PrivateRegion(fn)
	lp := &listProv{p: p, region: region, memo: map[ssa.Value]int{}}
	for g := range region {
		if g.Parent() != nil {
			continue
		}
		// the map returned by Database.List, as seen in g: the call's result, the result
		// of a private helper that returns it, or a parameter that receives it
		var listed []ssa.Value
		for _, b := range g.Blocks {
			for _, ins := range b.Instrs {
				if rg, ok := ins.(*ssa.Range); ok && lp.derives(rg.X) {
					dup := false
					for _, l := range listed {
						if l == rg.X {
							dup = true
						}
					}
					if !dup {
						listed = append(listed, rg.X)
					}
				}
			}
		}
		for _, lv := range listed {
			refs := lv.Referrers()
			if refs == nil {
				continue
			}
			for _, rf := range *refs {
				rg, ok := rf.(*ssa.Range)
				if !ok {
					continue
				}
				// loop header: the block holding the Next of this range
				var h *ssa.BasicBlock
				var key ssa.Value
				if rr := rg.Referrers(); rr != nil {
					for _, x := range *rr {
						if nx, ok := x.(*ssa.Next); ok {
							h = nx.Block()
							if nr := nx.Referrers(); nr != nil {
								for _, y := range *nr {
									if ex, ok := y.(*ssa.Extract); ok && ex.Index == 1 {
										key = ex
									}
								}
							}
						}
					}
				}
				if h == nil || key == nil {
					continue
				}
				// blocks that reconcile the current row
				done := map[*ssa.BasicBlock]bool{}
				for _, b := range g.Blocks {
					if !inLoopOf(h, b) {
						continue
					}
					for _, ins := range b.Instrs {
						switch x := ins.(type) {
						case *ssa.MapUpdate:
							if x.Map == lv && x.Key == key {
								done[b] = true
							}
						case *ssa.Call:
							if bi, ok := x.Call.Value.(*ssa.Builtin); ok && bi.Name() == "delete" && len(x.Call.Args) == 2 && x.Call.Args[0] == lv && x.Call.Args[1] == key {
								done[b] = true
							}
							if sc := x.Call.StaticCallee(); sc != nil && sc.Name() == "Create" {
								for _, a := range x.Call.Args {
									if a == key {
										done[b] = true
									}
								}
							}
						}
					}
				}
				n++
				skipped := false
				for _, s := range h.Succs {
					if !inLoopOf(h, s) || s == h {
						continue
					}
					if pathAvoidingFrom(s, h, done) {
						skipped = true
					}
				}
				r.Ob(id, funcName(g), "database row reconciled with the transaction cache", rg.Pos(), !skipped, true,
					ifs(!skipped, "every database row is replaced by the transaction's version, created in the transaction cache, dropped, or ends the function", "some database rows go round the loop untouched: a row the transaction already changed (so that it no longer matches, or is already in its cache) is handed to the operation in its committed, stale version"))
			}
		}
	}
	if n < 1 {
		r.Anchor(id, "rowsFromTransactionCacheAndDatabase: loop over the rows listed from the database")
	}
}

// pathAvoidingFrom: is there a path from block `from` (inclusive) to `to` that
// enters no block of `avoid`?
func pathAvoidingFrom(from, to *ssa.BasicBlock, avoid map[*ssa.BasicBlock]bool) bool {
	seen := map[*ssa.BasicBlock]bool{}
	work := []*ssa.BasicBlock{from}
	for len(work) > 0 {
		b := work[len(work)-1]
		work = work[:len(work)-1]
		if seen[b] || avoid[b] {
			continue
		}
		seen[b] = true
		if b == to {
			return true
		}
		work = append(work, b.Succs...)
	}
	return false
}

// ---------------------------------------------------------------------------
// T-STALE — an operation is added to an accumulator on top of the row as the
// accumulator already changed it: the same `current` value is not handed to
// two AddOperation calls on one accumulator when the second can follow the
// first (the second would be computed from the row as it was before the
// first, and the merge keeps its new value).

func ruleTSTALE(p *Program, r *Reporter) {
	const id = "T-STALE"
	n := 0
	for _, fn := range p.srcFuncs {
		if pk := pkgOf(fn); pk != "updates" && pk != "database/transaction" {
			continue
		}
		var calls []*ssa.Call
		for _, b := range fn.Blocks {
			for _, ins := range b.Instrs {
				if c, ok := ins.(*ssa.Call); ok {
					if sc := c.Call.StaticCallee(); sc != nil && sc.Name() == "AddOperation" && len(c.Call.Args) >= 6 {
						calls = append(calls, c)
					}
				}
			}
		}
		if len(calls) == 0 {
			continue
		}
		fc := newFlowCtx(fn)
		for i, c2 := range calls {
			n++
			bad := ""
			for j, c1 := range calls {
				if i == j {
					continue
				}
				// same accumulator (receiver), same uuid, same `current` value, c2 can follow c1
				if c1.Call.Args[0] == c2.Call.Args[0] && c1.Call.Args[3] == c2.Call.Args[3] && c1.Call.Args[4] == c2.Call.Args[4] && fc.canFollow(c1, c2) {
					if k, isC := c2.Call.Args[4].(*ssa.Const); isC && k.IsNil() {
						continue // nil current: inserts
					}
					bad = p.Pos(c1.Pos())
				}
			}
			r.Ob(id, funcName(fn), "current row of AddOperation", c2.Pos(), bad == "", true,
				ifs(bad == "", "no earlier AddOperation on the same accumulator and row was given the same current value", "this AddOperation can follow the one at "+bad+" on the same accumulator and row and is given the same current value: it is computed from the row as it was before the first operation, so the first operation's effect is lost from the merged new value while its difference stays"))
		}
	}
	if n < 4 {
		r.Anchor(id, fmt.Sprintf("AddOperation call sites: %d, expected >= 4", n))
	}
}

// ---------------------------------------------------------------------------
// T-SEEALL — the reference tracker works in rounds (garbage collecting a row
// can orphan further rows); the row state it consults in a later round must
// include what earlier rounds changed. Structural form: among the
// ModelUpdates fields of referenceTracker that getModel/getRow consult, at
// least one is assigned inside the loop of processReferencesLoop (or in a
// function called from inside it).

func ruleTSEEALL(p *Program, r *Reporter) {
	const id = "T-SEEALL"
	loopFn := p.Fn("updates", "referenceTracker", "processReferencesLoop")
	if loopFn == nil {
		r.Anchor(id, "updates.(*referenceTracker).processReferencesLoop")
		return
	}
	rtT := p.LookupType("updates", "referenceTracker")
	muT := p.LookupType("updates", "ModelUpdates")
	if rtT == nil || muT == nil {
		r.Anchor(id, "updates.referenceTracker / ModelUpdates")
		return
	}
	isMUField := func(f *types.Var) bool {
		return f != nil && fieldOwner[f] == "referenceTracker" && types.Identical(f.Type(), muT)
	}
	// fields assigned inside the loop (directly or in callees of the loop body)
	assignedInLoop := map[*types.Var]bool{}
	var inLoopFns []*ssa.Function
	// the snapshot must be taken after the round's updates were merged into the
	// accumulated ones (ModelUpdates allocates its map lazily: a copy taken before the
	// first Merge holds a nil map and never sees anything)
	var mergeCalls []ssa.Instruction
	for _, b := range loopFn.Blocks {
		if loopHeaderOf(b) == nil {
			continue
		}
		for _, ins := range b.Instrs {
			if c, ok := ins.(*ssa.Call); ok {
				if sc := c.Call.StaticCallee(); sc != nil && sc.Name() == "Merge" {
					mergeCalls = append(mergeCalls, c)
				}
			}
		}
	}
	afterMerge := func(st *ssa.Store) bool {
		// the accumulator the snapshot is taken from, when it is a local variable
		var src ssa.Value
		if ld, ok := st.Val.(*ssa.UnOp); ok && ld.Op == token.MUL {
			if _, isAlloc := ld.X.(*ssa.Alloc); isAlloc {
				src = ld.X
			}
		}
		for _, m := range mergeCalls {
			if src != nil {
				if c, ok := m.(*ssa.Call); ok && len(c.Call.Args) > 0 {
					if _, isAlloc := c.Call.Args[0].(*ssa.Alloc); isAlloc && c.Call.Args[0] != src {
						continue // a Merge into some other accumulator
					}
				}
			}
			if m.Block() == st.Block() && instrBefore(m, st) {
				return true
			}
			if m.Block() != st.Block() && m.Block().Dominates(st.Block()) {
				return true
			}
		}
		return false
	}
	for _, b := range loopFn.Blocks {
		h := loopHeaderOf(b)
		if h == nil {
			continue
		}
		for _, ins := range b.Instrs {
			if st, ok := ins.(*ssa.Store); ok {
				if fa, ok := st.Addr.(*ssa.FieldAddr); ok && isMUField(fieldOfAddr(fa)) && afterMerge(st) {
					assignedInLoop[fieldOfAddr(fa)] = true
				}
			}
			if c, ok := ins.(*ssa.Call); ok {
				if sc := c.Call.StaticCallee(); sc != nil && pkgOf(sc) == "updates" {
					inLoopFns = append(inLoopFns, sc)
				}
			}
		}
	}
	for _, g := range p.Reach(inLoopFns...) {
		for _, b := range g.Blocks {
			for _, ins := range b.Instrs {
				if st, ok := ins.(*ssa.Store); ok {
					if fa, ok := st.Addr.(*ssa.FieldAddr); ok && isMUField(fieldOfAddr(fa)) {
						assignedInLoop[fieldOfAddr(fa)] = true
					}
				}
			}
		}
	}
	n := 0
	for _, name := range []string{"getModel", "getRow"} {
		g := p.Fn("updates", "referenceTracker", name)
		if g == nil {
			r.Anchor(id, "updates.(*referenceTracker)."+name)
			continue
		}
		n++
		var consulted []string
		fresh := false
		for _, h := range p.Reach(g) {
			for _, b := range h.Blocks {
				for _, ins := range b.Instrs {
					fa, ok := ins.(*ssa.FieldAddr)
					if !ok || !isMUField(fieldOfAddr(fa)) {
						continue
					}
					consulted = append(consulted, fieldOfAddr(fa).Name())
					if assignedInLoop[fieldOfAddr(fa)] {
						fresh = true
					}
				}
			}
		}
		r.Ob(id, funcName(g), "row state includes earlier rounds", g.Pos(), fresh, true,
			ifs(fresh, fmt.Sprintf("consults %v, of which at least one is brought up to date inside the loop of processReferencesLoop", consulted), fmt.Sprintf("consults only %v, none of which is assigned inside the loop of processReferencesLoop: a second round of reference clean-up on the same row starts from the row as it was before the first round and undoes it (dangling weak reference committed, notifications disagree with the database)", consulted)))
	}
	// order: where one function consults both a field that is brought up to date inside
	// the loop and one that is not (the transaction's own updates), the up-to-date one
	// is looked at first — otherwise a row that reference processing already changed
	// is read back as the transaction left it
	for _, name := range []string{"getModel", "getRow"} {
		g := p.Fn("updates", "referenceTracker", name)
		if g == nil {
			continue
		}
		var freshAt, staleAt []*ssa.FieldAddr
		for _, b := range g.Blocks {
			for _, ins := range b.Instrs {
				if fa, ok := ins.(*ssa.FieldAddr); ok && isMUField(fieldOfAddr(fa)) {
					if assignedInLoop[fieldOfAddr(fa)] {
						freshAt = append(freshAt, fa)
					} else {
						staleAt = append(staleAt, fa)
					}
				}
			}
		}
		if len(freshAt) == 0 || len(staleAt) == 0 {
			continue
		}
		for _, st := range staleAt {
			okO := false
			for _, fr := range freshAt {
				if (fr.Block() == st.Block() && instrBefore(fr, st)) || (fr.Block() != st.Block() && fr.Block().Dominates(st.Block())) {
					okO = true
				}
			}
			r.Ob(id, funcName(g), "most recent version first: "+fieldOfAddr(st).Name(), st.Pos(), okO, true,
				ifs(okO, "the updates accumulated by reference processing are consulted before the transaction's own", "the transaction's own updates ("+fieldOfAddr(st).Name()+") are consulted before the ones reference processing keeps up to date: a row changed in an earlier round is read back as the transaction left it (the second change is computed from a stale row)"))
		}
	}
	_ = rtT
	if n < 2 {
		r.Anchor(id, "referenceTracker.getModel / getRow")
	}
}

// ---------------------------------------------------------------------------
// GEN-SKIP — the generator leaves an existing file alone only when its content
// is what would be written: every successful return of Generate that does not
// pass through the file write is either the dry-run arm (a condition on a
// field of the generator) or dominated by the true edge of a whole-content
// comparison (bytes.Equal / bytes.Compare == 0 / string equality) involving
// the generated source. A cheaper test (size, mtime, hash prefix) keeps stale
// code on disk.

func ruleGENSKIP(p *Program, r *Reporter) {
	const id = "GEN-SKIP"
	fn := p.Fn("modelgen", "generator", "Generate")
	if fn == nil {
		r.Anchor(id, "modelgen.(*generator).Generate")
		return
	}
	n := 0
	for g := range p.PrivateRegion(fn) {
		if g.Parent() != nil {
			continue
		}
		var writes []*ssa.BasicBlock
		for _, b := range g.Blocks {
			for _, ins := range b.Instrs {
				if c, ok := ins.(*ssa.Call); ok {
					if sc := c.Call.StaticCallee(); sc != nil && sc.Name() == "WriteFile" {
						writes = append(writes, b)
					}
				}
			}
		}
		if len(writes) == 0 {
			continue
		}
		for _, b := range g.Blocks {
			ret, ok := b.Instrs[len(b.Instrs)-1].(*ssa.Return)
			if !ok || len(ret.Results) == 0 {
				continue
			}
			c, isC := ret.Results[len(ret.Results)-1].(*ssa.Const)
			if !isC || !c.IsNil() {
				continue // error returns, or the result of the write itself
			}
			afterWrite := false
			for _, w := range writes {
				if w.Dominates(b) {
					afterWrite = true
				}
			}
			if afterWrite {
				continue
			}
			n++
			why := ""
			for _, f := range conjunctFacts(b) {
				cond, truth := normFact(f)
				// dry run: a boolean field of the receiver
				if ld, ok := cond.(*ssa.UnOp); ok {
					if fa, ok := ld.X.(*ssa.FieldAddr); ok && len(g.Params) > 0 && fa.X == ssa.Value(g.Params[0]) && truth {
						why = "dry-run arm (condition on the generator's field " + fieldOfAddr(fa).Name() + ")"
					}
				}
				if call, ok := cond.(*ssa.Call); ok && truth {
					if sc := call.Call.StaticCallee(); sc != nil && sc.Pkg != nil && sc.Pkg.Pkg.Path() == "bytes" && sc.Name() == "Equal" {
						why = "the file's content equals the generated source (bytes.Equal)"
					} else if sc != nil && pkgOf(sc) == pkgOf(g) && len(sc.Blocks) > 0 {
						// a helper of the package whose verdict is a whole-content comparison of its arguments
						for _, h := range p.Reach(sc) {
							for _, hb := range h.Blocks {
								for _, hi := range hb.Instrs {
									if hc, ok := hi.(*ssa.Call); ok {
										if hs := hc.Call.StaticCallee(); hs != nil && hs.Pkg != nil && hs.Pkg.Pkg.Path() == "bytes" && (hs.Name() == "Equal" || hs.Name() == "Compare") {
											why = "the file's content equals the generated source (" + funcName(sc) + " compares whole contents)"
										}
									}
								}
							}
						}
					}
				}
				if bo, ok := cond.(*ssa.BinOp); ok {
					if call, ok := bo.X.(*ssa.Call); ok && bo.Op == token.EQL && truth {
						if sc := call.Call.StaticCallee(); sc != nil && sc.Pkg != nil && sc.Pkg.Pkg.Path() == "bytes" && sc.Name() == "Compare" {
							why = "bytes.Compare == 0"
						}
					}
					if bo.Op == token.EQL && truth {
						if bt, ok := bo.X.Type().Underlying().(*types.Basic); ok && bt.Kind() == types.String {
							why = "string equality of the contents"
						}
					}
				}
			}
			r.Ob(id, funcName(g), "write skipped only for identical content", ret.Pos(), why != "", true,
				ifs(why != "", "returns without writing because: "+why, "Generate returns successfully without writing the file although nothing established that the file already holds the generated source (no whole-content comparison dominates this return): code generated from an older schema stays on disk"))
		}
	}
	if n < 1 {
		r.Anchor(id, "Generate: successful return that bypasses the file write")
	}
}

// ---------------------------------------------------------------------------
// MAX-ONE — sibling agreement on what a "single-valued set" is. The mapper
// (NativeType), the generator (fieldType) and the reference tracker all split
// set columns at max == 1: such a column is an optional/scalar and is merged
// as an atomic value, every other set (bounded or unlimited) is a slice and is
// merged element-wise. A test in the update engine that splits at
// max == unlimited treats bounded multi-valued sets as atomic values.
// Structural form: in package updates every comparison of ColumnType.Max()
// with a constant compares with 1.

func ruleMAXONE(p *Program, r *Reporter) {
	const id = "MAX-ONE"
	n := 0
	for _, fn := range p.srcFuncs {
		if pkgOf(fn) != "updates" {
			continue
		}
		for _, b := range fn.Blocks {
			for _, ins := range b.Instrs {
				bo, ok := ins.(*ssa.BinOp)
				if !ok {
					continue
				}
				switch bo.Op {
				case token.EQL, token.NEQ, token.LSS, token.LEQ, token.GTR, token.GEQ:
				default:
					continue
				}
				isMax := func(v ssa.Value) bool {
					c, ok := v.(*ssa.Call)
					if !ok {
						return false
					}
					sc := c.Call.StaticCallee()
					return sc != nil && sc.Name() == "Max" && sc.Signature.Recv() != nil && isNamed(deref(sc.Signature.Recv().Type()), repoMod+"/ovsdb", "ColumnType")
				}
				var other ssa.Value
				if isMax(bo.X) {
					other = bo.Y
				} else if isMax(bo.Y) {
					other = bo.X
				}
				if other == nil {
					continue
				}
				ok2, what := false, ""
				switch k := other.(type) {
				case *ssa.Const:
					if k.Value == nil {
						continue
					}
					v, exact := constant.Int64Val(k.Value)
					ok2, what = exact && v == 1, k.Value.String()
				case *ssa.UnOp:
					// a package-level value such as ovsdb.Unlimited
					g, isGlobal := k.X.(*ssa.Global)
					if !isGlobal {
						continue
					}
					what = g.Name()
				default:
					continue
				}
				n++
				if !ok2 {
					// a comparison with another bound is only a disagreement when it chooses
					// between the element-wise and the atomic merge; a guard of a length check
					// (`max != unlimited && len > max`) is not
					chooses := false
					if refs := bo.Referrers(); refs != nil {
						for _, rf := range *refs {
							iff, isIf := rf.(*ssa.If)
							if !isIf {
								continue
							}
							for _, arm := range iff.Block().Succs {
								if len(arm.Preds) != 1 {
									continue
								}
								for _, d := range fn.Blocks {
									if !arm.Dominates(d) {
										continue
									}
									for _, di := range d.Instrs {
										if dc, ok := di.(*ssa.Call); ok {
											if ds := dc.Call.StaticCallee(); ds != nil && pkgOf(ds) == "updates" {
												switch ds.Name() {
												case "setDifference", "mergeMapDifference", "mergeAtomicDifference", "mergeDifference", "difference", "applyDifference":
													chooses = true
												}
											}
										}
									}
								}
							}
						}
					}
					if !chooses {
						r.Ob(id, funcName(fn), "Max() compared with "+what, bo.Pos(), true, false, "this comparison does not choose between the element-wise and the atomic merge")
						continue
					}
				}
				r.Ob(id, funcName(fn), "Max() compared with 1", bo.Pos(), ok2, true,
					ifs(ok2, "single-valued sets are split off at max == 1, as in the mapper and the generator", fmt.Sprintf("Max() is compared with %s: set columns with a bounded max other than 1 fall on the wrong side (they are slices for the mapper but are merged as atomic values here), so two changes of one such column in a transaction lose elements in update2/update3 notifications", what)))
			}
		}
	}
	if n < 1 {
		r.Anchor(id, fmt.Sprintf("package updates: %d constant comparisons of ColumnType.Max(), expected >= 1", n))
	}
}

// ---------------------------------------------------------------------------
// G-GLOBAL — library code keeps no mutable package-level state: outside
// package initialisation no function stores into a package-level variable, or
// into a slice/map/array held by one. (Encoders sharing a package-level
// scratch buffer hand one goroutine's data to another.)

func globalWrites(p *Program, report func(fn *ssa.Function, ins ssa.Instruction, g *ssa.Global)) {
	rootGlobal := func(v ssa.Value) *ssa.Global {
		for i := 0; i < 6; i++ {
			switch x := v.(type) {
			case *ssa.Global:
				return x
			case *ssa.FieldAddr:
				v = x.X
			case *ssa.IndexAddr:
				v = x.X
			case *ssa.UnOp:
				v = x.X
			case *ssa.Slice:
				v = x.X
			default:
				return nil
			}
		}
		return nil
	}
	for _, fn := range p.srcFuncs {
		if fn.Name() == "init" || strings.HasPrefix(fn.Name(), "init#") || strings.HasPrefix(pkgOf(fn), "cmd/") {
			continue // package initialisation; command-line programs own their process
		}
		for _, b := range fn.Blocks {
			for _, ins := range b.Instrs {
				switch x := ins.(type) {
				case *ssa.Store:
					if g := rootGlobal(x.Addr); g != nil {
						report(fn, ins, g)
					}
				case *ssa.MapUpdate:
					if g := rootGlobal(x.Map); g != nil {
						report(fn, ins, g)
					}
				case *ssa.Call:
					if bi, ok := x.Call.Value.(*ssa.Builtin); ok && (bi.Name() == "append" || bi.Name() == "copy" || bi.Name() == "delete") && len(x.Call.Args) > 0 {
						if g := rootGlobal(x.Call.Args[0]); g != nil && bi.Name() != "append" {
							report(fn, ins, g)
						}
					}
					// a package-level pool or concurrent map used as a container: Get hands out what
					// another call Put in, Store/Delete change what every caller sees
					if sc := x.Call.StaticCallee(); sc != nil && sc.Pkg != nil && sc.Pkg.Pkg.Path() == "sync" && sc.Signature.Recv() != nil && len(x.Call.Args) > 0 {
						owner := deref(sc.Signature.Recv().Type())
						if isNamed(owner, "sync", "Pool") && sc.Name() == "Get" && poolValueResetAfterGet(x) {
							continue // scratch object taken from a pool and reset before use: private to the call
						}
						if isNamed(owner, "sync", "Pool") && sc.Name() == "Put" {
							continue // judged at the matching Get
						}
						if isNamed(owner, "sync", "Pool") && sc.Name() == "Get" ||
							isNamed(owner, "sync", "Map") && (sc.Name() == "Store" || sc.Name() == "LoadOrStore" || sc.Name() == "Delete" || sc.Name() == "LoadAndDelete" || sc.Name() == "Swap") {
							if g := rootGlobal(x.Call.Args[0]); g != nil {
								report(fn, ins, g)
							}
						}
					}
				}
			}
		}
	}
}

func ruleGGLOBAL(p *Program, r *Reporter) {
	const id = "G-GLOBAL"
	n := 0
	globalWrites(p, func(fn *ssa.Function, ins ssa.Instruction, g *ssa.Global) {
		n++
		r.Ob(id, funcName(fn), "write to package-level "+g.Name(), ins.Pos(), false, true,
			funcName(fn)+" writes the package-level variable "+g.Name()+" (or a container it holds): concurrent callers share that storage, so one goroutine's value is overwritten or handed out by another")
	})
	// the census itself is the obligation: number of package-level variables examined
	ng := 0
	for _, sp := range p.SSAPkgs {
		for _, m := range sp.Members {
			if _, ok := m.(*ssa.Global); ok {
				ng++
			}
		}
	}
	r.Ob(id, "all packages", "no writer of package-level state outside init", token.NoPos, true, ng > 0,
		fmt.Sprintf("%d package-level variables, %d writes outside package initialisation", ng, n))
}

// ---------------------------------------------------------------------------
// G-LOOPVAR — a goroutine started inside a loop is not handed the address of
// a variable that the loop overwrites on its next turn (the module's go
// directive predates per-iteration loop variables, so `for _, x := range` has
// one x). Structural form: no argument or captured variable of a `go`
// statement inside a loop derives from a cell allocated outside that loop and
// stored to inside it.

func ruleGLOOPVAR(p *Program, r *Reporter) {
	const id = "G-LOOPVAR"
	n := 0
	rootCell := func(v ssa.Value) *ssa.Alloc {
		for i := 0; i < 6; i++ {
			switch x := v.(type) {
			case *ssa.Alloc:
				return x
			case *ssa.FieldAddr:
				v = x.X
			case *ssa.IndexAddr:
				v = x.X
			case *ssa.MakeInterface:
				v = x.X
			case *ssa.ChangeType:
				v = x.X
			default:
				return nil
			}
		}
		return nil
	}
	for _, fn := range p.srcFuncs {
		for _, b := range fn.Blocks {
			h := loopHeaderOf(b)
			if h == nil {
				continue
			}
			for _, ins := range b.Instrs {
				g, ok := ins.(*ssa.Go)
				if !ok {
					continue
				}
				n++
				var vals []ssa.Value
				vals = append(vals, g.Call.Args...)
				if mc, ok := g.Call.Value.(*ssa.MakeClosure); ok {
					vals = append(vals, mc.Bindings...)
				}
				bad := ""
				for _, v := range vals {
					cell := rootCell(v)
					if cell == nil || inLoopOf(h, cell.Block()) {
						continue
					}
					// is the cell overwritten inside the loop?
					if refs := cell.Referrers(); refs != nil {
						for _, rf := range *refs {
							if st, ok := rf.(*ssa.Store); ok && st.Addr == ssa.Value(cell) && inLoopOf(h, st.Block()) {
								bad = cell.Comment
							}
						}
					}
				}
				r.Ob(id, funcName(fn), "goroutine started in a loop", g.Pos(), bad == "", true,
					ifs(bad == "", "the goroutine receives values, or variables the loop does not overwrite", "the goroutine is handed the address of "+bad+", a variable declared outside the loop body that the next iteration overwrites: all goroutines may see the last element"))
			}
		}
	}
	if n == 0 {
		r.Info("G-LOOPVAR: no goroutine is started inside a loop")
	}
}

// ---------------------------------------------------------------------------
// R-ITER — each operation of a transaction is merged with its own update: the
// update handed to Merge / ApplyCacheUpdate inside the per-operation loop of
// Transaction.Transact is produced in the same iteration. A value that reaches
// those calls through a φ at the loop header was left over from an earlier
// operation (select, wait, comment produce none) and is merged a second time,
// which cancels set/map differences against themselves.

func ruleRITER(p *Program, r *Reporter) {
	const id = "R-ITER"
	fn := p.Fn("database/transaction", "Transaction", "Transact")
	if fn == nil {
		r.Anchor(id, "transaction.(*Transaction).Transact")
		return
	}
	n := 0
	for _, b := range fn.Blocks {
		h := loopHeaderOf(b)
		if h == nil {
			continue
		}
		for _, ins := range b.Instrs {
			c, ok := ins.(*ssa.Call)
			if !ok {
				continue
			}
			sc := c.Call.StaticCallee()
			if sc == nil {
				continue
			}
			if sc.Name() != "Merge" && sc.Name() != "ApplyCacheUpdate" {
				// a helper of the package that merges/applies the update it is handed
				isHelper := false
				if pkgOf(sc) == pkgOf(fn) && len(sc.Blocks) > 0 {
					for _, hh := range p.Reach(sc) {
						for _, hb := range hh.Blocks {
							for _, hi := range hb.Instrs {
								if hc, ok := hi.(*ssa.Call); ok {
									if hs := hc.Call.StaticCallee(); hs != nil && (hs.Name() == "Merge" || hs.Name() == "ApplyCacheUpdate") {
										isHelper = true
									}
								}
							}
						}
					}
				}
				if !isHelper {
					continue
				}
			}
			// the ModelUpdates argument: a load through a pointer produced by the operation
			for _, a := range c.Call.Args[1:] {
				if mi, isMI := a.(*ssa.MakeInterface); isMI {
					a = mi.X
				}
				if !isNamed(a.Type(), repoMod+"/updates", "ModelUpdates") {
					continue
				}
				ld, ok := a.(*ssa.UnOp)
				if !ok {
					continue
				}
				n++
				carried := loopCarried(ld.X, h, map[ssa.Value]bool{})
				r.Ob(id, funcName(fn), "update of "+sc.Name()+" produced in this iteration", c.Pos(), !carried, true,
					ifs(!carried, "the update handed to "+sc.Name()+" is produced by this iteration's operation", "the update handed to "+sc.Name()+" can be the one left over from an earlier operation (it reaches this call through a variable that lives across iterations): operations that produce no update re-merge the previous one, and its set/map differences cancel against themselves"))
			}
		}
	}
	if n < 1 {
		r.Anchor(id, fmt.Sprintf("Transact: %d Merge/ApplyCacheUpdate calls with an update argument inside the operation loop, expected >= 1", n))
	}
}

// loopCarried: can v be a value from an earlier iteration of the loop headed by h?
// True when v is (or is fed by) a φ at h with a non-nil incoming value on a back
// edge, or a load of a cell allocated outside the loop and stored to inside it.
func loopCarried(v ssa.Value, h *ssa.BasicBlock, seen map[ssa.Value]bool) bool {
	if v == nil || seen[v] {
		return false
	}
	seen[v] = true
	switch x := v.(type) {
	case *ssa.Phi:
		if x.Block() == h {
			for i, e := range x.Edges {
				pred := h.Preds[i]
				if !h.Dominates(pred) {
					continue // entry edge
				}
				if k, isC := e.(*ssa.Const); isC && k.IsNil() {
					continue
				}
				return true
			}
			return false
		}
		for _, e := range x.Edges {
			if loopCarried(e, h, seen) {
				return true
			}
		}
	case *ssa.UnOp:
		if al, ok := x.X.(*ssa.Alloc); ok && !inLoopOf(h, al.Block()) {
			if refs := al.Referrers(); refs != nil {
				for _, rf := range *refs {
					if st, ok := rf.(*ssa.Store); ok && st.Addr == ssa.Value(al) && inLoopOf(h, st.Block()) {
						// stored in the loop and not reset at the top of each iteration
						reset := false
						for _, rf2 := range *refs {
							if st2, ok := rf2.(*ssa.Store); ok && st2.Addr == ssa.Value(al) && inLoopOf(h, st2.Block()) {
								if k, isC := st2.Val.(*ssa.Const); isC && k.IsNil() && st2.Block().Dominates(x.Block()) {
									reset = true
								}
							}
						}
						if !reset {
							return true
						}
					}
				}
			}
		}
	case *ssa.Extract:
		return false
	}
	return false
}

// ---------------------------------------------------------------------------
// A2-INPLACE — a row object stored in the cache is replaced, never rewritten:
// nothing in package cache passes a value read from RowCache.cache as the
// destination of model.CloneInto (events hand the previous row object to
// handlers as `old`; rewriting it in place makes `old` show the new state).

func ruleA2INPLACE(p *Program, r *Reporter) {
	const id = "A2-INPLACE"
	rows := p.Field("cache", "RowCache", "cache")
	if rows == nil {
		r.Anchor(id, "cache.RowCache.cache")
		return
	}
	n := 0
	for _, fn := range p.srcFuncs {
		if pkgOf(fn) != "cache" {
			continue
		}
		for _, b := range fn.Blocks {
			for _, ins := range b.Instrs {
				c, ok := ins.(*ssa.Call)
				if !ok {
					continue
				}
				sc := c.Call.StaticCallee()
				if sc == nil || sc.Name() != "CloneInto" || len(c.Call.Args) != 2 {
					continue
				}
				n++
				dst := c.Call.Args[1]
				bad := false
				for i := 0; i < 4; i++ {
					switch x := dst.(type) {
					case *ssa.Extract:
						dst = x.Tuple
						continue
					case *ssa.Lookup:
						if rootField(x.X, 0) == rows {
							bad = true
						}
					}
					break
				}
				r.Ob(id, funcName(fn), "destination of CloneInto", c.Pos(), !bad, true,
					ifs(!bad, "the destination is not a cached row", "a row object held by the cache is overwritten in place: the `old` model already handed to (or queued for) event handlers, and every reader holding it, now shows the new state"))
			}
		}
	}
	r.Ob(id, "package cache", "cached rows are replaced, not rewritten", token.NoPos, true, true, fmt.Sprintf("%d CloneInto calls in package cache examined", n))
}

// ---------------------------------------------------------------------------
// interprocedural provenance inside a function's private region: is v (a value
// of function g) the row map that Database.List returned — directly, as the
// result of a private helper that returns it, or as a parameter that receives
// it at every call site?

type listProv struct {
	p      *Program
	region map[*ssa.Function]bool
	memo   map[ssa.Value]int // 1 yes, 2 no, 3 in progress
}

func (lp *listProv) isListCall(c *ssa.Call) bool {
	return c.Call.IsInvoke() && c.Call.Method.Name() == "List" && isNamed(c.Call.Value.Type(), repoMod+"/database", "Database")
}

func (lp *listProv) derives(v ssa.Value) bool {
	switch lp.memo[v] {
	case 1:
		return true
	case 2, 3:
		return false
	}
	lp.memo[v] = 3
	res := false
	switch x := v.(type) {
	case *ssa.Extract:
		if x.Index == 0 {
			if c, ok := x.Tuple.(*ssa.Call); ok {
				if lp.isListCall(c) {
					res = true
				} else if h := c.Call.StaticCallee(); h != nil && lp.region[h] {
					res = lp.returnsList(h, 0)
				}
			}
		}
	case *ssa.Call:
		if h := x.Call.StaticCallee(); h != nil && lp.region[h] {
			res = lp.returnsList(h, 0)
		}
	case *ssa.Phi:
		for _, e := range x.Edges {
			if lp.derives(e) {
				res = true
			}
		}
	case *ssa.Parameter:
		g := x.Parent()
		idx := -1
		for i, q := range g.Params {
			if q == x {
				idx = i
			}
		}
		sites := getCallIndex(lp.p).sites[g]
		if idx >= 0 && len(sites) > 0 && lp.region[g] {
			res = true
			for _, s := range sites {
				c, ok := s.instr.(ssa.CallInstruction)
				if !ok || idx >= len(c.Common().Args) || !lp.derives(c.Common().Args[idx]) {
					res = false
				}
			}
		}
	}
	if res {
		lp.memo[v] = 1
	} else {
		lp.memo[v] = 2
	}
	return res
}

func (lp *listProv) returnsList(h *ssa.Function, i int) bool {
	any := false
	for _, b := range h.Blocks {
		ret, ok := b.Instrs[len(b.Instrs)-1].(*ssa.Return)
		if !ok || isRecoverBlock(b) || i >= len(ret.Results) {
			continue
		}
		v := retValue(ret, i)
		if k, isC := v.(*ssa.Const); isC && k.IsNil() {
			continue
		}
		if !lp.derives(v) {
			return false
		}
		any = true
	}
	return any
}

// callbackAlwaysNil: every function-typed argument of call c resolves to functions all of
// whose returns yield the constant nil as their last result.
func callbackAlwaysNil(p *Program, c *ssa.Call) bool {
	found := false
	for _, a := range c.Call.Args {
		if !isFuncType(a.Type()) {
			continue
		}
		fns := p.funcValues(a, 0, true)
		if len(fns) == 0 {
			return false
		}
		for _, f := range fns {
			if len(f.Blocks) == 0 {
				return false
			}
			for _, b := range f.Blocks {
				ret, ok := b.Instrs[len(b.Instrs)-1].(*ssa.Return)
				if !ok || isRecoverBlock(b) {
					continue
				}
				if len(ret.Results) == 0 {
					return false
				}
				if k, isC := retValue(ret, len(ret.Results)-1).(*ssa.Const); !isC || !k.IsNil() {
					return false
				}
			}
		}
		found = true
	}
	return found
}

// poolValueResetAfterGet: the object returned by a sync.Pool.Get call is reset in the same
// block before anything else looks at it: a Reset()/Truncate() method call on it, clear(v),
// v[:0], or a delete-all loop over it that starts right there.
func poolValueResetAfterGet(get *ssa.Call) bool {
	vals := map[ssa.Value]bool{get: true}
	b := get.Block()
	started := false
	for _, ins := range b.Instrs {
		if ins == ssa.Instruction(get) {
			started = true
			continue
		}
		if !started {
			continue
		}
		switch x := ins.(type) {
		case *ssa.DebugRef:
			continue
		case *ssa.TypeAssert:
			if vals[x.X] {
				vals[x] = true
				continue
			}
		case *ssa.Extract:
			if vals[x.Tuple] {
				vals[x] = true
				continue
			}
		case *ssa.ChangeType:
			if vals[x.X] {
				vals[x] = true
				continue
			}
		case *ssa.Store:
			// spilled into a local cell (captured by a deferred closure)
			if vals[x.Val] {
				if al, ok := x.Addr.(*ssa.Alloc); ok {
					vals[al] = true
					continue
				}
			}
		case *ssa.UnOp:
			if vals[x.X] {
				vals[x] = true
				continue
			}
		case *ssa.Alloc, *ssa.MakeClosure, *ssa.Defer:
			continue
		case *ssa.Slice:
			if vals[x.X] {
				if k, ok := constInt(x.High); ok && k == 0 {
					return true
				}
			}
		case *ssa.Range:
			if vals[x.X] {
				// a loop over the object right after the Get: accept when its body deletes from it
				for _, lb := range b.Parent().Blocks {
					for _, li := range lb.Instrs {
						if c, ok := li.(*ssa.Call); ok {
							if bi, ok := c.Call.Value.(*ssa.Builtin); ok && bi.Name() == "delete" && len(c.Call.Args) > 0 && vals[c.Call.Args[0]] {
								return true
							}
						}
					}
				}
				return false
			}
		case *ssa.Call:
			if bi, ok := x.Call.Value.(*ssa.Builtin); ok && bi.Name() == "clear" && len(x.Call.Args) == 1 && vals[x.Call.Args[0]] {
				return true
			}
			if sc := x.Call.StaticCallee(); sc != nil && (sc.Name() == "Reset" || sc.Name() == "Truncate") && len(x.Call.Args) > 0 && vals[x.Call.Args[0]] {
				return true
			}
			if x.Call.IsInvoke() && (x.Call.Method.Name() == "Reset") && vals[x.Call.Value] {
				return true
			}
			for _, a := range x.Call.Args {
				if vals[a] {
					return false // handed to something else first
				}
			}
			continue
		}
		for _, op := range ins.Operands(nil) {
			if op != nil && vals[*op] {
				return false
			}
		}
	}
	return false
}
