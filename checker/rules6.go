package main

import (
	"fmt"
	"go/token"
	"go/types"

	"golang.org/x/tools/go/ssa"
)

// ---------------------------------------------------------------------------
// C11 — structural clauses of "aggregating successive updates equals the net
// update". The algebra over rows is out of reach; these are the parts of it
// that are visible in the shape of the accumulator code:
//
// M-OLD   the accumulated update keeps its first old value: in the merge
//         functions the accumulator's old (modelUpdate.old, RowUpdate2.Old) is
//         only ever assigned from the incoming update while the accumulator is
//         still empty (first operation), never afterwards;
// M-NEW   its new value is the last one: every assignment to the accumulator's
//         new (modelUpdate.new, RowUpdate2.New) stores the incoming update's
//         new, or nil (final delete);
// M-DROP  an accumulated update that became empty does not stay in the table:
//         in addUpdate the entry is stored only on the "not empty" edge and is
//         deleted on the other.

// fieldStores: every store into field fld of some struct in fn and its private helpers
// (the accumulator passed by value or by pointer, or a result built afresh).
func fieldStores(p *Program, fn *ssa.Function, fld *types.Var) []*ssa.Store {
	var out []*ssa.Store
	for g := range p.PrivateRegion(fn) {
		for _, b := range g.Blocks {
			for _, ins := range b.Instrs {
				st, ok := ins.(*ssa.Store)
				if !ok {
					continue
				}
				if fa, ok := st.Addr.(*ssa.FieldAddr); ok && fieldOfAddr(fa) == fld {
					out = append(out, st)
				}
			}
		}
	}
	return out
}

// fieldLoadOfParam: v is a load of field fld of parameter prm (directly, or of the cell prm was spilled to).
func fieldLoadOfParam(v ssa.Value, prm *ssa.Parameter, fld *types.Var) bool {
	// field of a struct parameter that was never spilled: prm.f
	if fv, ok := v.(*ssa.Field); ok {
		if st, ok := fv.X.Type().Underlying().(*types.Struct); ok && st.Field(fv.Field) == fld {
			if fv.X == ssa.Value(prm) {
				return true
			}
			// load of the cell the parameter was spilled to
			if ld, ok := fv.X.(*ssa.UnOp); ok {
				if al, ok := ld.X.(*ssa.Alloc); ok {
					if refs := al.Referrers(); refs != nil {
						for _, r := range *refs {
							if st2, ok := r.(*ssa.Store); ok && st2.Addr == ssa.Value(al) && st2.Val == ssa.Value(prm) {
								return true
							}
						}
					}
				}
			}
		}
		return false
	}
	ld, ok := v.(*ssa.UnOp)
	if !ok || ld.Op != token.MUL {
		return false
	}
	fa, ok := ld.X.(*ssa.FieldAddr)
	if !ok || fieldOfAddr(fa) != fld {
		return false
	}
	base := fa.X
	if base == ssa.Value(prm) {
		return true
	}
	if l2, ok := base.(*ssa.UnOp); ok {
		base = l2.X
	}
	if al, ok := base.(*ssa.Alloc); ok {
		if refs := al.Referrers(); refs != nil {
			for _, r := range *refs {
				if st, ok := r.(*ssa.Store); ok && st.Addr == ssa.Value(al) && st.Val == ssa.Value(prm) {
					return true
				}
			}
		}
	}
	return false
}

type mergeSite struct {
	pkg, recv, name string
	acc, in         int    // parameter indices of the accumulator and of the incoming update
	typPkg, typ     string // struct declaring the fields
	oldF, newF      string
}

var mergeSites = []mergeSite{
	{"updates", "", "merge", 1, 2, "updates", "modelUpdate", "old", "new"},
	{"updates", "", "mergeRowUpdate", 1, 2, "ovsdb", "RowUpdate2", "Old", "New"},
}

func ruleMOLDNEW(p *Program, r *Reporter) {
	n := 0
	for _, ms := range mergeSites {
		fn := p.Fn(ms.pkg, ms.recv, ms.name)
		oldF := p.Field(ms.typPkg, ms.typ, ms.oldF)
		newF := p.Field(ms.typPkg, ms.typ, ms.newF)
		if fn == nil || oldF == nil || newF == nil || ms.in >= len(fn.Params) {
			r.Anchor("M-OLD", ms.pkg+"."+ms.name+" / "+ms.typ+"."+ms.oldF)
			continue
		}
		in := fn.Params[ms.in]
		acc := fn.Params[ms.acc]
		for _, st := range fieldStores(p, fn, oldF) {
			if st.Parent() != fn {
				continue // helpers have their own parameters; only the merge function's own stores are judged
			}
			n++
			if fieldLoadOfParam(st.Val, acc, oldF) {
				r.Ob("M-OLD", funcName(fn), "assignment of the accumulator's "+ms.oldF, st.Pos(), true, true, "copies the accumulator's own old value")
				continue
			}
			// only while the accumulator is still empty: a dominating edge on which its old is nil
			firstOp := false
			for _, f := range conjunctFacts(st.Block()) {
				c, truth := normFact(f)
				bo, ok := c.(*ssa.BinOp)
				if !ok {
					continue
				}
				isNilCmp := (isNilConst(bo.X) && fieldLoadOfParam(bo.Y, acc, oldF)) || (isNilConst(bo.Y) && fieldLoadOfParam(bo.X, acc, oldF))
				if isNilCmp && ((bo.Op == token.EQL && truth) || (bo.Op == token.NEQ && !truth)) {
					firstOp = true
				}
			}
			fromIn := fieldLoadOfParam(st.Val, in, oldF)
			ok := firstOp && fromIn
			r.Ob("M-OLD", funcName(fn), "assignment of the accumulator's "+ms.oldF, st.Pos(), ok, true,
				ifs(ok, "the old value is only taken from the incoming update while the accumulator has none (first operation)", "the accumulator's "+ms.oldF+" is assigned after the first operation (or from something other than the incoming update's "+ms.oldF+"): the aggregated update no longer carries the first old value"))
		}
		for _, st := range fieldStores(p, fn, newF) {
			if st.Parent() != fn {
				continue
			}
			n++
			ok := isNilConst(st.Val) || fieldLoadOfParam(st.Val, in, newF) || fieldLoadOfParam(st.Val, acc, newF)
			r.Ob("M-NEW", funcName(fn), "assignment of the accumulator's "+ms.newF, st.Pos(), ok, true,
				ifs(ok, "the new value is the incoming update's new value (or nil for a final delete)", "the accumulator's "+ms.newF+" is assigned something other than the incoming update's "+ms.newF+": the aggregated update does not end with the last new value"))
		}
	}
	if n < 4 {
		r.Anchor("M-OLD", fmt.Sprintf("merge functions: %d assignments of old/new of the accumulator, expected >= 4", n))
	}
}

func ruleMDROP(p *Program, r *Reporter) {
	const id = "M-DROP"
	fn := p.Fn("updates", "ModelUpdates", "addUpdate")
	updF := p.Field("updates", "ModelUpdates", "updates")
	if fn == nil || updF == nil {
		r.Anchor(id, "updates.(*ModelUpdates).addUpdate / ModelUpdates.updates")
		return
	}
	n := 0
	for g := range p.PrivateRegion(fn) {
		// the emptiness test: a branch on the result of isEmpty
		type edge struct{ notEmpty, empty *ssa.BasicBlock }
		var tests []edge
		for _, b := range g.Blocks {
			if len(b.Instrs) == 0 {
				continue
			}
			iff, ok := b.Instrs[len(b.Instrs)-1].(*ssa.If)
			if !ok {
				continue
			}
			c, truth := normFact(edgeFact{iff.Cond, true, b})
			call, ok := c.(*ssa.Call)
			if !ok {
				continue
			}
			if sc := call.Call.StaticCallee(); sc == nil || sc.Name() != "isEmpty" {
				continue
			}
			// truth: value of isEmpty() on the true edge of the If
			e := edge{notEmpty: b.Succs[1], empty: b.Succs[0]}
			if !truth {
				e = edge{notEmpty: b.Succs[0], empty: b.Succs[1]}
			}
			tests = append(tests, e)
		}
		for _, b := range g.Blocks {
			for _, ins := range b.Instrs {
				switch x := ins.(type) {
				case *ssa.MapUpdate:
					if !isNamed(x.Value.Type(), repoMod+"/updates", "modelUpdate") {
						continue
					}
					n++
					ok := false
					for _, t := range tests {
						if len(t.notEmpty.Preds) == 1 && t.notEmpty.Dominates(b) {
							ok = true
						}
					}
					r.Ob(id, funcName(g), "entry stored only when not empty", x.Pos(), ok, true,
						ifs(ok, "the merged update is stored on the not-empty edge of the emptiness test only", "a merged update is stored without having been found non-empty: a row that ends as it began (or is inserted and deleted again) stays in the accumulated updates as an empty entry"))
				case *ssa.Call:
					bi, isB := x.Call.Value.(*ssa.Builtin)
					if !isB || bi.Name() != "delete" || len(x.Call.Args) != 2 {
						continue
					}
					// delete(u.updates[table], uuid): the inner map holds modelUpdate values
					mt, isMap := x.Call.Args[0].Type().Underlying().(*types.Map)
					if !isMap || !isNamed(mt.Elem(), repoMod+"/updates", "modelUpdate") {
						continue
					}
					n++
					ok := false
					for _, t := range tests {
						if len(t.empty.Preds) == 1 && t.empty.Dominates(b) {
							ok = true
						}
					}
					r.Ob(id, funcName(g), "empty entry removed", x.Pos(), ok, true,
						ifs(ok, "the entry is removed on the empty edge of the emptiness test", "the removal of the accumulated entry does not depend on the merged update being empty"))
				}
			}
		}
	}
	if n < 2 {
		r.Anchor(id, fmt.Sprintf("addUpdate: %d store/delete of an accumulated entry, expected >= 2", n))
	}
}
