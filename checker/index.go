package main

import (
	"fmt"
	"go/token"
	"go/types"
	"sort"
	"strings"

	"golang.org/x/tools/go/ssa"
)

// E8 — index maintenance discipline of cache.RowCache and commit-time check placement.

// dependsOnLookup: does value v (transitively through its operands) depend on a
// map lookup m[k] with m denoting the same map expression as wantMap and the same key?
func dependsOnLookup(v ssa.Value, wantMap, wantKey ssa.Value, seen map[ssa.Value]bool, depth int) bool {
	if v == nil || seen[v] || depth > 12 {
		return false
	}
	seen[v] = true
	if lk, ok := v.(*ssa.Lookup); ok {
		if sameMapExpr(lk.X, wantMap, 0) && lk.Index == wantKey {
			return true
		}
	}
	ins, ok := v.(ssa.Instruction)
	if !ok {
		return false
	}
	for _, op := range ins.Operands(nil) {
		if op != nil && *op != nil && dependsOnLookup(*op, wantMap, wantKey, seen, depth+1) {
			return true
		}
	}
	return false
}

// sameMapExpr: structural equality of map-valued expressions (field loads and nested lookups).
func sameMapExpr(a, b ssa.Value, depth int) bool {
	if a == b {
		return true
	}
	if depth > 5 {
		return false
	}
	switch x := a.(type) {
	case *ssa.Lookup:
		y, ok := b.(*ssa.Lookup)
		return ok && sameMapExpr(x.X, y.X, depth+1) && (x.Index == y.Index || sameValueLoose(x.Index, y.Index))
	case *ssa.UnOp:
		return sameValueLoose(a, b)
	case *ssa.Extract:
		y, ok := b.(*ssa.Extract)
		if ok && x.Index == y.Index {
			lx, ok1 := x.Tuple.(*ssa.Lookup)
			ly, ok2 := y.Tuple.(*ssa.Lookup)
			return ok1 && ok2 && sameMapExpr(lx, ly, depth+1)
		}
	}
	return false
}

func ruleX1(p *Program, r *Reporter) {
	const id = "X1"
	idx := p.Field("cache", "RowCache", "indexes")
	if idx == nil {
		r.Anchor(id, "cache.RowCache.indexes")
		return
	}
	for _, a := range collectAccesses(p, map[*types.Var]bool{idx: true}) {
		_ = a
	}
	for _, fn := range p.srcFuncs {
		if pkgOf(fn) != "cache" {
			continue
		}
		for _, b := range fn.Blocks {
			for _, ins := range b.Instrs {
				c, ok := ins.(*ssa.Call)
				if !ok {
					continue
				}
				bi, ok := c.Call.Value.(*ssa.Builtin)
				if !ok || bi.Name() != "delete" || len(c.Call.Args) != 2 {
					continue
				}
				m, k := c.Call.Args[0], c.Call.Args[1]
				// only removals from an index value map: m = r.indexes[index]
				lk, ok := m.(*ssa.Lookup)
				if !ok {
					continue
				}
				ld, ok := lk.X.(*ssa.UnOp)
				if !ok {
					continue
				}
				fa, ok := ld.X.(*ssa.FieldAddr)
				if !ok || fieldOfAddr(fa) != idx {
					continue
				}
				// every way into the delete must have evaluated a condition on the entry being removed
				okEdge := func(pred, succ *ssa.BasicBlock) bool {
					facts := factsAt(pred)
					if iff, isIf := pred.Instrs[len(pred.Instrs)-1].(*ssa.If); isIf && len(pred.Succs) == 2 && pred.Succs[0] != pred.Succs[1] {
						facts = append(facts, edgeFact{iff.Cond, pred.Succs[0] == succ, pred})
					}
					for _, f := range facts {
						cond, _ := normFact(f)
						if dependsOnLookup(cond, m, k, map[ssa.Value]bool{}, 0) {
							return true
						}
					}
					return false
				}
				discharged := false
				for d := b; d != nil && !discharged; d = d.Idom() {
					if len(d.Preds) == 0 {
						break
					}
					all := true
					for _, pr := range d.Preds {
						if !okEdge(pr, d) {
							all = false
						}
					}
					if all {
						discharged = true
					}
					// stop climbing at a loop header that ranges over the keys (the key is only defined below it)
					if kd, isInstr := k.(ssa.Instruction); isInstr && kd.Block() == d {
						break
					}
				}
				why := "every path to the removal has tested the current owner(s) of the index entry"
				if !discharged {
					why = "an index entry is removed on a path that never looked at who owns it now: when an indexed value moves between two rows of one batch, the entry the other row just took over is deleted (the cache then accepts duplicates / misses the row on lookup)"
				}
				r.Ob(id, funcName(fn), "delete(indexes[index], key)", c.Pos(), discharged, true, why)
			}
		}
	}
}

// ruleX2: only the three maintenance operations (and construction) write the row and index maps.
func ruleX2(p *Program, r *Reporter) {
	const id = "X2"
	flds := map[*types.Var]bool{}
	for _, n := range []string{"cache", "indexes"} {
		f := p.Field("cache", "RowCache", n)
		if f == nil {
			r.Anchor(id, "cache.RowCache."+n)
			return
		}
		flds[f] = true
	}
	// the three maintenance operations, construction, and their private helpers
	allowedFns := p.PrivateRegion(p.Fn("cache", "RowCache", "Create"), p.Fn("cache", "RowCache", "Update"), p.Fn("cache", "RowCache", "Delete"),
		p.Fn("cache", "", "newRowCache"), p.Fn("cache", "RowCache", "newIndexes"))
	allowed := map[string]bool{}
	for fn := range allowedFns {
		allowed[funcName(fn)] = true
	}
	if len(allowedFns) < 5 {
		r.Anchor(id, "cache.(*RowCache).{Create,Update,Delete}, newRowCache, newIndexes")
	}
	// writes through the inner index maps too: r.indexes[i][k] = v, delete(r.indexes[i], k), set.add on stored sets
	for _, fn := range p.srcFuncs {
		top := fn
		for top.Parent() != nil {
			top = top.Parent()
		}
		for _, b := range fn.Blocks {
			for _, ins := range b.Instrs {
				var target ssa.Value
				kind := ""
				switch x := ins.(type) {
				case *ssa.MapUpdate:
					target, kind = x.Map, "store"
				case *ssa.Call:
					if bi, ok := x.Call.Value.(*ssa.Builtin); ok && bi.Name() == "delete" {
						target, kind = x.Call.Args[0], "delete"
					}
				case *ssa.Store:
					if fa, ok := x.Addr.(*ssa.FieldAddr); ok && flds[fieldOfAddr(fa)] && !baseIsLocalAlloc(fa.X) {
						ok2 := allowed[funcName(top)]
						r.Ob(id, funcName(fn), "assign RowCache."+fieldOfAddr(fa).Name(), ins.Pos(), ok2, true,
							ifs(ok2, "maintenance operation", funcName(top)+" replaces RowCache."+fieldOfAddr(fa).Name()+" outside Create/Update/Delete"))
					}
					continue
				}
				if target == nil {
					continue
				}
				// walk down lookups to the field
				fld := rootField(target, 0)
				if fld == nil || !flds[fld] {
					continue
				}
				if baseOfFieldIsLocal(target) {
					continue
				}
				ok2 := allowed[funcName(top)]
				r.Ob(id, funcName(fn), kind+" in RowCache."+fld.Name(), ins.Pos(), ok2, true,
					ifs(ok2, "maintenance operation", funcName(top)+" writes RowCache."+fld.Name()+" outside Create/Update/Delete: rows and indexes can drift apart"))
			}
		}
	}
}

func rootField(v ssa.Value, depth int) *types.Var {
	if depth > 6 {
		return nil
	}
	switch x := v.(type) {
	case *ssa.Lookup:
		return rootField(x.X, depth+1)
	case *ssa.Extract:
		if lk, ok := x.Tuple.(*ssa.Lookup); ok {
			return rootField(lk.X, depth+1)
		}
	case *ssa.UnOp:
		if fa, ok := x.X.(*ssa.FieldAddr); ok {
			return fieldOfAddr(fa)
		}
	}
	return nil
}

func baseOfFieldIsLocal(v ssa.Value) bool {
	for i := 0; i < 6; i++ {
		switch x := v.(type) {
		case *ssa.Lookup:
			v = x.X
		case *ssa.Extract:
			v = x.Tuple
		case *ssa.UnOp:
			if fa, ok := x.X.(*ssa.FieldAddr); ok {
				return baseIsLocalAlloc(fa.X)
			}
			return false
		default:
			return false
		}
	}
	return false
}

// ruleX3: Create/Update/Delete each maintain every index (a loop over indexSpecs that
// writes r.indexes) before they write r.cache.
func ruleX3(p *Program, r *Reporter) {
	const id = "X3"
	specs := p.Field("cache", "RowCache", "indexSpecs")
	idx := p.Field("cache", "RowCache", "indexes")
	rows := p.Field("cache", "RowCache", "cache")
	if specs == nil || idx == nil || rows == nil {
		r.Anchor(id, "cache.RowCache.{indexSpecs,indexes,cache}")
		return
	}
	for _, name := range []string{"Create", "Update", "Delete"} {
		fn := p.Fn("cache", "RowCache", name)
		if fn == nil {
			r.Anchor(id, "cache.(*RowCache)."+name)
			continue
		}
		// the operation with the helpers private to the three maintenance operations
		// (a helper shared by Create/Update/Delete is still theirs alone)
		trio := p.PrivateRegion(p.Fn("cache", "RowCache", "Create"), p.Fn("cache", "RowCache", "Update"), p.Fn("cache", "RowCache", "Delete"))
		region := map[*ssa.Function]bool{}
		for _, g := range p.Reach(fn) {
			if trio[g] && (g == fn || (g.Name() != "Create" && g.Name() != "Update" && g.Name() != "Delete") || g.Parent() != nil) {
				region[g] = true
			}
		}
		writesOf := func(g *ssa.Function) (idxW, rowW []ssa.Instruction) {
			for _, b := range g.Blocks {
				for _, ins := range b.Instrs {
					var target ssa.Value
					switch x := ins.(type) {
					case *ssa.MapUpdate:
						target = x.Map
					case *ssa.Call:
						if bi, ok := x.Call.Value.(*ssa.Builtin); ok && bi.Name() == "delete" {
							target = x.Call.Args[0]
						}
					}
					if target == nil {
						continue
					}
					switch rootField(target, 0) {
					case idx:
						idxW = append(idxW, ins)
					case rows:
						rowW = append(rowW, ins)
					}
				}
			}
			return
		}
		// index writes inside a loop over indexSpecs, in the operation or one of its private helpers
		nIn := 0
		helperWritesIdx := map[*ssa.Function]bool{}
		for g := range region {
			iw, _ := writesOf(g)
			if len(iw) > 0 {
				helperWritesIdx[g] = true
			}
			for _, w := range iw {
				if dominatedBySpecLoop(w.Block(), specs) {
					nIn++
				}
			}
		}
		// a helper that writes one index entry, called from a loop over indexSpecs
		for g := range region {
			for _, b := range g.Blocks {
				for _, ins := range b.Instrs {
					if c, ok := ins.(*ssa.Call); ok {
						if h := c.Call.StaticCallee(); h != nil && helperWritesIdx[h] && h != g && dominatedBySpecLoop(b, specs) {
							nIn++
						}
					}
				}
			}
		}
		ok := nIn > 0
		r.Ob(id, funcName(fn), "index maintenance loop", fn.Pos(), ok, true,
			ifs(ok, fmt.Sprintf("%d index writes inside a loop over indexSpecs", nIn), name+" writes no index entry inside a loop over r.indexSpecs: some index is not maintained"))
		// in the operation itself: no index-write event (a direct write, or a call to a helper
		// that writes indexes) can follow the write of the row map
		var idxEvents, rowEvents []ssa.Instruction
		iw, rw := writesOf(fn)
		idxEvents = append(idxEvents, iw...)
		rowEvents = append(rowEvents, rw...)
		for _, b := range fn.Blocks {
			for _, ins := range b.Instrs {
				if c, ok := ins.(*ssa.Call); ok {
					if h := c.Call.StaticCallee(); h != nil && region[h] && h != fn {
						if helperWritesIdx[h] {
							idxEvents = append(idxEvents, ins)
						}
						if _, hr := writesOf(h); len(hr) > 0 {
							rowEvents = append(rowEvents, ins)
						}
					}
				}
			}
		}
		okRows := len(rowEvents) > 0
		fc := newFlowCtx(fn)
		for _, rw := range rowEvents {
			for _, iw := range idxEvents {
				if rw != iw && fc.canFollow(rw, iw) && !fc.canFollow(iw, rw) {
					okRows = false
				}
			}
		}
		r.Ob(id, funcName(fn), "row written after indexes", fn.Pos(), okRows, true,
			ifs(okRows, "the row map is written after the index maps (an index error leaves the cache unchanged)", name+" does not write r.cache, or writes it before the indexes"))
	}
}

// dominatedBySpecLoop: b lies in a loop whose header bounds an index over a load of RowCache.indexSpecs.
func dominatedBySpecLoop(b *ssa.BasicBlock, specs *types.Var) bool {
	for d := b; d != nil; d = d.Idom() {
		for _, ins := range d.Instrs {
			// range over slice: len(load indexSpecs) in the preheader, or IndexAddr on it in the body
			if ia, ok := ins.(*ssa.IndexAddr); ok {
				if ld, ok := ia.X.(*ssa.UnOp); ok {
					if fa, ok := ld.X.(*ssa.FieldAddr); ok && fieldOfAddr(fa) == specs {
						return true
					}
				}
			}
		}
	}
	return false
}

// ruleX4: commit-time checks in Transaction.Transact: ProcessReferences, then
// applyReferenceUpdates, then checkIndexes, each with its error checked, on
// every path to the final success return.
func ruleX4(p *Program, r *Reporter) {
	const id = "X4"
	fn := p.Fn("database/transaction", "Transaction", "Transact")
	if fn == nil {
		r.Anchor(id, "transaction.(*Transaction).Transact")
		return
	}
	find := func(name string) *ssa.Call {
		for _, b := range fn.Blocks {
			for _, ins := range b.Instrs {
				if c, ok := ins.(*ssa.Call); ok {
					if sc := c.Call.StaticCallee(); sc != nil && sc.Name() == name {
						return c
					}
				}
			}
		}
		return nil
	}
	order := []string{"ProcessReferences", "applyReferenceUpdates", "checkIndexes"}
	var calls []*ssa.Call
	for _, n := range order {
		c := find(n)
		if c == nil {
			r.Anchor(id, "call to "+n+" in Transaction.Transact")
			return
		}
		calls = append(calls, c)
	}
	// the final success return: the last Return in source order
	var last *ssa.Return
	for _, b := range fn.Blocks {
		for _, ins := range b.Instrs {
			if ret, ok := ins.(*ssa.Return); ok {
				if last == nil || ret.Pos() > last.Pos() {
					last = ret
				}
			}
		}
	}
	if last == nil {
		r.Anchor(id, "return of Transaction.Transact")
		return
	}
	rfe := p.Fn("ovsdb", "", "ResultFromError")
	fcx := newFlowCtx(fn)
	for i, c := range calls {
		// (a) order: each check dominates the next one / the final return
		var next ssa.Instruction = last
		nextName := "the final return"
		if i+1 < len(calls) {
			next = calls[i+1]
			nextName = order[i+1]
		}
		dom := c.Block().Dominates(next.Block())
		// (b) the error is tested, and on the failing edge it is turned into an error result
		// before the function returns; (c) a failed check does not run the following checks
		var errVals []ssa.Value
		if types.Identical(c.Type(), types.Universe.Lookup("error").Type()) {
			errVals = append(errVals, c)
		} else if tup, ok := c.Type().(*types.Tuple); ok {
			if refs := c.Referrers(); refs != nil {
				for _, ref := range *refs {
					if ex, ok := ref.(*ssa.Extract); ok && types.Identical(tup.At(ex.Index).Type(), types.Universe.Lookup("error").Type()) {
						errVals = append(errVals, ex)
					}
				}
			}
		}
		var failEdge *ssa.BasicBlock
		for _, b := range fn.Blocks {
			iff, ok := b.Instrs[len(b.Instrs)-1].(*ssa.If)
			if !ok {
				continue
			}
			bo, ok := iff.Cond.(*ssa.BinOp)
			if !ok || (bo.Op != token.NEQ && bo.Op != token.EQL) {
				continue
			}
			var other ssa.Value
			if isNilConst(bo.Y) {
				other = bo.X
			} else if isNilConst(bo.X) {
				other = bo.Y
			}
			hit := false
			for _, ev := range errVals {
				if other == ev {
					hit = true
				}
			}
			if !hit {
				continue
			}
			failEdge = b.Succs[0]
			if bo.Op == token.EQL {
				failEdge = b.Succs[1]
			}
		}
		consumed, stops := false, true
		if failEdge != nil && rfe != nil {
			first := failEdge.Instrs[0]
			isRfe := func(x ssa.Instruction) bool {
				cc, ok := x.(*ssa.Call)
				return ok && cc.Call.StaticCallee() == rfe
			}
			esc, _ := escapesWithoutFrom(fn, failEdge, func(x ssa.Instruction) bool {
				if isRfe(x) {
					return true
				}
				// a same-package helper that turns an error into a result on all its paths
				cc, ok := x.(*ssa.Call)
				if !ok {
					return false
				}
				g := cc.Call.StaticCallee()
				if g == nil || pkgOf(g) != pkgOf(fn) || len(g.Blocks) == 0 || g.Signature.Results().Len() != 1 {
					return false
				}
				// it hands back a result, or the list of results with the new one in it
				rt := g.Signature.Results().At(0).Type()
				if sl, isSl := rt.Underlying().(*types.Slice); isSl {
					rt = sl.Elem()
				}
				if !isNamed(rt, repoMod+"/ovsdb", "OperationResult") {
					return false
				}
				gesc, _ := escapesWithoutFrom(g, g.Blocks[0], isRfe)
				return !gesc
			})
			consumed = !esc
			_ = first
			if i+1 < len(calls) && (failEdge == calls[i+1].Block() || fcx.blockReach(failEdge, calls[i+1].Block())) {
				stops = false
			}
		}
		ok := dom && failEdge != nil && consumed && stops
		why := fmt.Sprintf("%s precedes %s on every path; its error is tested and, when set, turned into an error result and the remaining checks are skipped", order[i], nextName)
		switch {
		case !dom:
			why = fmt.Sprintf("%s does not precede %s on every path: a transaction can be reported successful without this commit-time check", order[i], nextName)
		case failEdge == nil:
			why = fmt.Sprintf("the error of %s is never compared with nil", order[i])
		case !consumed:
			why = fmt.Sprintf("when %s fails, the function can return without converting the error into an error result: the transaction is reported successful and committed", order[i])
		case !stops:
			why = fmt.Sprintf("after %s failed, %s still runs", order[i], nextName)
		}
		r.Ob(id, funcName(fn), order[i]+" before "+nextName, c.Pos(), ok, true, why)
	}
	// the per-operation loop precedes the commit-time checks
	applied := false
	reachesApply := func(g *ssa.Function) bool {
		if g == nil || pkgOf(g) != pkgOf(fn) || len(g.Blocks) == 0 {
			return false
		}
		for _, h := range p.Reach(g) {
			for _, hb := range h.Blocks {
				for _, hi := range hb.Instrs {
					if hc, ok := hi.(*ssa.Call); ok {
						if hs := hc.Call.StaticCallee(); hs != nil && hs.Name() == "ApplyCacheUpdate" {
							return true
						}
					}
				}
			}
		}
		return false
	}
	for _, b := range fn.Blocks {
		for _, ins := range b.Instrs {
			if c, ok := ins.(*ssa.Call); ok {
				if sc := c.Call.StaticCallee(); sc != nil && (sc.Name() == "ApplyCacheUpdate" || (sc != fn && sc.Name() != "checkIndexes" && sc.Name() != "applyReferenceUpdates" && reachesApply(sc) && loopHeaderOf(b) != nil)) {
					applied = true
					fc := newFlowCtx(fn)
					okk := !fc.canFollow(calls[2], c)
					r.Ob(id, funcName(fn), "per-operation apply before index check", c.Pos(), okk, true,
						ifs(okk, "operations are applied to the transaction cache before, never after, the commit-time index check", "an operation can be applied after the index check ran"))
				}
			}
		}
	}
	if !applied {
		r.Anchor(id, "ApplyCacheUpdate in Transaction.Transact")
	}
}

// ruleTWIRE: constant wiring of boolean mode arguments.
func ruleTWIRE(p *Program, r *Reporter) {
	const id = "T-WIRE"
	// (callee name, arg index) -> required constant per calling function
	type want struct {
		callerPkg, callerRecv, caller string
		callee                        string
		arg                           int
		val                           bool
		why                           string
	}
	wants := []want{
		{"cache", "TableCache", "ApplyCacheUpdate", "Create", 3, false, "updates are applied without index checks: a transient duplicate inside one batch / transaction must pass"},
		{"cache", "TableCache", "ApplyCacheUpdate", "Update", 3, false, "updates are applied without index checks: a transient duplicate inside one batch / transaction must pass"},
		{"database/transaction", "Transaction", "applyReferenceUpdates", "Create", 3, false, "warming the transaction cache must not run the index check"},
		{"database/transaction", "Transaction", "rowsFromTransactionCacheAndDatabase", "Create", 3, false, "warming the transaction cache must not run the index check"},
		{"cache", "", "NewTableCache", "Create", 3, true, "pre-loaded data is checked against the schema indexes"},
		{"client", "api", "WhereAll", "conditionFromExplicitConditions", 1, true, "WhereAll means every condition must hold"},
		{"client", "api", "WhereAny", "conditionFromExplicitConditions", 1, false, "WhereAny means any condition may hold"},
		{"client", "ovsdbClient", "isEndpointLeader", "transact", 3, true, "the leader check runs before the inactivity-probe goroutine exists: it must not write to the unbuffered trafficSeen channel"},
		{"client", "ovsdbClient", "Transact", "transact", 3, false, "user transactions signal traffic to the inactivity probe"},
	}
	for _, w := range wants {
		root := p.Fn(w.callerPkg, w.callerRecv, w.caller)
		if root == nil {
			r.Anchor(id, w.callerPkg+"."+w.callerRecv+"."+w.caller)
			continue
		}
		found := 0
		fns := p.Reach(root)
		if w.caller == "NewTableCache" {
			fns = append([]*ssa.Function{root}, root.AnonFuncs...)
		}
		for _, fn := range fns {
			for _, b := range fn.Blocks {
				for _, ins := range b.Instrs {
					c, ok := ins.(*ssa.Call)
					if !ok {
						continue
					}
					sc := c.Call.StaticCallee()
					if sc == nil || sc.Name() != w.callee || w.arg >= len(c.Call.Args) {
						continue
					}
					found++
					cst, isC := c.Call.Args[w.arg].(*ssa.Const)
					ok2 := isC && cst.Value != nil && cst.Value.String() == fmt.Sprint(w.val)
					got := "a non-constant"
					if isC {
						got = cst.Value.String()
					}
					r.Ob(id, funcName(root), fmt.Sprintf("%s arg#%d=%v", w.callee, w.arg, w.val), c.Pos(), ok2, true,
						ifs(ok2, w.why, fmt.Sprintf("%s passes %s to %s where %v is required: %s", w.caller, got, w.callee, w.val, w.why)))
				}
			}
		}
		if found == 0 {
			r.Anchor(id, fmt.Sprintf("%s does not call %s", w.caller, w.callee))
		}
	}
	_ = sort.Strings
	_ = strings.Join
}
