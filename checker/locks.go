package main

import (
	"fmt"
	"go/constant"
	"go/token"
	"go/types"
	"sort"
	"strings"

	"golang.org/x/tools/go/ssa"
)

// E1 — lock discipline: SSA lockset dataflow.
//
// A lock class is the struct field object holding the mutex
// (client.database.cacheMutex). Per program point and (class, mode) the
// analysis keeps the set of possible pairs (h, d): h = acquisitions −
// releases executed so far, d = releases registered with defer. The net
// count at a return is h − d.

type lockKey struct {
	field *types.Var
	mode  byte // 'R' | 'W'
}

type hd struct{ h, d int8 }

type lockState map[lockKey]map[hd]bool // absent key == {(0,0)}; nil state == unreachable

func (k lockKey) String() string { return lockClassName(k.field) + "/" + string(k.mode) }

func lockClassName(f *types.Var) string {
	if f == nil {
		return "?"
	}
	pk := ""
	if f.Pkg() != nil {
		pk = strings.TrimPrefix(strings.TrimPrefix(f.Pkg().Path(), repoMod), "/")
	}
	return pk + "." + fieldOwner[f] + "." + f.Name()
}

// fieldOwner maps a struct field to the name of the named struct declaring it.
var fieldOwner = map[*types.Var]string{}

func (p *Program) indexFieldOwners() {
	fieldOwner = map[*types.Var]string{}
	for _, nt := range p.namedAll {
		if st, ok := nt.Underlying().(*types.Struct); ok {
			for i := 0; i < st.NumFields(); i++ {
				fieldOwner[st.Field(i)] = nt.Obj().Name()
			}
		}
	}
}

func cloneState(s lockState) lockState {
	out := make(lockState, len(s))
	for k, v := range s {
		m := make(map[hd]bool, len(v))
		for x := range v {
			m[x] = true
		}
		out[k] = m
	}
	return out
}

func joinInto(dst *lockState, src lockState) bool {
	if src == nil {
		return false
	}
	if *dst == nil {
		*dst = cloneState(src)
		return true
	}
	changed := false
	d := *dst
	for k, v := range src {
		m, ok := d[k]
		if !ok {
			m = map[hd]bool{{0, 0}: true}
			d[k] = m
			changed = true // key made explicit (semantically unchanged, harmless)
		}
		for x := range v {
			if !m[x] {
				m[x] = true
				changed = true
			}
		}
	}
	for k, m := range d {
		if _, ok := src[k]; !ok {
			if !m[hd{0, 0}] {
				m[hd{0, 0}] = true
				changed = true
			}
		}
	}
	return changed
}

func clamp(x int8) int8 {
	if x > 3 {
		return 3
	}
	if x < -3 {
		return -3
	}
	return x
}

func (s lockState) apply(k lockKey, dh, dd int8) {
	m, ok := s[k]
	if !ok {
		m = map[hd]bool{{0, 0}: true}
	}
	n := make(map[hd]bool, len(m))
	for x := range m {
		n[hd{clamp(x.h + dh), clamp(x.d + dd)}] = true
	}
	s[k] = n
}

// mayReleased: on some path more releases than acquisitions were executed
// (a lock owned by the caller was unlocked here).
func (s lockState) mayReleased(k lockKey) bool {
	for x := range s[k] {
		if x.h < 0 {
			return true
		}
	}
	return false
}

// mustHeld: on every path the lock is currently held (h >= 1).
func (s lockState) mustHeld(k lockKey) bool {
	m, ok := s[k]
	if !ok || len(m) == 0 {
		return false
	}
	for x := range m {
		if x.h < 1 {
			return false
		}
	}
	return true
}

// mayHeld: on some path the lock is held.
func (s lockState) mayHeld(k lockKey) bool {
	for x := range s[k] {
		if x.h >= 1 {
			return true
		}
	}
	return false
}

func (s lockState) nets(k lockKey) []int {
	m, ok := s[k]
	if !ok {
		return []int{0}
	}
	set := map[int]bool{}
	for x := range m {
		set[int(x.h)-int(x.d)] = true
	}
	var out []int
	for n := range set {
		out = append(out, n)
	}
	sort.Ints(out)
	return out
}

type lockOp struct {
	key     lockKey
	acquire bool
}

// lockOpOf recognises a call to a sync.(RW)Mutex method on a struct field.
func lockOpOf(cc *ssa.CallCommon) (op lockOp, isLock bool, classified bool) {
	fn := cc.StaticCallee()
	if fn == nil || fn.Object() == nil || fn.Pkg == nil || fn.Pkg.Pkg.Path() != "sync" {
		return
	}
	sig := fn.Signature
	if sig.Recv() == nil {
		return
	}
	rt := deref(sig.Recv().Type())
	nt, ok := rt.(*types.Named)
	if !ok || (nt.Obj().Name() != "Mutex" && nt.Obj().Name() != "RWMutex") {
		return
	}
	switch fn.Name() {
	case "Lock":
		op = lockOp{lockKey{nil, 'W'}, true}
	case "Unlock":
		op = lockOp{lockKey{nil, 'W'}, false}
	case "RLock":
		op = lockOp{lockKey{nil, 'R'}, true}
	case "RUnlock":
		op = lockOp{lockKey{nil, 'R'}, false}
	default:
		return
	}
	isLock = true
	if len(cc.Args) == 0 {
		return
	}
	if f := fieldOfAddr(cc.Args[0]); f != nil {
		op.key.field = f
		classified = true
	}
	return
}

// fieldOfAddr returns the struct field whose address v is (&x.f), if any.
func fieldOfAddr(v ssa.Value) *types.Var {
	switch a := v.(type) {
	case *ssa.FieldAddr:
		st, ok := deref(a.X.Type()).Underlying().(*types.Struct)
		if !ok {
			return nil
		}
		return st.Field(a.Field)
	}
	return nil
}

type funcSummary map[lockKey]int // consistent net effect on the caller's state

type lockFacts struct {
	fn          *ssa.Function
	before      map[ssa.Instruction]lockState
	returns     []*ssa.Return
	summary     funcSummary
	condSummary funcSummary
}

type lockAnalysis struct {
	p         *Program
	facts     map[*ssa.Function]*lockFacts
	summaries map[*ssa.Function]funcSummary
	// conditional acquire wrappers: unexported func(...) bool that returns true with the
	// lock held (net d) and false with it released (net 0)
	condSummaries map[*ssa.Function]funcSummary
	nLockOps      int
	unclass       []string
}

func sameSummary(a, b funcSummary) bool {
	if len(a) != len(b) {
		return false
	}
	for k, v := range a {
		if b[k] != v {
			return false
		}
	}
	return true
}

var lockAnalysisCache = map[*Program]*lockAnalysis{}

func getLockAnalysis(p *Program) *lockAnalysis {
	if la, ok := lockAnalysisCache[p]; ok {
		return la
	}
	la := &lockAnalysis{p: p, facts: map[*ssa.Function]*lockFacts{}, summaries: map[*ssa.Function]funcSummary{}, condSummaries: map[*ssa.Function]funcSummary{}}
	for iter := 0; iter < 6; iter++ {
		changed := false
		la.nLockOps = 0
		la.unclass = nil
		for _, fn := range p.srcFuncs {
			f := la.analyse(fn)
			la.facts[fn] = f
			if !sameSummary(la.summaries[fn], f.summary) {
				la.summaries[fn] = f.summary
				changed = true
			}
			if !sameSummary(la.condSummaries[fn], f.condSummary) {
				la.condSummaries[fn] = f.condSummary
				changed = true
			}
		}
		if !changed {
			break
		}
	}
	lockAnalysisCache = map[*Program]*lockAnalysis{p: la}
	return la
}

// calleeSummary returns the lock effect of calling/deferring v.
func (la *lockAnalysis) calleeSummary(cc *ssa.CallCommon) funcSummary {
	if cc.IsInvoke() {
		return nil
	}
	if fn := cc.StaticCallee(); fn != nil {
		return la.summaries[fn]
	}
	if mc, ok := cc.Value.(*ssa.MakeClosure); ok {
		if fn, ok := mc.Fn.(*ssa.Function); ok {
			return la.summaries[fn]
		}
	}
	// a bound method of a mutex field handed around as a value (return r.mutex.RUnlock)
	if s := boundLockSummary(cc.Value, 0); s != nil {
		return s
	}
	// a function value with a single resolution (unlock := db.lockAll(); defer unlock())
	if fs := la.p.funcValues(cc.Value, 0, false); len(fs) == 1 {
		return la.summaries[fs[0]]
	}
	return nil
}

// boundLockSummary: v denotes the bound method value x.f.Lock / Unlock / RLock /
// RUnlock of a mutex field f, directly or as the result of a repository helper
// every return of which yields the same one (`func (r *T) rlock() func() {
// r.mu.RLock(); return r.mu.RUnlock }`, `return t.cache, t.mu.RUnlock`).
func boundLockSummary(v ssa.Value, depth int) funcSummary {
	if depth > 3 {
		return nil
	}
	fromCall := func(c *ssa.Call, idx int) funcSummary {
		g := c.Call.StaticCallee()
		if g == nil || g.Blocks == nil {
			return nil
		}
		var out funcSummary
		for _, b := range g.Blocks {
			if isRecoverBlock(b) {
				continue
			}
			ret, ok := b.Instrs[len(b.Instrs)-1].(*ssa.Return)
			if !ok || idx >= len(ret.Results) {
				continue
			}
			s := boundLockSummary(retValue(ret, idx), depth+1)
			if s == nil || (out != nil && !sameSummary(out, s)) {
				return nil
			}
			out = s
		}
		return out
	}
	switch x := v.(type) {
	case *ssa.MakeClosure:
		fn, ok := x.Fn.(*ssa.Function)
		if !ok || len(x.Bindings) != 1 || !strings.HasSuffix(fn.Name(), "$bound") {
			return nil
		}
		m, ok := fn.Object().(*types.Func)
		if !ok || m.Pkg() == nil || m.Pkg().Path() != "sync" {
			return nil
		}
		sig, _ := m.Type().(*types.Signature)
		if sig == nil || sig.Recv() == nil {
			return nil
		}
		nt, ok := deref(sig.Recv().Type()).(*types.Named)
		if !ok || (nt.Obj().Name() != "Mutex" && nt.Obj().Name() != "RWMutex") {
			return nil
		}
		f := fieldOfAddr(x.Bindings[0])
		if f == nil {
			return nil
		}
		switch m.Name() {
		case "Lock":
			return funcSummary{lockKey{f, 'W'}: 1}
		case "Unlock":
			return funcSummary{lockKey{f, 'W'}: -1}
		case "RLock":
			return funcSummary{lockKey{f, 'R'}: 1}
		case "RUnlock":
			return funcSummary{lockKey{f, 'R'}: -1}
		}
	case *ssa.Call:
		return fromCall(x, 0)
	case *ssa.Extract:
		if c, ok := x.Tuple.(*ssa.Call); ok {
			return fromCall(c, x.Index)
		}
	case *ssa.ChangeType:
		return boundLockSummary(x.X, depth+1)
	}
	return nil
}

// isReturnedClosure: fn is a closure whose only use is to be returned by the
// function that makes it (the "returns its own unlock function" idiom).
func isReturnedClosure(fn *ssa.Function) bool {
	parent := fn.Parent()
	if parent == nil {
		return false
	}
	found := false
	for _, b := range parent.Blocks {
		for _, ins := range b.Instrs {
			mc, ok := ins.(*ssa.MakeClosure)
			if !ok || mc.Fn != ssa.Value(fn) {
				continue
			}
			found = true
			if refs := mc.Referrers(); refs != nil {
				for _, ref := range *refs {
					switch ref.(type) {
					case *ssa.Return, *ssa.DebugRef:
					default:
						return false
					}
				}
			}
		}
	}
	return found
}

func (la *lockAnalysis) transfer(s lockState, ins ssa.Instruction) {
	switch c := ins.(type) {
	case *ssa.Call:
		if op, isLock, cls := lockOpOf(c.Common()); isLock {
			la.nLockOps++
			if !cls {
				la.unclass = append(la.unclass, la.p.Pos(c.Pos()))
				return
			}
			if op.acquire {
				s.apply(op.key, 1, 0)
			} else {
				s.apply(op.key, -1, 0)
			}
			return
		}
		for k, d := range la.calleeSummary(c.Common()) {
			s.apply(k, int8(d), 0)
		}
	case *ssa.Defer:
		if op, isLock, cls := lockOpOf(c.Common()); isLock {
			la.nLockOps++
			if !cls {
				la.unclass = append(la.unclass, la.p.Pos(c.Pos()))
				return
			}
			if op.acquire {
				s.apply(op.key, 0, -1)
			} else {
				s.apply(op.key, 0, 1)
			}
			return
		}
		for k, d := range la.calleeSummary(c.Common()) {
			s.apply(k, 0, int8(-d))
		}
	}
}

func (la *lockAnalysis) analyse(fn *ssa.Function) *lockFacts {
	f := &lockFacts{fn: fn, before: map[ssa.Instruction]lockState{}}
	if len(fn.Blocks) == 0 {
		return f
	}
	in := make([]lockState, len(fn.Blocks))
	in[0] = lockState{}
	work := []*ssa.BasicBlock{fn.Blocks[0]}
	inWork := map[int]bool{0: true}
	for len(work) > 0 {
		b := work[0]
		work = work[1:]
		inWork[b.Index] = false
		s := cloneState(in[b.Index])
		for _, ins := range b.Instrs {
			la.transfer(s, ins)
		}
		for si, succ := range b.Succs {
			st := s
			if adj := la.edgeAdjust(b, si); adj != nil {
				st = cloneState(s)
				for k, d := range adj {
					st.apply(k, int8(d), 0)
				}
			}
			if joinInto(&in[succ.Index], st) {
				if !inWork[succ.Index] {
					inWork[succ.Index] = true
					work = append(work, succ)
				}
			}
		}
	}
	// final pass: record state before each instruction
	saveOps := la.nLockOps
	for _, b := range fn.Blocks {
		if in[b.Index] == nil {
			continue
		}
		s := cloneState(in[b.Index])
		for _, ins := range b.Instrs {
			switch ins.(type) {
			case *ssa.Call, *ssa.Defer, *ssa.Go, *ssa.Return, *ssa.Store, *ssa.UnOp, *ssa.MapUpdate, *ssa.Lookup, *ssa.Range, *ssa.FieldAddr, *ssa.Field:
				f.before[ins] = cloneState(s)
			}
			if r, ok := ins.(*ssa.Return); ok {
				f.returns = append(f.returns, r)
			}
			la.transfer(s, ins)
		}
	}
	la.nLockOps = saveOps
	// summary: the same singleton net at every return
	sum := funcSummary{}
	keys := map[lockKey]bool{}
	for _, r := range f.returns {
		for k := range f.before[r] {
			keys[k] = true
		}
	}
	for k := range keys {
		consistent := true
		val := 0
		for i, r := range f.returns {
			ns := f.before[r].nets(k)
			if len(ns) != 1 {
				consistent = false
				break
			}
			if i == 0 {
				val = ns[0]
			} else if ns[0] != val {
				consistent = false
				break
			}
		}
		// only unexported helpers can be lock wrappers ("returns holding the
		// lock, caller must release"); an exported function leaving a lock held
		// is a leak, whatever its shape
		if consistent && val != 0 && len(f.returns) > 0 && !isExportedEntry(fn) && fn.Parent() == nil {
			sum[k] = val
		}
		// the unlock closure a lock helper returns: a release wrapper
		if consistent && val < 0 && len(f.returns) > 0 && fn.Parent() != nil && isReturnedClosure(fn) {
			sum[k] = val
		}
	}
	f.summary = sum
	// conditional acquire wrapper: func(...) bool, every `return true` leaves the same
	// non-zero net, every `return false` leaves net 0
	f.condSummary = funcSummary{}
	res := fn.Signature.Results()
	if !isExportedEntry(fn) && fn.Parent() == nil && res.Len() == 1 && len(f.returns) > 1 {
		bt, _ := res.At(0).Type().Underlying().(*types.Basic)
		isBool := bt != nil && bt.Kind() == types.Bool
		isErr := types.Identical(res.At(0).Type(), types.Universe.Lookup("error").Type())
		if isBool || isErr {
			for k := range keys {
				if _, plain := sum[k]; plain {
					continue
				}
				okAll, val, sawTrue := true, 0, false
				for _, r := range f.returns {
					if isRecoverBlock(r.Block()) {
						continue
					}
					rv := retValue(r, 0)
					ns := f.before[r].nets(k)
					if len(ns) != 1 {
						okAll = false
						break
					}
					acquired := false
					if isBool {
						c, isC := rv.(*ssa.Const)
						if !isC || c.Value == nil || c.Value.Kind() != constant.Bool {
							okAll = false
							break
						}
						acquired = constant.BoolVal(c.Value)
					} else {
						// func(...) error: `return nil` holds the lock, a return of an error that
						// cannot be nil does not
						if isNilConst(rv) {
							acquired = true
						} else if !definitelyNonNilError(rv, r.Block()) {
							okAll = false
							break
						}
					}
					if acquired {
						if sawTrue && ns[0] != val {
							okAll = false
							break
						}
						val, sawTrue = ns[0], true
					} else if ns[0] != 0 {
						okAll = false
						break
					}
				}
				if okAll && sawTrue && val != 0 {
					f.condSummary[k] = val
				}
			}
		}
	}
	return f
}

// definitelyNonNilError: v is an error value that cannot be nil: made by
// fmt.Errorf/errors.New, a package-level sentinel, a concrete value boxed into the
// interface, or tested non-nil on the way to b.
func definitelyNonNilError(v ssa.Value, b *ssa.BasicBlock) bool {
	switch x := v.(type) {
	case *ssa.MakeInterface:
		return true
	case *ssa.Call:
		if sc := x.Call.StaticCallee(); sc != nil {
			switch sc.String() {
			case "fmt.Errorf", "errors.New":
				return true
			}
		}
	case *ssa.UnOp:
		if _, isG := x.X.(*ssa.Global); isG && x.Op == token.MUL {
			return true
		}
	}
	for _, f := range factsAt(b) {
		cond, truth := normFact(f)
		if bo, ok := cond.(*ssa.BinOp); ok && (bo.Op == token.NEQ) == truth && (bo.Op == token.NEQ || bo.Op == token.EQL) {
			if (bo.X == v && isNilConst(bo.Y)) || (bo.Y == v && isNilConst(bo.X)) {
				return true
			}
		}
	}
	return false
}

// edgeAdjust: block b ends in a branch on the result of a conditional acquire wrapper;
// on the edge where the wrapper returned true the lock effect of the wrapper applies.
func (la *lockAnalysis) edgeAdjust(b *ssa.BasicBlock, succIdx int) funcSummary {
	if len(b.Instrs) == 0 || len(b.Succs) != 2 {
		return nil
	}
	iff, ok := b.Instrs[len(b.Instrs)-1].(*ssa.If)
	if !ok {
		return nil
	}
	c, truth := normFact(edgeFact{iff.Cond, succIdx == 0, b})
	// err := wrapper(); if err != nil {...}: the lock is held where err == nil
	if bo, isBin := c.(*ssa.BinOp); isBin && (bo.Op == token.EQL || bo.Op == token.NEQ) {
		x, y := bo.X, bo.Y
		if isNilConst(x) {
			x, y = y, x
		}
		if isNilConst(y) {
			if call, isCall := x.(*ssa.Call); isCall && types.Identical(call.Type(), types.Universe.Lookup("error").Type()) {
				if (bo.Op == token.EQL) == truth {
					c, truth = call, true
				} else {
					return nil
				}
			}
		}
	}
	call, ok := c.(*ssa.Call)
	if !ok || !truth {
		return nil
	}
	sc := call.Call.StaticCallee()
	if sc == nil {
		return nil
	}
	if cs := la.condSummaries[sc]; len(cs) > 0 {
		return cs
	}
	return nil
}

func pkgOf(fn *ssa.Function) string {
	for fn.Parent() != nil {
		fn = fn.Parent()
	}
	if fn.Pkg == nil {
		return ""
	}
	return strings.TrimPrefix(strings.TrimPrefix(fn.Pkg.Pkg.Path(), repoMod), "/")
}

// ---------------------------------------------------------------------------
// L1 pairing

func ruleL1(pkgs ...string) func(p *Program, r *Reporter) {
	want := map[string]bool{}
	for _, k := range pkgs {
		want[k] = true
	}
	id := "L1"
	return func(p *Program, r *Reporter) {
		la := getLockAnalysis(p)
		for _, fn := range p.srcFuncs {
			if !want[pkgOf(fn)] {
				continue
			}
			f := la.facts[fn]
			keys := map[lockKey]bool{}
			for _, st := range f.before {
				for k := range st {
					keys[k] = true
				}
			}
			if len(keys) == 0 {
				continue
			}
			var ks []lockKey
			for k := range keys {
				ks = append(ks, k)
			}
			sort.Slice(ks, func(i, j int) bool { return ks[i].String() < ks[j].String() })
			for _, k := range ks {
				if w, isCond := f.condSummary[k]; isCond {
					for _, ret := range f.returns {
						r.Ob(id, funcName(fn), k.String()+" conditional wrapper", ret.Pos(), true, true,
							fmt.Sprintf("conditional wrapper: returns true with net %+d and false with net 0; callers account for it on the true edge", w))
					}
					continue
				}
				if w, isWrapper := f.summary[k]; isWrapper {
					// acquire/release wrapper: consistent non-zero net at every return;
					// the obligation is on each call site (applied through the summary)
					for _, ret := range f.returns {
						r.Ob(id, funcName(fn), k.String()+" wrapper", ret.Pos(), true, true,
							fmt.Sprintf("wrapper: every return leaves net %+d, callers account for it", w))
					}
					continue
				}
				for _, ret := range f.returns {
					ns := f.before[ret].nets(k)
					ok := len(ns) == 1 && ns[0] == 0
					reason := "net 0 at return (acquisitions = releases + deferred releases on every path)"
					if !ok && k.mode == 'R' && ns[0] >= 0 && !la.hasSharedWriter(k.field) {
						r.Ob(id, funcName(fn), k.String(), retPos(ret, fn), true, true,
							fmt.Sprintf("shared lock left held (net %v) but %s is never acquired exclusively outside construction, so no acquirer can ever block on it", ns, lockClassName(k.field)))
						continue
					}
					if !ok {
						reason = fmt.Sprintf("%s not balanced at this return: net %v (acquired and neither released nor deferred on some path)", k, ns)
					}
					r.Ob(id, funcName(fn), k.String(), retPos(ret, fn), ok, true, reason)
				}
			}
		}
		for _, u := range la.unclass {
			r.Info("L1: lock operation on a mutex that is not a struct field at %s (not tracked)", u)
		}
	}
}

func retPos(ret *ssa.Return, fn *ssa.Function) token.Pos {
	if ret.Pos().IsValid() {
		return ret.Pos()
	}
	// implicit return at end of function
	if fn.Syntax() != nil {
		return fn.Syntax().End() - 1
	}
	return fn.Pos()
}

// ---------------------------------------------------------------------------
// call-site index (static callees only; closures resolved to their creation)

type callSite struct {
	caller *ssa.Function
	instr  ssa.Instruction // *ssa.Call | *ssa.Defer | *ssa.Go
	// inner: when the closure is handed to a helper of the repository that only
	// calls it (withLock(func(){...})), the calls of the parameter inside that helper
	inner []callSite
}

// paramCallSites lists the calls of parameter idx inside callee.
func paramCallSites(callee *ssa.Function, idx int) []callSite {
	if callee == nil || idx >= len(callee.Params) {
		return nil
	}
	var out []callSite
	if refs := callee.Params[idx].Referrers(); refs != nil {
		for _, ref := range *refs {
			if c, ok := ref.(*ssa.Call); ok && c.Call.Value == callee.Params[idx] {
				out = append(out, callSite{caller: callee, instr: c})
			}
		}
	}
	return out
}

type callIndex struct {
	sites     map[*ssa.Function][]callSite
	usedAsVal map[*ssa.Function]bool // referenced other than as static callee
}

var callIndexCache = map[*Program]*callIndex{}

func getCallIndex(p *Program) *callIndex {
	if ci, ok := callIndexCache[p]; ok {
		return ci
	}
	ci := &callIndex{sites: map[*ssa.Function][]callSite{}, usedAsVal: map[*ssa.Function]bool{}}
	for _, fn := range p.srcFuncs {
		for _, b := range fn.Blocks {
			for _, ins := range b.Instrs {
				var cc *ssa.CallCommon
				if ci2, ok := ins.(ssa.CallInstruction); ok {
					cc = ci2.Common()
					if callee := cc.StaticCallee(); callee != nil {
						ci.sites[callee] = append(ci.sites[callee], callSite{caller: fn, instr: ins})
					}
				}
				// operands that are functions used as values
				for _, op := range ins.Operands(nil) {
					if op == nil || *op == nil {
						continue
					}
					if cc != nil && !cc.IsInvoke() && *op == cc.Value {
						if _, isFn := cc.Value.(*ssa.Function); isFn {
							continue
						}
					}
					switch v := (*op).(type) {
					case *ssa.Function:
						ci.usedAsVal[v] = true
					}
				}
			}
		}
	}
	callIndexCache = map[*Program]*callIndex{p: ci}
	return ci
}

// ---------------------------------------------------------------------------
// L2 guarded-by

type guardSpec struct {
	pkg, typ, field string
	lockField       string
	lockTyp         string // owner of the lock when it is another struct of the same package
	// optional: the entry describes one way of keeping a value that the code may keep
	// differently (e.g. behind a small type with its own lock); when field or lock do
	// not resolve the entry is skipped instead of reported as a lost anchor
	optional bool
}

var guardTable = []guardSpec{
	{"client", "database", "deferUpdates", "cacheMutex", "", false},
	{"client", "database", "deferredUpdates", "cacheMutex", "", false},
	{"client", "database", "api", "cacheMutex", "", false},
	{"client", "database", "monitors", "monitorsMutex", "", false},
	{"client", "database", "model", "modelMutex", "", false},
	{"client", "database", "lastTransactionIDs", "lastTransactionIDsMutex", "", true},
	{"client", "ovsdbClient", "rpcClient", "rpcMutex", "", false},
	{"client", "ovsdbClient", "connected", "rpcMutex", "", false},
	{"client", "ovsdbClient", "endpoints", "rpcMutex", "", false},
	{"cache", "RowCache", "cache", "mutex", "", false},
	{"cache", "RowCache", "indexes", "mutex", "", false},
	{"cache", "TableCache", "cache", "mutex", "", false},
	{"cache", "TableCache", "dbModel", "mutex", "", false},
	// optional: the handler list may live in a small type of its own that bundles it with its lock
	{"cache", "eventProcessor", "handlers", "handlersMutex", "", true},
	{"server", "OvsdbServer", "monitors", "monitorMutex", "", false},
	{"server", "connectionMonitors", "monitors", "monitorMutex", "OvsdbServer", false},
	{"server", "OvsdbServer", "models", "modelsMutex", "", false},
	{"server", "OvsdbServer", "ready", "readyMutex", "", false},
	{"server", "OvsdbServer", "doEcho", "readyMutex", "", false},
	{"database/inmemory", "inMemoryDatabase", "databases", "mutex", "", false},
}

// l2Exceptions: one named function each, with the reason the access is
// ordered by something a lockset analysis cannot see (confirmed by reading).
var l2Exceptions = map[string]string{
	"(*cache.RowCache).IndexExists|cache.RowCache.indexes":                            "only called on server-side caches from the commit-time index check, serialised by OvsdbServer.txnMutex with every writer (Commit)",
	"(*cache.TableCache).Populate|cache.RowCache.cache":                               "read under the exclusive TableCache.mutex; the only client-side writer path of RowCache.cache is Populate itself",
	"(*cache.TableCache).Populate2|cache.RowCache.cache":                              "read under the exclusive TableCache.mutex; the only client-side writer path of RowCache.cache is Populate2 itself",
	"(*cache.TableCache).ApplyCacheUpdate|cache.TableCache.cache":                     "server-side caches only; their table map is never replaced after NewTableCache (no Purge on the server)",
	"(*client.ovsdbClient).connect|client.database.model":                             "read on the goroutine of the only writer: database.model is replaced by tryEndpoint, which connect() itself calls while its callers hold rpcMutex exclusively",
	"(*client.ovsdbClient).tryEndpoint|client.database.model":                         "tryEndpoint is the writer; this read follows its own store on the same goroutine",
	"(*client.ovsdbClient).monitor|client.database.model":                             "only reached while reconnecting (the purge of a single resumed monitor), i.e. from connect() on the writer's goroutine",
	"(*client.ovsdbClient).handleDisconnectNotification|client.ovsdbClient.rpcClient": "first statement of the goroutine started by connect(): rpcClient can only be rewritten by a later connect, which requires this goroutine to have set it to nil first",
}

// l2ExceptionRequires: the lock (pkg, type, field) that must be held exclusively
// at the access for the exception of the same key to apply.
var l2ExceptionRequires = map[string][3]string{
	"(*cache.TableCache).Populate|cache.RowCache.cache":  {"cache", "TableCache", "mutex"},
	"(*cache.TableCache).Populate2|cache.RowCache.cache": {"cache", "TableCache", "mutex"},
}

type access struct {
	fn    *ssa.Function
	instr ssa.Instruction
	field *types.Var
	write bool
	ctor  bool
}

func baseIsLocalAlloc(v ssa.Value) bool {
	for {
		switch x := v.(type) {
		case *ssa.Alloc:
			return true
		case *ssa.FieldAddr:
			v = x.X
		case *ssa.IndexAddr:
			v = x.X
		default:
			return false
		}
	}
}

// collectAccesses enumerates reads and writes of the given fields.
func collectAccesses(p *Program, fields map[*types.Var]bool) []access {
	var out []access
	for _, fn := range p.srcFuncs {
		for _, b := range fn.Blocks {
			for _, ins := range b.Instrs {
				fa, ok := ins.(*ssa.FieldAddr)
				if !ok {
					if fv, ok := ins.(*ssa.Field); ok {
						if st, ok := fv.X.Type().Underlying().(*types.Struct); ok && fields[st.Field(fv.Field)] {
							out = append(out, access{fn, ins, st.Field(fv.Field), false, false})
						}
					}
					continue
				}
				f := fieldOfAddr(fa)
				if f == nil || !fields[f] {
					continue
				}
				ctor := baseIsLocalAlloc(fa.X)
				refs := fa.Referrers()
				if refs == nil {
					continue
				}
				for _, ref := range *refs {
					switch u := ref.(type) {
					case *ssa.Store:
						if u.Addr == fa {
							out = append(out, access{fn, u, f, true, ctor})
						}
					case *ssa.UnOp: // load
						out = append(out, access{fn, u, f, false, ctor})
						// writes through the loaded map/slice value
						if lr := u.Referrers(); lr != nil {
							for _, r2 := range *lr {
								switch w := r2.(type) {
								case *ssa.MapUpdate:
									if w.Map == u {
										out = append(out, access{fn, w, f, true, ctor})
									}
								case *ssa.Call:
									if bi, ok := w.Call.Value.(*ssa.Builtin); ok && bi.Name() == "delete" && len(w.Call.Args) > 0 && w.Call.Args[0] == u {
										out = append(out, access{fn, w, f, true, ctor})
									}
								case *ssa.IndexAddr:
									if w.X == u {
										if ir := w.Referrers(); ir != nil {
											for _, r3 := range *ir {
												if st, ok := r3.(*ssa.Store); ok && st.Addr == w {
													out = append(out, access{fn, st, f, true, ctor})
												}
											}
										}
									}
								}
							}
						}
					case *ssa.FieldAddr:
						// a member of a struct-valued guarded field: x.f.g
						if u.X != ssa.Value(fa) {
							continue
						}
						if sr := u.Referrers(); sr != nil {
							for _, r2 := range *sr {
								switch w := r2.(type) {
								case *ssa.UnOp:
									out = append(out, access{fn, w, f, false, ctor})
								case *ssa.Store:
									if w.Addr == ssa.Value(u) {
										out = append(out, access{fn, w, f, true, ctor})
									}
								}
							}
						}
					case ssa.CallInstruction:
						// &field escapes into a call: treat as write at the call
						out = append(out, access{fn, ref, f, true, ctor})
					}
				}
			}
		}
	}
	return out
}

func isExportedEntry(fn *ssa.Function) bool {
	if fn.Parent() != nil {
		return false
	}
	return fn.Object() != nil && fn.Object().Exported()
}

// heldAt decides whether guard (write mode required if write) is must-held
// before instr in fn, moving the obligation to every static caller when the
// function is an unexported helper.
func (la *lockAnalysis) heldAt(fn *ssa.Function, instr ssa.Instruction, guard *types.Var, write bool, visiting map[*ssa.Function]bool, depth int) (bool, string) {
	f := la.facts[fn]
	if f == nil {
		return false, "function not analysed"
	}
	st, ok := f.before[instr]
	if !ok {
		return false, "no lock state recorded (unreachable?)"
	}
	if st.mustHeld(lockKey{guard, 'W'}) {
		return true, "held exclusively in " + funcName(fn)
	}
	if !write && st.mustHeld(lockKey{guard, 'R'}) {
		return true, "held shared in " + funcName(fn)
	}
	if write && st.mustHeld(lockKey{guard, 'R'}) {
		return false, "write under a shared (R) lock in " + funcName(fn)
	}
	if st.mayHeld(lockKey{guard, 'W'}) || st.mayHeld(lockKey{guard, 'R'}) {
		return false, "lock held on some paths only in " + funcName(fn)
	}
	// a lock taken by the caller may have been released in this function
	if st.mayReleased(lockKey{guard, 'W'}) || st.mayReleased(lockKey{guard, 'R'}) {
		return false, "the caller's lock has been released on some path in " + funcName(fn)
	}
	// not held here: obligation moves to the callers
	if depth > 8 {
		return false, "caller chain too deep"
	}
	if visiting[fn] {
		return true, "recursive"
	}
	visiting[fn] = true
	defer delete(visiting, fn)
	ci := getCallIndex(la.p)
	if fn.Parent() != nil {
		// closure: executed where it is called or passed as a synchronous callback
		sites, fail := la.closureSites(fn)
		if fail != "" {
			return false, fail
		}
		if len(sites) == 0 {
			return false, "closure with no visible call site"
		}
		for _, s := range sites {
			if len(s.inner) > 0 {
				// withLock(func(){...}): decided where the helper calls its parameter
				all := true
				for _, in := range s.inner {
					if ok, _ := la.heldAt(in.caller, in.instr, guard, write, visiting, depth+1); !ok {
						all = false
						break
					}
				}
				if all {
					continue
				}
			}
			if ok, why := la.heldAt(s.caller, s.instr, guard, write, visiting, depth+1); !ok {
				return false, why
			}
		}
		return true, "held where the closure is invoked"
	}
	if isExportedEntry(fn) {
		return false, "not held in exported entry point " + funcName(fn)
	}
	if ci.usedAsVal[fn] {
		return false, funcName(fn) + " is used as a function value (unknown callers) and does not hold the lock"
	}
	sites := ci.sites[fn]
	if len(sites) == 0 {
		return false, "no static caller of " + funcName(fn) + " holds the lock"
	}
	for _, s := range sites {
		if _, isGo := s.instr.(*ssa.Go); isGo {
			return false, funcName(fn) + " started as goroutine at " + la.p.Pos(s.instr.Pos()) + " holding nothing"
		}
		if _, isDefer := s.instr.(*ssa.Defer); isDefer {
			return false, funcName(fn) + " deferred at " + la.p.Pos(s.instr.Pos())
		}
		if ok, why := la.heldAt(s.caller, s.instr, guard, write, visiting, depth+1); !ok {
			return false, why + " (via call at " + la.p.Pos(s.instr.Pos()) + ")"
		}
	}
	return true, fmt.Sprintf("held by all %d static callers of %s", len(sites), funcName(fn))
}

func ruleL2(id string, pkgs ...string) func(p *Program, r *Reporter) {
	want := map[string]bool{}
	for _, k := range pkgs {
		want[k] = true
	}
	return func(p *Program, r *Reporter) {
		la := getLockAnalysis(p)
		fields := map[*types.Var]bool{}
		guardOf := map[*types.Var]*types.Var{}
		for _, g := range guardTable {
			if !want[g.pkg] {
				continue
			}
			f := p.Field(g.pkg, g.typ, g.field)
			lt := g.typ
			if g.lockTyp != "" {
				lt = g.lockTyp
			}
			l := p.Field(g.pkg, lt, g.lockField)
			if f == nil || l == nil {
				if g.optional {
					continue
				}
				r.Anchor(id, fmt.Sprintf("guard table entry %s.%s.%s -> %s", g.pkg, g.typ, g.field, g.lockField))
				continue
			}
			fields[f] = true
			guardOf[f] = l
		}
		for _, a := range collectAccesses(p, fields) {
			kind := "read"
			if a.write {
				kind = "write"
			}
			construct := lockClassName(a.field) + " " + kind
			fname := funcName(a.fn)
			if a.ctor {
				r.Ob(id, fname, construct, a.instr.Pos(), true, false, "object under construction (not yet shared)")
				continue
			}
			ok, why := la.heldAt(a.fn, a.instr, guardOf[a.field], a.write, map[*ssa.Function]bool{}, 0)
			if !ok && !a.write {
				exKey := fname + "|" + lockClassName(a.field)
				if _, isEx := l2Exceptions[exKey]; !isEx {
					// the access moved into a private helper of the excepted functions: the
					// exception follows it (its condition is still checked at the access)
					var roots []*ssa.Function
					var rootKeys []string
					for k := range l2Exceptions {
						if !strings.HasSuffix(k, "|"+lockClassName(a.field)) {
							continue
						}
						for _, sf := range p.srcFuncs {
							if funcName(sf)+"|"+lockClassName(a.field) == k {
								roots = append(roots, sf)
								rootKeys = append(rootKeys, k)
							}
						}
					}
					if len(roots) > 0 {
						region := p.PrivateRegion(roots...)
						top := a.fn
						for top.Parent() != nil {
							top = top.Parent()
						}
						isRoot := false
						for _, rt := range roots {
							if rt == top {
								isRoot = true
							}
						}
						if region[top] && !isRoot {
							sort.Strings(rootKeys)
							exKey = rootKeys[0]
						}
					}
				}
				if ex, isEx := l2Exceptions[exKey]; isEx {
					// an exception that rests on another lock being held exclusively is only
					// as good as that lock: check it at this very access
					if req, has := l2ExceptionRequires[exKey]; has {
						rl := p.Field(req[0], req[1], req[2])
						st := la.facts[a.fn].before[a.instr]
						heldHere := rl != nil && st != nil && st.mustHeld(lockKey{rl, 'W'})
						if !heldHere && rl != nil {
							heldHere, _ = la.heldAt(a.fn, a.instr, rl, true, map[*ssa.Function]bool{}, 0)
						}
						if !heldHere {
							r.Ob(id, fname, construct, a.instr.Pos(), false, true,
								"read of "+lockClassName(a.field)+" without its own lock is only safe while "+req[0]+"."+req[1]+"."+req[2]+" is held exclusively, which is not the case here (shared or not held): concurrent calls interleave their read-modify-write of the same row")
							continue
						}
					}
					r.Ob(id, fname, construct, a.instr.Pos(), true, false, "exception (read, one named function): "+ex)
					continue
				}
			}
			reason := lockClassName(guardOf[a.field]) + " " + why
			if !ok {
				reason = kind + " of " + lockClassName(a.field) + " without " + lockClassName(guardOf[a.field]) + ": " + why
			}
			r.Ob(id, fname, construct, a.instr.Pos(), ok, true, reason)
		}
	}
}

// syncCallbackExternal: functions outside the repo known to call their
// function argument before returning.
var syncCallbackExternal = map[string]bool{
	"github.com/cenkalti/backoff/v4.Retry":       true,
	"github.com/cenkalti/backoff/v4.RetryNotify": true,
	"sort.Slice":       true,
	"sort.SliceStable": true,
	"(*sync.Once).Do":  true,
}

// paramOnlyCalled reports whether parameter idx of fn is only ever called
// (not stored, not started as goroutine, not passed on).
func paramOnlyCalled(fn *ssa.Function, idx int) bool {
	if fn == nil || fn.Blocks == nil || idx >= len(fn.Params) {
		return false
	}
	prm := fn.Params[idx]
	refs := prm.Referrers()
	if refs == nil {
		return true
	}
	for _, ref := range *refs {
		c, ok := ref.(*ssa.Call)
		if !ok || c.Call.Value != prm {
			if _, isDbg := ref.(*ssa.DebugRef); isDbg {
				continue
			}
			return false
		}
	}
	return true
}

// valueSites finds where a function value (a closure) is executed.
func (la *lockAnalysis) valueSites(v ssa.Value, in *ssa.Function, seen map[ssa.Value]bool) (sites []callSite, fail string) {
	if seen[v] {
		return nil, ""
	}
	seen[v] = true
	refs := v.Referrers()
	if refs == nil {
		return nil, ""
	}
	for _, ref := range *refs {
		switch u := ref.(type) {
		case *ssa.DebugRef:
		case *ssa.Go:
			return nil, "closure runs in a new goroutine (" + la.p.Pos(u.Pos()) + ") holding nothing"
		case *ssa.Defer:
			return nil, "deferred closure: runs at function exit, lock state not tracked"
		case *ssa.Call:
			if u.Call.Value == v {
				sites = append(sites, callSite{caller: in, instr: u})
				continue
			}
			// passed as an argument: synchronous callback?
			argIdx := -1
			for i, a := range u.Call.Args {
				if a == v {
					argIdx = i
				}
			}
			if argIdx < 0 {
				return nil, "closure escapes into call at " + la.p.Pos(u.Pos())
			}
			callees, ok := la.p.Callees(u)
			if !ok {
				return nil, "closure passed to a dynamic call at " + la.p.Pos(u.Pos())
			}
			if len(callees) == 0 {
				return nil, "closure passed to an interface method with no implementation in the repository at " + la.p.Pos(u.Pos())
			}
			var inner []callSite
			allRepo := true
			for _, callee := range callees {
				if la.p.inRepo(callee) {
					pi := argIdx
					if u.Call.IsInvoke() {
						pi = argIdx + 1 // receiver is Params[0]
					}
					if !paramOnlyCalled(callee, pi) {
						return nil, "closure passed to " + funcName(callee) + ", which does more than call it"
					}
					inner = append(inner, paramCallSites(callee, pi)...)
				} else if !syncCallbackExternal[callee.String()] {
					return nil, "closure passed to external " + callee.String() + " (not known to be synchronous)"
				} else {
					allRepo = false
				}
			}
			if !allRepo {
				inner = nil
			}
			sites = append(sites, callSite{caller: in, instr: u, inner: inner})
		case *ssa.Store:
			if u.Val != v {
				continue
			}
			al, ok := u.Addr.(*ssa.Alloc)
			if !ok {
				if fv, ok := u.Addr.(*ssa.FreeVar); ok {
					_ = fv
				}
				return nil, "closure stored outside a local variable"
			}
			s2, f2 := la.cellSites(al, in, seen)
			if f2 != "" {
				return nil, f2
			}
			sites = append(sites, s2...)
		case *ssa.MakeClosure:
			// v itself captured by another closure (by value)
			for i, b := range u.Bindings {
				if b == v {
					g := u.Fn.(*ssa.Function)
					s2, f2 := la.valueSites(g.FreeVars[i], g, seen)
					if f2 != "" {
						return nil, f2
					}
					sites = append(sites, s2...)
				}
			}
		case *ssa.Phi, *ssa.MakeInterface, *ssa.ChangeType:
			return nil, "closure flows through " + fmt.Sprintf("%T", ref)
		default:
			return nil, "closure escapes (" + fmt.Sprintf("%T", ref) + ")"
		}
	}
	return sites, ""
}

// cellSites follows a local variable cell (Alloc or captured FreeVar of pointer type) holding a closure.
func (la *lockAnalysis) cellSites(cell ssa.Value, in *ssa.Function, seen map[ssa.Value]bool) (sites []callSite, fail string) {
	if seen[cell] {
		return nil, ""
	}
	seen[cell] = true
	refs := cell.Referrers()
	if refs == nil {
		return nil, ""
	}
	for _, ref := range *refs {
		switch u := ref.(type) {
		case *ssa.DebugRef, *ssa.Store:
		case *ssa.UnOp:
			s2, f2 := la.valueSites(u, in, seen)
			if f2 != "" {
				return nil, f2
			}
			sites = append(sites, s2...)
		case *ssa.MakeClosure:
			for i, b := range u.Bindings {
				if b == cell {
					g := u.Fn.(*ssa.Function)
					s2, f2 := la.cellSites(g.FreeVars[i], g, seen)
					if f2 != "" {
						return nil, f2
					}
					sites = append(sites, s2...)
				}
			}
		default:
			return nil, "closure variable escapes (" + fmt.Sprintf("%T", ref) + ")"
		}
	}
	return sites, ""
}

func (la *lockAnalysis) closureSites(fn *ssa.Function) ([]callSite, string) {
	parent := fn.Parent()
	var sites []callSite
	seen := map[ssa.Value]bool{}
	found := false
	for _, b := range parent.Blocks {
		for _, ins := range b.Instrs {
			if mc, ok := ins.(*ssa.MakeClosure); ok && mc.Fn == fn {
				found = true
				s, f := la.valueSites(mc, parent, seen)
				if f != "" {
					return nil, f
				}
				sites = append(sites, s...)
				continue
			}
			// closure without free variables: the *ssa.Function is used directly
			for _, op := range ins.Operands(nil) {
				if op == nil || *op != ssa.Value(fn) {
					continue
				}
				found = true
				switch u := ins.(type) {
				case *ssa.Call:
					if u.Call.Value == ssa.Value(fn) {
						sites = append(sites, callSite{caller: parent, instr: u})
					} else {
						// argument: reuse the argument logic through a pseudo check
						callees, ok := la.p.Callees(u)
						if !ok || len(callees) == 0 {
							return nil, "closure passed to a dynamic call at " + la.p.Pos(u.Pos())
						}
						argIdx := -1
						for i, a := range u.Call.Args {
							if a == ssa.Value(fn) {
								argIdx = i
							}
						}
						for _, callee := range callees {
							pi := argIdx
							if u.Call.IsInvoke() {
								pi++
							}
							if la.p.inRepo(callee) {
								if !paramOnlyCalled(callee, pi) {
									return nil, "closure passed to " + funcName(callee) + ", which does more than call it"
								}
							} else if !syncCallbackExternal[callee.String()] {
								return nil, "closure passed to external " + callee.String()
							}
						}
						sites = append(sites, callSite{caller: parent, instr: u})
					}
				case *ssa.Go:
					return nil, "closure runs in a new goroutine (" + la.p.Pos(u.Pos()) + ") holding nothing"
				case *ssa.Defer:
					return nil, "deferred closure"
				case *ssa.Store:
					if al, ok := u.Addr.(*ssa.Alloc); ok {
						s, f := la.cellSites(al, parent, seen)
						if f != "" {
							return nil, f
						}
						sites = append(sites, s...)
					} else {
						return nil, "closure stored outside a local variable"
					}
				default:
					return nil, "closure escapes (" + fmt.Sprintf("%T", ins) + ")"
				}
			}
		}
	}
	if !found {
		return nil, "closure creation not found"
	}
	return sites, ""
}

// ---------------------------------------------------------------------------
// L3' outermost-lock rule

// acquirers computes the functions that may (transitively, through static
// calls, interface invokes and directly invoked closures) acquire lock class f.
func (la *lockAnalysis) acquirers(f *types.Var) map[*ssa.Function]bool {
	acq := map[*ssa.Function]bool{}
	for _, fn := range la.p.srcFuncs {
		for _, b := range fn.Blocks {
			for _, ins := range b.Instrs {
				if c, ok := ins.(*ssa.Call); ok {
					if op, isLock, cls := lockOpOf(c.Common()); isLock && cls && op.acquire && op.key.field == f {
						acq[fn] = true
					}
				}
			}
		}
	}
	for changed := true; changed; {
		changed = false
		for _, fn := range la.p.srcFuncs {
			if acq[fn] {
				continue
			}
			for _, b := range fn.Blocks {
				for _, ins := range b.Instrs {
					c, ok := ins.(*ssa.Call)
					if !ok {
						continue
					}
					for _, callee := range la.calleesOf(c) {
						if acq[callee] {
							acq[fn] = true
							changed = true
						}
					}
				}
			}
		}
	}
	return acq
}

// calleesOf: static callee, interface implementations, or a closure called directly.
func (la *lockAnalysis) calleesOf(c ssa.CallInstruction) []*ssa.Function {
	cc := c.Common()
	if fns, ok := la.p.Callees(c); ok {
		return fns
	}
	switch v := cc.Value.(type) {
	case *ssa.MakeClosure:
		return []*ssa.Function{v.Fn.(*ssa.Function)}
	case *ssa.UnOp:
		// load of a local cell holding exactly one closure
		if al, ok := v.X.(*ssa.Alloc); ok {
			var out []*ssa.Function
			if refs := al.Referrers(); refs != nil {
				for _, r := range *refs {
					if st, ok := r.(*ssa.Store); ok && st.Addr == al {
						if mc, ok := st.Val.(*ssa.MakeClosure); ok {
							out = append(out, mc.Fn.(*ssa.Function))
						} else if f, ok := st.Val.(*ssa.Function); ok {
							out = append(out, f)
						}
					}
				}
			}
			return out
		}
	}
	return nil
}

type outerSpec struct{ pkg, typ, field string }

func ruleL3(id string, outers []outerSpec) func(p *Program, r *Reporter) {
	return func(p *Program, r *Reporter) {
		la := getLockAnalysis(p)
		for _, os := range outers {
			outer := p.Field(os.pkg, os.typ, os.field)
			if outer == nil {
				r.Anchor(id, "outer lock "+os.pkg+"."+os.typ+"."+os.field)
				continue
			}
			acq := la.acquirers(outer)
			// inner set S: every lock class acquired directly under a must-held
			// outer, or anywhere in a function reachable from a call made with
			// outer must-held
			inner := map[*types.Var]string{}
			reach := map[*ssa.Function]string{}
			var work []*ssa.Function
			for _, fn := range p.srcFuncs {
				f := la.facts[fn]
				for _, b := range fn.Blocks {
					for _, ins := range b.Instrs {
						c, ok := ins.(*ssa.Call)
						if !ok {
							continue
						}
						st := f.before[c]
						if !(st.mustHeld(lockKey{outer, 'W'}) || st.mustHeld(lockKey{outer, 'R'})) {
							continue
						}
						if op, isLock, cls := lockOpOf(c.Common()); isLock {
							if cls && op.acquire && op.key.field != outer {
								if _, seen := inner[op.key.field]; !seen {
									inner[op.key.field] = p.Pos(c.Pos())
								}
							}
							continue
						}
						for _, callee := range la.calleesOf(c) {
							if _, seen := reach[callee]; !seen && p.inRepo(callee) {
								reach[callee] = p.Pos(c.Pos())
								work = append(work, callee)
							}
						}
					}
				}
			}
			for len(work) > 0 {
				fn := work[0]
				work = work[1:]
				for _, b := range fn.Blocks {
					for _, ins := range b.Instrs {
						c, ok := ins.(*ssa.Call)
						if !ok {
							continue
						}
						if op, isLock, cls := lockOpOf(c.Common()); isLock {
							if cls && op.acquire && op.key.field != outer {
								if _, seen := inner[op.key.field]; !seen {
									inner[op.key.field] = p.Pos(c.Pos()) + " reached from the call at " + reach[fn]
								}
							}
							continue
						}
						for _, callee := range la.calleesOf(c) {
							if _, seen := reach[callee]; !seen && p.inRepo(callee) {
								reach[callee] = reach[fn]
								work = append(work, callee)
							}
						}
					}
				}
			}
			var innerNames []string
			for f := range inner {
				innerNames = append(innerNames, lockClassName(f))
			}
			sort.Strings(innerNames)
			r.Info("%s: %s is held while acquiring {%s}", id, lockClassName(outer), strings.Join(innerNames, ", "))
			if len(inner) == 0 {
				r.Anchor(id, "no lock is ever acquired under "+lockClassName(outer))
				continue
			}
			// obligation: every acquisition of outer (direct or through a callee)
			// happens with no member of S possibly held
			for _, fn := range p.srcFuncs {
				f := la.facts[fn]
				for _, b := range fn.Blocks {
					for _, ins := range b.Instrs {
						c, ok := ins.(*ssa.Call)
						if !ok {
							continue
						}
						direct := false
						via := ""
						if op, isLock, cls := lockOpOf(c.Common()); isLock {
							if !(cls && op.acquire && op.key.field == outer) {
								continue
							}
							direct = true
						} else {
							for _, callee := range la.calleesOf(c) {
								if acq[callee] {
									via = funcName(callee)
								}
							}
							if via == "" {
								continue
							}
						}
						st := f.before[c]
						var heldInner []string
						for k := range st {
							if _, isInner := inner[k.field]; isInner && st.mayHeld(k) {
								heldInner = append(heldInner, k.String())
							}
						}
						sort.Strings(heldInner)
						construct := lockClassName(outer) + " acquired"
						if !direct {
							construct += " via " + via
						}
						if len(heldInner) > 0 {
							r.Ob(id, funcName(fn), construct, c.Pos(), false, true,
								fmt.Sprintf("%s may be acquired here while holding %s, but %s is held across acquisitions of that lock elsewhere (e.g. %s): lock-order inversion with no outer gate",
									lockClassName(outer), strings.Join(heldInner, ","), lockClassName(outer), inner[keyField(st, heldInner[0])]))
						} else {
							r.Ob(id, funcName(fn), construct, c.Pos(), true, len(st) > 0, "no lock that is ever taken under "+lockClassName(outer)+" is held here")
						}
					}
				}
			}
		}
	}
}

func keyField(st lockState, name string) *types.Var {
	for k := range st {
		if k.String() == name {
			return k.field
		}
	}
	return nil
}

// ---------------------------------------------------------------------------
// L4 held-across: execute + notify + commit under txnMutex, released only by defer

func ruleL4(p *Program, r *Reporter) {
	const id = "L4"
	la := getLockAnalysis(p)
	fn := p.Fn("server", "OvsdbServer", "Transact")
	txn := p.Field("server", "OvsdbServer", "txnMutex")
	if fn == nil || txn == nil {
		r.Anchor(id, "server.(*OvsdbServer).Transact / txnMutex")
		return
	}
	fns := []*ssa.Function{fn}
	if body, via := serverTransactBody(p); via != nil {
		// the body lives in a helper: look at Transact, the helper, and the private
		// functions and closures in between (a locking helper that runs the body)
		fns = nil
		for _, g := range sortedFuncs(p.PrivateRegion(fn)) {
			if g == fn || g == body || g.Parent() != nil || len(la.summaries[g]) > 0 || holdsLockOp(g, txn) {
				fns = append(fns, g)
			}
		}
	}
	targets := map[string]bool{"transact": false, "processMonitors": false, "Commit": false}
	for _, fn := range fns {
		for _, b := range fn.Blocks {
			for _, ins := range b.Instrs {
				ci, ok := ins.(ssa.CallInstruction)
				if !ok {
					continue
				}
				cc := ci.Common()
				if op, isLock, cls := lockOpOf(cc); isLock && cls && op.key.field == txn && !op.acquire {
					_, isDefer := ins.(*ssa.Defer)
					r.Ob(id, funcName(fn), "txnMutex release", ins.Pos(), isDefer, true, map[bool]string{true: "released only by defer (after every return value is computed)", false: "explicit Unlock inside Transact: the lock no longer spans execute+notify+commit"}[isDefer])
					continue
				}
				name := ""
				if cc.IsInvoke() {
					name = cc.Method.Name()
				} else if callee := cc.StaticCallee(); callee != nil {
					name = callee.Name()
				}
				if _, want := targets[name]; !want {
					continue
				}
				if name == "Commit" && !(cc.IsInvoke() && isNamed(cc.Value.Type(), repoMod+"/database", "Database")) {
					continue
				}
				targets[name] = true
				_, isCall := ins.(*ssa.Call)
				held, _ := la.heldAt(fn, ins, txn, true, map[*ssa.Function]bool{}, 0)
				ok2 := isCall && held
				reason := "called synchronously with txnMutex held exclusively"
				if !isCall {
					reason = fmt.Sprintf("%s is started with %T: not part of the serialised section", name, ins)
				} else if !held {
					reason = "txnMutex is not held on every path to this call"
				}
				r.Ob(id, funcName(fn), name, ins.Pos(), ok2, true, reason)
			}
		}
	}
	for _, n := range sortedKeys(targets) {
		if !targets[n] {
			r.Anchor(id, "call to "+n+" in OvsdbServer.Transact")
		}
	}
}

// holdsLockOp: g contains a Lock/Unlock (plain or deferred) on mutex field f.
func holdsLockOp(g *ssa.Function, f *types.Var) bool {
	for _, b := range g.Blocks {
		for _, ins := range b.Instrs {
			if ci, ok := ins.(ssa.CallInstruction); ok {
				if op, isLock, cls := lockOpOf(ci.Common()); isLock && cls && op.key.field == f {
					return true
				}
			}
		}
	}
	return false
}

// ---------------------------------------------------------------------------
// L5 S-REG: monitor registration and its initial snapshot are serialised with transactions

func ruleL5(p *Program, r *Reporter) {
	const id = "L5"
	la := getLockAnalysis(p)
	txn := p.Field("server", "OvsdbServer", "txnMutex")
	m1 := p.Field("server", "OvsdbServer", "monitors")
	m2 := p.Field("server", "connectionMonitors", "monitors")
	txTransact := p.LookupFunc("database/transaction", "Transaction", "Transact")
	if txn == nil || m1 == nil || m2 == nil || txTransact == nil {
		r.Anchor(id, "server.OvsdbServer.{txnMutex,monitors}, connectionMonitors.monitors, Transaction.Transact")
		return
	}
	for _, a := range collectAccesses(p, map[*types.Var]bool{m1: true, m2: true}) {
		if !a.write || a.ctor {
			continue
		}
		if _, isUpd := a.instr.(*ssa.MapUpdate); !isUpd {
			continue
		}
		ok, why := la.heldAt(a.fn, a.instr, txn, true, map[*ssa.Function]bool{}, 0)
		reason := "monitor registered with txnMutex " + why
		if !ok {
			reason = "monitor registered without txnMutex (" + why + "): a transaction between its notification and its commit is seen by neither the snapshot nor a notification"
		}
		r.Ob(id, funcName(a.fn), lockClassName(a.field)+" registration", a.instr.Pos(), ok, true, reason)
	}
	for _, fn := range p.srcFuncs {
		if pkgOf(fn) != "server" {
			continue
		}
		for _, b := range fn.Blocks {
			for _, ins := range b.Instrs {
				c, ok := ins.(*ssa.Call)
				if !ok {
					continue
				}
				isTx := false
				if c.Call.IsInvoke() {
					isTx = c.Call.Method.Name() == "Transact" && isNamed(c.Call.Value.Type(), repoMod+"/database", "Transaction")
				} else if callee := c.Call.StaticCallee(); callee != nil && callee.Object() == txTransact {
					isTx = true
				}
				if !isTx {
					continue
				}
				ok2, why := la.heldAt(fn, c, txn, true, map[*ssa.Function]bool{}, 0)
				reason := "database read/execute with txnMutex " + why
				if !ok2 {
					reason = "transaction executed without txnMutex (" + why + "): the snapshot can interleave with a transaction that has notified but not committed"
				}
				r.Ob(id, funcName(fn), "Transaction.Transact", c.Pos(), ok2, true, reason)
			}
		}
	}
}

// hasSharedWriter: some function acquires class f exclusively on an object
// that is already shared (not a local allocation under construction).
func (la *lockAnalysis) hasSharedWriter(f *types.Var) bool {
	for _, fn := range la.p.srcFuncs {
		for _, b := range fn.Blocks {
			for _, ins := range b.Instrs {
				ci, ok := ins.(ssa.CallInstruction)
				if !ok {
					continue
				}
				op, isLock, cls := lockOpOf(ci.Common())
				if !isLock || !cls || !op.acquire || op.key.mode != 'W' || op.key.field != f {
					continue
				}
				if fa, ok := ci.Common().Args[0].(*ssa.FieldAddr); ok && baseIsLocalAlloc(fa.X) {
					continue
				}
				return true
			}
		}
	}
	return false
}
