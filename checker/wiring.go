package main

import (
	"fmt"
	"go/ast"
	"go/constant"
	"go/token"
	"go/types"
	"strings"

	"golang.org/x/tools/go/packages"
	"golang.org/x/tools/go/ssa"
)

// E5 — protocol wiring between the built-in server's notification senders and
// the client's registered handlers.

type notifSpec struct {
	rpc     string // monitor RPC
	method  string // notification method
	arity   int
	payload string // type of the last parameter
	reply   string // reply type of the monitor RPC
}

// RFC 7047 §4.1.5–4.1.6 and ovsdb-server(7) "monitor_cond", "monitor_cond_since".
var notifSpecs = []notifSpec{
	{"monitor", "update", 2, "ovsdb.TableUpdates", "ovsdb.TableUpdates"},
	{"monitor_cond", "update2", 2, "ovsdb.TableUpdates2", "ovsdb.TableUpdates2"},
	{"monitor_cond_since", "update3", 3, "ovsdb.TableUpdates2", "ovsdb.MonitorCondSinceReply"},
}

func constString(info *types.Info, e ast.Expr) (string, bool) {
	if tv, ok := info.Types[e]; ok && tv.Value != nil && tv.Value.Kind() == constant.String {
		return constant.StringVal(tv.Value), true
	}
	return "", false
}

func isRPC2(t types.Type, name string) bool {
	return isNamed(t, "github.com/cenkalti/rpc2", name)
}

type clientHandler struct {
	method   string
	fn       *ast.FuncDecl // the method that decodes the params
	pk       *packages.Package
	pos      token.Pos
	decodes  map[int]string // param index -> decoded type
	maxArity int            // from `len(params) > N`
}

// clientHandlers extracts rpcClient.Handle(<const>, handler) registrations of package client.
func clientHandlers(p *Program) map[string]*clientHandler {
	pk := p.Pkgs["client"]
	_ = pk
	out := map[string]*clientHandler{}
	for _, reg := range rpcRegistrations(p, "client", "Client") {
		h := &clientHandler{method: reg.name, pos: reg.pos, decodes: map[int]string{}, maxArity: -1}
		if reg.target != nil {
			h.fn, h.pk = p.Decl(reg.target)
		}
		if h.fn != nil {
			analyseHandler(h)
		}
		out[reg.name] = h
	}
	return out
}

func analyseHandler(h *clientHandler) {
	info := h.pk.TypesInfo
	// first parameter is the params slice
	if h.fn.Type.Params == nil || len(h.fn.Type.Params.List) == 0 || len(h.fn.Type.Params.List[0].Names) == 0 {
		return
	}
	prm := info.Defs[h.fn.Type.Params.List[0].Names[0]]
	ast.Inspect(h.fn.Body, func(n ast.Node) bool {
		switch x := n.(type) {
		case *ast.CallExpr:
			fn := calleeOf(info, x)
			if fn != nil && fn.Pkg() == h.pk.Types {
				// a positional decoding helper: helper(..., params, &a, &b, ...) that unmarshals
				// params[i] into its i-th variadic target and insists on equal lengths
				// an arity helper: helper(..., params, N) that compares len(params) with N
				if pi, ni := arityChecker(h.pk, fn); pi >= 0 && pi < len(x.Args) && ni < len(x.Args) {
					if id, ok := ast.Unparen(x.Args[pi]).(*ast.Ident); ok && info.Uses[id] == prm {
						if tv, ok := info.Types[x.Args[ni]]; ok && tv.Value != nil {
							if k, exact := constant.Int64Val(tv.Value); exact {
								h.maxArity = int(k)
							}
						}
					}
				}
				if pi, vi, exact := positionalDecoder(h.pk, fn); vi >= 0 && pi < len(x.Args) && vi <= len(x.Args) {
					if id, ok := ast.Unparen(x.Args[pi]).(*ast.Ident); ok && info.Uses[id] == prm && !x.Ellipsis.IsValid() {
						for k, a := range x.Args[vi:] {
							if u, ok := ast.Unparen(a).(*ast.UnaryExpr); ok && u.Op == token.AND {
								if t, ok := info.Types[u.X]; ok {
									h.decodes[k] = typeStr(t.Type)
								}
							}
						}
						if exact {
							h.maxArity = len(x.Args) - vi
						}
					}
				}
				return true
			}
			if fn == nil || fn.Pkg() == nil || fn.Pkg().Path() != "encoding/json" || fn.Name() != "Unmarshal" || len(x.Args) != 2 {
				return true
			}
			ix, ok := ast.Unparen(x.Args[0]).(*ast.IndexExpr)
			if !ok {
				return true
			}
			if id, ok := ast.Unparen(ix.X).(*ast.Ident); !ok || info.Uses[id] != prm {
				return true
			}
			tv, ok := info.Types[ix.Index]
			if !ok || tv.Value == nil {
				return true
			}
			k, _ := constant.Int64Val(tv.Value)
			if u, ok := ast.Unparen(x.Args[1]).(*ast.UnaryExpr); ok && u.Op == token.AND {
				if t, ok := info.Types[u.X]; ok {
					h.decodes[int(k)] = typeStr(t.Type)
				}
			}
			_ = 0
		case *ast.BinaryExpr:
			// len(params) > N  /  len(params) != N
			if c, ok := ast.Unparen(x.X).(*ast.CallExpr); ok {
				if id, ok := c.Fun.(*ast.Ident); ok && id.Name == "len" && len(c.Args) == 1 {
					if aid, ok := ast.Unparen(c.Args[0]).(*ast.Ident); ok && info.Uses[aid] == prm {
						if tv, ok := info.Types[x.Y]; ok && tv.Value != nil {
							k, _ := constant.Int64Val(tv.Value)
							h.maxArity = int(k)
						}
					}
				}
			}
		}
		return true
	})
}

type serverSend struct {
	fn      *types.Func // Send / Send2 / Send3
	method  string
	arity   int
	elems   []string
	pos     token.Pos
	usesGo  bool
	callSel string // Call / Go / Notify ...
}

// serverSends extracts m.client.<Call>(<const>, args, …) sites of package server.
func serverSends(p *Program) map[*types.Func]*serverSend {
	pk := p.Pkgs["server"]
	info := pk.TypesInfo
	out := map[*types.Func]*serverSend{}
	for _, f := range pk.Syntax {
		for _, d := range f.Decls {
			fd, ok := d.(*ast.FuncDecl)
			if !ok || fd.Body == nil {
				continue
			}
			fobj, _ := info.Defs[fd.Name].(*types.Func)
			ast.Inspect(fd.Body, func(n ast.Node) bool {
				call, ok := n.(*ast.CallExpr)
				if !ok || len(call.Args) < 2 {
					return true
				}
				sel, ok := call.Fun.(*ast.SelectorExpr)
				if !ok {
					return true
				}
				if tv, ok := info.Types[sel.X]; !ok || !isRPC2(tv.Type, "Client") {
					return true
				}
				name, ok := constString(info, call.Args[0])
				if !ok {
					return true
				}
				s := &serverSend{fn: fobj, method: name, pos: call.Pos(), callSel: sel.Sel.Name, arity: -1}
				// args: a local variable initialised from a slice literal, or the literal itself
				var lit *ast.CompositeLit
				switch a := ast.Unparen(call.Args[1]).(type) {
				case *ast.CompositeLit:
					lit = a
				case *ast.Ident:
					obj := info.Uses[a]
					ast.Inspect(fd.Body, func(m ast.Node) bool {
						if as, ok := m.(*ast.AssignStmt); ok {
							for i, l := range as.Lhs {
								if lid, ok := l.(*ast.Ident); ok && (info.Defs[lid] == obj || info.Uses[lid] == obj) && i < len(as.Rhs) {
									if cl, ok := ast.Unparen(as.Rhs[i]).(*ast.CompositeLit); ok {
										lit = cl
									}
								}
							}
						}
						return true
					})
				}
				if lit != nil {
					s.arity = len(lit.Elts)
					for _, el := range lit.Elts {
						if tv, ok := info.Types[el]; ok {
							s.elems = append(s.elems, typeStr(tv.Type))
						}
					}
				}
				ast.Inspect(fd.Body, func(m ast.Node) bool {
					if _, ok := m.(*ast.GoStmt); ok {
						s.usesGo = true
					}
					return true
				})
				out[fobj] = s
				return true
			})
		}
	}
	return out
}

func ruleW(p *Program, r *Reporter) {
	const id = "W1"
	spk := p.Pkgs["server"]
	handlers := clientHandlers(p)
	sends := serverSendsSSA(p)
	if len(handlers) < 3 || len(sends) < 3 {
		r.Anchor(id, fmt.Sprintf("expected >=3 client handlers and >=3 server notification senders, found %d and %d", len(handlers), len(sends)))
		return
	}
	// server RPC registrations: srv.Handle("<rpc>", o.Method)
	rpcHandler := map[string]*types.Func{}
	for _, reg := range rpcRegistrations(p, "server", "Server") {
		if reg.target != nil {
			rpcHandler[reg.name] = reg.target
		}
	}
	// constructors: functions of package server returning *monitor, with the kind constant of their literal
	kindType := p.LookupType("server", "monitorKind")
	monT := p.LookupType("server", "monitor")
	if kindType == nil || monT == nil {
		r.Anchor(id, "server.monitor / server.monitorKind")
		return
	}
	kindSend := kindToSender(p, sends)
	pmDecl, _, err := p.funcDecl("server", "OvsdbServer", "processMonitors")
	if err != nil {
		r.Anchor(id, "server.(*OvsdbServer).processMonitors")
		return
	}
	// W2: distinct kinds, every kind constant has a case
	var kinds []*types.Const
	sc := spk.Types.Scope()
	for _, n := range sc.Names() {
		if c, ok := sc.Lookup(n).(*types.Const); ok && types.Identical(c.Type(), kindType) {
			kinds = append(kinds, c)
		}
	}
	for _, k := range kinds {
		_, has := kindSend[k]
		why := "kind has a case in processMonitors that sends a notification"
		if !has {
			why = "monitor kind " + k.Name() + " has no case in processMonitors: monitors of that kind are never notified"
		}
		r.Ob("W2", "(*server.OvsdbServer).processMonitors", "kind "+k.Name(), pmDecl.Pos(), has, true, why)
	}
	usedKinds := map[*types.Const]string{}
	// W1 per monitor RPC
	for _, spec := range notifSpecs {
		h := rpcHandler[spec.rpc]
		if h == nil {
			r.Ob(id, "server.NewOvsdbServer", "rpc "+spec.rpc, spk.Syntax[0].Pos(), false, true, "no server handler registered for "+spec.rpc)
			continue
		}
		hd, _ := p.Decl(h)
		hname := typesFuncName(h)
		kinds := handlerKinds(p, p.SSAFunc(h))
		if len(kinds) != 1 {
			r.Ob(id, hname, "rpc "+spec.rpc+" constructor", hd.Pos(), false, true, fmt.Sprintf("the handler creates monitors of %d kinds (expected exactly one kind constant stored into monitor.kind)", len(kinds)))
			continue
		}
		kind := kinds[0]
		if prev, dup := usedKinds[kind]; dup {
			r.Ob("W2", hname, "rpc "+spec.rpc+" kind", hd.Pos(), false, true,
				fmt.Sprintf("%s registers its monitors with kind %s, which is also the kind of %s: the two monitor methods are indistinguishable when notifying", spec.rpc, kind.Name(), prev))
		} else {
			usedKinds[kind] = spec.rpc
			r.Ob("W2", hname, "rpc "+spec.rpc+" kind", hd.Pos(), true, true, fmt.Sprintf("%s -> %s", spec.rpc, kind.Name()))
		}
		send := kindSend[kind]
		if send == nil {
			r.Ob(id, hname, "rpc "+spec.rpc+" send", hd.Pos(), false, true, "kind "+kind.Name()+" reaches no notification sender")
			continue
		}
		s := sends[send]
		sname := typesFuncName(send)
		chain := fmt.Sprintf("%s -> %s -> %s -> %q", spec.rpc, kind.Name(), send.Name(), s.method)
		r.Ob(id, sname, "rpc "+spec.rpc+" method", s.pos, s.method == spec.method, true,
			ifs(s.method == spec.method, chain, fmt.Sprintf("%s: monitors created by %s must be notified with %q, but are sent %q", chain, spec.rpc, spec.method, s.method)))
		r.Ob(id, sname, "rpc "+spec.rpc+" arity", s.pos, s.arity == spec.arity, true,
			ifs(s.arity == spec.arity, fmt.Sprintf("%d params", s.arity), fmt.Sprintf("%q carries %d params, sent %d", spec.method, spec.arity, s.arity)))
		last := ""
		if len(s.elems) > 0 {
			last = s.elems[len(s.elems)-1]
		}
		r.Ob(id, sname, "rpc "+spec.rpc+" payload", s.pos, last == spec.payload, true,
			ifs(last == spec.payload, "payload "+last, fmt.Sprintf("%q carries %s, sent %s", spec.method, spec.payload, last)))
		// client side
		ch := handlers[s.method]
		if ch == nil || ch.fn == nil {
			r.Ob("W3", sname, "client handler for "+s.method, s.pos, false, true, "the client registers no handler for the method the server sends")
			continue
		}
		dec := ch.decodes[s.arity-1]
		r.Ob(id, sname, "rpc "+spec.rpc+" client decode", ch.pos, dec == last && last != "", true,
			ifs(dec == last && last != "", fmt.Sprintf("client %q handler decodes params[%d] as %s", s.method, s.arity-1, dec),
				fmt.Sprintf("server sends %s in params[%d] of %q, client handler decodes %q there", last, s.arity-1, s.method, dec)))
		r.Ob(id, sname, "rpc "+spec.rpc+" client arity", ch.pos, ch.maxArity == s.arity, true,
			ifs(ch.maxArity == s.arity, fmt.Sprintf("client accepts %d params", ch.maxArity), fmt.Sprintf("client %q handler accepts %d params, server sends %d", s.method, ch.maxArity, s.arity)))
		// reply types of the monitor RPC itself
		hsig := h.Type().(*types.Signature)
		srvReply := typeStr(deref(hsig.Params().At(hsig.Params().Len() - 1).Type()))
		r.Ob(id, hname, "rpc "+spec.rpc+" reply type", hd.Pos(), srvReply == spec.reply, true,
			ifs(srvReply == spec.reply, "reply "+srvReply, "reply of "+spec.rpc+" must be "+spec.reply+", handler fills "+srvReply))
	}
	// W3: all three notification methods have a client handler with a body
	for _, spec := range notifSpecs {
		ch := handlers[spec.method]
		ok := ch != nil && ch.fn != nil
		pos := p.Pkgs["client"].Syntax[0].Pos()
		if ch != nil {
			pos = ch.pos
		}
		r.Ob("W3", "client.createRPC2Client", "handler "+spec.method, pos, ok, true, ifs(ok, "registered", "no client handler registered for "+spec.method))
		if ok {
			dec := ch.decodes[spec.arity-1]
			r.Ob("W3", typesFuncName(p.pkFunc(ch)), "handler "+spec.method+" payload", ch.pos, dec == spec.payload, true,
				ifs(dec == spec.payload, "decodes "+dec, fmt.Sprintf("%q handler must decode params[%d] as %s, decodes %q", spec.method, spec.arity-1, spec.payload, dec)))
		}
	}
	// client: reply variable type per monitor method in (*ovsdbClient).monitor
	ruleWClientReply(p, r)
}

// ruleW4Standalone: synchronous delivery, registered as its own rule.
func ruleW4Standalone(p *Program, r *Reporter) {
	sends := serverSendsSSA(p)
	if len(sends) < 3 {
		r.Anchor("W4", "server notification senders")
		return
	}
	ruleW4(p, r, sends)
}

func (p *Program) pkFunc(h *clientHandler) *types.Func {
	f, _ := h.pk.TypesInfo.Defs[h.fn.Name].(*types.Func)
	return f
}

func ifs(c bool, a, b string) string {
	if c {
		return a
	}
	return b
}

// ruleWClientReply: in (*ovsdbClient).monitor the reply variable decoded for each
// monitor method has the type the RPC returns.
func ruleWClientReply(p *Program, r *Reporter) {
	fd, pk, err := p.funcDecl("client", "ovsdbClient", "monitor")
	if err != nil {
		r.Anchor("W1", "client.(*ovsdbClient).monitor")
		return
	}
	info := pk.TypesInfo
	found := 0
	ast.Inspect(fd.Body, func(n ast.Node) bool {
		cc, ok := n.(*ast.CaseClause)
		if !ok || len(cc.List) != 1 {
			return true
		}
		rpc, ok := constString(info, cc.List[0])
		if !ok {
			return true
		}
		var spec *notifSpec
		for i := range notifSpecs {
			if notifSpecs[i].rpc == rpc {
				spec = &notifSpecs[i]
			}
		}
		if spec == nil {
			return true
		}
		for _, st := range cc.Body {
			ast.Inspect(st, func(m ast.Node) bool {
				c, ok := m.(*ast.CallExpr)
				if !ok {
					return true
				}
				sel, ok := c.Fun.(*ast.SelectorExpr)
				if !ok || !strings.HasPrefix(sel.Sel.Name, "Call") {
					return true
				}
				if tv, ok := info.Types[sel.X]; !ok || !isRPC2(tv.Type, "Client") {
					return true
				}
				lastArg := c.Args[len(c.Args)-1]
				if u, ok := ast.Unparen(lastArg).(*ast.UnaryExpr); ok && u.Op == token.AND {
					t := typeStr(info.Types[u.X].Type)
					found++
					r.Ob("W1", "(*client.ovsdbClient).monitor", "reply of "+rpc, c.Pos(), t == spec.reply, true,
						ifs(t == spec.reply, "client decodes the "+rpc+" reply as "+t, "client decodes the "+rpc+" reply as "+t+", the method returns "+spec.reply))
				}
				return true
			})
		}
		return true
	})
	if found < 3 {
		r.Anchor("W1", fmt.Sprintf("monitor(): expected a reply decode per monitor method, found %d", found))
	}
}

// ruleW4: notifications are delivered synchronously and in order.
func ruleW4(p *Program, r *Reporter, sends map[*types.Func]*serverSend) {
	const id = "W4"
	for fn, s := range sends {
		ok := s.callSel == "Call" || s.callSel == "CallWithContext"
		r.Ob(id, typesFuncName(fn), "synchronous notify", s.pos, ok && !s.usesGo, true,
			ifs(ok && !s.usesGo, "rpc2.Client."+s.callSel+" blocks until the client has handled the notification; no goroutine is started",
				"notification sent with "+s.callSel+ifs(s.usesGo, " inside a goroutine", "")+": Transact can reply before the client has applied the update, and updates can overtake each other"))
	}
	pm, pk, err := p.funcDecl("server", "OvsdbServer", "processMonitors")
	if err == nil {
		hasGo := false
		ast.Inspect(pm.Body, func(n ast.Node) bool {
			if _, ok := n.(*ast.GoStmt); ok {
				hasGo = true
			}
			return true
		})
		_ = pk
		r.Ob(id, "(*server.OvsdbServer).processMonitors", "no goroutine", pm.Pos(), !hasGo, true, ifs(!hasGo, "monitors are notified inline", "processMonitors starts goroutines: notification order is no longer commit order"))
	}
	// client: SetBlocking(true) before Run in createRPC2Client
	fd, cpk, err := p.funcDecl("client", "ovsdbClient", "createRPC2Client")
	if err != nil {
		r.Anchor(id, "client.(*ovsdbClient).createRPC2Client")
		return
	}
	info := cpk.TypesInfo
	var setBlockingPos, runPos token.Pos
	blockingTrue := false
	ast.Inspect(fd.Body, func(n ast.Node) bool {
		c, ok := n.(*ast.CallExpr)
		if !ok {
			return true
		}
		sel, ok := c.Fun.(*ast.SelectorExpr)
		if !ok {
			return true
		}
		if tv, ok := info.Types[sel.X]; !ok || !isRPC2(tv.Type, "Client") {
			return true
		}
		switch sel.Sel.Name {
		case "SetBlocking":
			setBlockingPos = c.Pos()
			if len(c.Args) == 1 {
				if tv, ok := info.Types[c.Args[0]]; ok && tv.Value != nil && constant.BoolVal(tv.Value) {
					blockingTrue = true
				}
			}
		case "Run":
			runPos = c.Pos()
		}
		return true
	})
	ok := blockingTrue && setBlockingPos.IsValid() && runPos.IsValid() && setBlockingPos < runPos
	r.Ob(id, "(*client.ovsdbClient).createRPC2Client", "SetBlocking(true) before Run", fd.Pos(), ok, true,
		ifs(ok, "handlers run inside the read loop: notifications are applied in wire order and before the reply that follows them is delivered",
			"rpc2 client is not put in blocking mode before Run: each notification is handled in its own goroutine, so updates can be applied out of order and after the Transact reply"))
}

// ---------------------------------------------------------------------------
// SSA-based extraction (robust to helper extraction): who sends which
// notification, which monitor kind reaches which sender, which kind a monitor
// RPC handler creates.

// sliceLiteralElems returns the static element types of an args slice built as a literal.
func sliceLiteralElems(v ssa.Value) ([]string, bool) {
	for {
		if mi, ok := v.(*ssa.MakeInterface); ok {
			v = mi.X
			continue
		}
		if ci, ok := v.(*ssa.ChangeInterface); ok {
			v = ci.X
			continue
		}
		break
	}
	sl, ok := v.(*ssa.Slice)
	if !ok {
		return nil, false
	}
	al, ok := sl.X.(*ssa.Alloc)
	if !ok {
		return nil, false
	}
	arr, ok := deref(al.Type()).Underlying().(*types.Array)
	if !ok {
		return nil, false
	}
	elems := make([]string, arr.Len())
	if refs := al.Referrers(); refs != nil {
		for _, ref := range *refs {
			ia, ok := ref.(*ssa.IndexAddr)
			if !ok {
				continue
			}
			k, isC := constInt(ia.Index)
			if !isC || k < 0 || int(k) >= len(elems) {
				continue
			}
			if ir := ia.Referrers(); ir != nil {
				for _, r2 := range *ir {
					if st, ok := r2.(*ssa.Store); ok && st.Addr == ia {
						val := st.Val
						if mi, ok := val.(*ssa.MakeInterface); ok {
							val = mi.X
						}
						elems[k] = typeStr(val.Type())
					}
				}
			}
		}
	}
	return elems, true
}

type resolvedSend struct {
	origin *ssa.Function // function in which the method constant appears
	method string
	args   ssa.Value
	pos    token.Pos
	env    map[*ssa.Parameter]ssa.Value // parameters of the helpers on the way, bound to what the callers pass
}

// sliceElemsEnv: the static element types of an argument list that is a slice
// literal, or is built from one by append (also of a variadic parameter bound in env).
func sliceElemsEnv(v ssa.Value, env map[*ssa.Parameter]ssa.Value, depth int) ([]string, bool) {
	if depth > 6 || v == nil {
		return nil, false
	}
	for {
		if mi, ok := v.(*ssa.MakeInterface); ok {
			v = mi.X
			continue
		}
		if ci, ok := v.(*ssa.ChangeInterface); ok {
			v = ci.X
			continue
		}
		break
	}
	if el, ok := sliceLiteralElems(v); ok {
		return el, true
	}
	switch x := v.(type) {
	case *ssa.Parameter:
		if b, ok := env[x]; ok {
			return sliceElemsEnv(b, env, depth+1)
		}
	case *ssa.MakeSlice:
		if k, ok := constInt(x.Len); ok && k == 0 {
			return []string{}, true
		}
	case *ssa.Const:
		if x.IsNil() {
			return []string{}, true
		}
	case *ssa.Call:
		if bi, ok := x.Call.Value.(*ssa.Builtin); ok && bi.Name() == "append" && len(x.Call.Args) == 2 {
			a, ok1 := sliceElemsEnv(x.Call.Args[0], env, depth+1)
			b, ok2 := sliceElemsEnv(x.Call.Args[1], env, depth+1)
			if ok1 && ok2 {
				return append(append([]string{}, a...), b...), true
			}
		}
	}
	return nil, false
}

// resolveSendArgs follows (method, args) of an rpc2 call through parameters up the static callers.
func resolveSendArgs(p *Program, fn *ssa.Function, method, args ssa.Value, pos token.Pos, depth int, envs ...map[*ssa.Parameter]ssa.Value) []resolvedSend {
	env := map[*ssa.Parameter]ssa.Value{}
	if len(envs) > 0 && envs[0] != nil {
		env = envs[0]
	}
	bind := func(cargs []ssa.Value) map[*ssa.Parameter]ssa.Value {
		ne := map[*ssa.Parameter]ssa.Value{}
		for k, v := range env {
			ne[k] = v
		}
		for i, q := range fn.Params {
			if i < len(cargs) {
				ne[q] = cargs[i]
			}
		}
		return ne
	}
	if depth > 4 {
		return nil
	}
	for {
		if mi, ok := args.(*ssa.MakeInterface); ok {
			args = mi.X
			continue
		}
		break
	}
	if s, ok := stringConstOf(method); ok {
		return []resolvedSend{{fn, s, args, pos, env}}
	}
	// the method name looked up in a package-level table keyed by a parameter:
	// resolve the key at every call site and read the table
	if g := dispatchTable(method); g != nil {
		var keyParam *ssa.Parameter
		v := method
		for i := 0; i < 3; i++ {
			switch x := v.(type) {
			case *ssa.Extract:
				v = x.Tuple
				continue
			case *ssa.Lookup:
				keyParam, _ = x.Index.(*ssa.Parameter)
			}
			break
		}
		table := p.tableConsts(g)
		if keyParam != nil && len(table) > 0 {
			ki, ai := -1, -1
			for i, q := range fn.Params {
				if q == keyParam {
					ki = i
				}
				if ssa.Value(q) == args {
					ai = i
				}
			}
			var out []resolvedSend
			for _, s := range getCallIndex(p).sites[fn] {
				cargs := s.instr.(ssa.CallInstruction).Common().Args
				if ki < 0 || ki >= len(cargs) {
					continue
				}
				kc, isC := cargs[ki].(*ssa.Const)
				if !isC || kc.Value == nil {
					continue
				}
				mc := table[kc.Value.ExactString()]
				if mc == nil {
					continue
				}
				a := args
				if ai >= 0 && ai < len(cargs) {
					a = cargs[ai]
				}
				out = append(out, resolveSendArgs(p, s.caller, mc, a, s.instr.Pos(), depth+1, bind(cargs))...)
			}
			return out
		}
	}
	prm, ok := method.(*ssa.Parameter)
	if !ok {
		return nil
	}
	mi, ai := -1, -1
	for i, q := range fn.Params {
		if q == prm {
			mi = i
		}
		if ssa.Value(q) == args {
			ai = i
		}
	}
	var out []resolvedSend
	for _, s := range getCallIndex(p).sites[fn] {
		cargs := s.instr.(ssa.CallInstruction).Common().Args
		if mi < 0 || mi >= len(cargs) {
			continue
		}
		a := args
		if ai >= 0 && ai < len(cargs) {
			a = cargs[ai]
		}
		out = append(out, resolveSendArgs(p, s.caller, cargs[mi], a, s.instr.Pos(), depth+1, bind(cargs))...)
	}
	return out
}

func serverSendsSSA(p *Program) map[*types.Func]*serverSend {
	out := map[*types.Func]*serverSend{}
	for _, fn := range p.srcFuncs {
		if pkgOf(fn) != "server" {
			continue
		}
		for _, b := range fn.Blocks {
			for _, ins := range b.Instrs {
				ci, ok := ins.(ssa.CallInstruction)
				if !ok {
					continue
				}
				sc := ci.Common().StaticCallee()
				if sc == nil || sc.Signature.Recv() == nil || !isRPC2(sc.Signature.Recv().Type(), "Client") || len(ci.Common().Args) < 3 {
					continue
				}
				switch sc.Name() {
				case "Call", "CallWithContext", "Notify", "Go":
				default:
					continue
				}
				margs := ci.Common().Args
				mIdx := 1
				if sc.Name() == "CallWithContext" {
					mIdx = 2
				}
				if mIdx+1 >= len(margs) {
					continue
				}
				_, isGo := ins.(*ssa.Go)
				for _, rs := range resolveSendArgs(p, fn, margs[mIdx], margs[mIdx+1], ins.Pos(), 0) {
					if pkgOf(rs.origin) != "server" || rs.origin.Object() == nil {
						continue
					}
					fobj, _ := rs.origin.Object().(*types.Func)
					if fobj == nil {
						continue
					}
					s := &serverSend{fn: fobj, method: rs.method, pos: rs.pos, callSel: sc.Name(), arity: -1, usesGo: isGo}
					if elems, ok := sliceElemsEnv(rs.args, rs.env, 0); ok {
						s.arity = len(elems)
						s.elems = elems
					}
					// any go statement on the way (in the origin or the helper) makes delivery asynchronous
					for _, g := range []*ssa.Function{rs.origin, fn} {
						for _, b2 := range g.Blocks {
							for _, i2 := range b2.Instrs {
								if _, ok := i2.(*ssa.Go); ok {
									s.usesGo = true
								}
							}
						}
					}
					out[fobj] = s
				}
			}
		}
	}
	return out
}

// kindToSender: for each comparison monitor.kind == K in package server, the notification
// sender reached on the equal edge.
func kindToSender(p *Program, sends map[*types.Func]*serverSend) map[*types.Const]*types.Func {
	kindFld := p.Field("server", "monitor", "kind")
	out := map[*types.Const]*types.Func{}
	if kindFld == nil {
		return out
	}
	kindConst := func(v ssa.Value) *types.Const {
		c, ok := v.(*ssa.Const)
		if !ok || c.Value == nil {
			return nil
		}
		sc := p.Pkgs["server"].Types.Scope()
		for _, n := range sc.Names() {
			if k, ok := sc.Lookup(n).(*types.Const); ok && types.Identical(k.Type(), c.Type()) && constantEqual(k, c) {
				return k
			}
		}
		return nil
	}
	reachesSender := func(g *ssa.Function) *types.Func {
		for _, h := range p.Reach(g) {
			if fo, ok := h.Object().(*types.Func); ok && sends[fo] != nil {
				return fo
			}
		}
		return nil
	}
	for _, fn := range p.srcFuncs {
		if pkgOf(fn) != "server" {
			continue
		}
		for _, b := range fn.Blocks {
			iff, ok := b.Instrs[len(b.Instrs)-1].(*ssa.If)
			if !ok {
				continue
			}
			bo, ok := iff.Cond.(*ssa.BinOp)
			if !ok || bo.Op != token.EQL {
				continue
			}
			var k *types.Const
			if loadOfField(bo.X, kindFld) {
				k = kindConst(bo.Y)
			} else if loadOfField(bo.Y, kindFld) {
				k = kindConst(bo.X)
			}
			if k == nil {
				continue
			}
			tgt := b.Succs[0]
			for _, b2 := range fn.Blocks {
				if b2 != tgt && !(tgt.Dominates(b2) && len(tgt.Preds) == 1) {
					continue
				}
				// stay within the arm: stop at blocks also reachable from the other edge
				if b2 != tgt && !tgt.Dominates(b2) {
					continue
				}
				for _, ins := range b2.Instrs {
					if c, ok := ins.(*ssa.Call); ok {
						if g := c.Call.StaticCallee(); g != nil && pkgOf(g) == "server" {
							if fo := reachesSender(g); fo != nil {
								if _, dup := out[k]; !dup {
									out[k] = fo
								}
							}
						}
					}
				}
			}
		}
	}
	// kinds dispatched through a package-level table: map[monitorKind]func(...)
	if sp := p.SSAPkgs["server"]; sp != nil {
		for _, mem := range sp.Members {
			g, ok := mem.(*ssa.Global)
			if !ok {
				continue
			}
			for _, e := range p.tableFuncs(g) {
				if e.key == nil {
					continue
				}
				k := kindConst(e.key)
				if k == nil {
					continue
				}
				if fo := reachesSender(e.fn); fo != nil {
					if _, dup := out[k]; !dup {
						out[k] = fo
					}
				}
			}
		}
	}
	return out
}

func constantEqual(k *types.Const, c *ssa.Const) bool {
	return k.Val() != nil && c.Value != nil && k.Val().ExactString() == c.Value.ExactString()
}

// handlerKinds: the monitor kind constants a handler can store into monitor.kind,
// directly or through constructors / helpers it reaches.
func handlerKinds(p *Program, h *ssa.Function) []*types.Const {
	kindFld := p.Field("server", "monitor", "kind")
	if kindFld == nil || h == nil {
		return nil
	}
	region := map[*ssa.Function]bool{}
	for _, g := range p.Reach(h) {
		region[g] = true
	}
	sc := p.Pkgs["server"].Types.Scope()
	constOf := func(c *ssa.Const) *types.Const {
		for _, n := range sc.Names() {
			if k, ok := sc.Lookup(n).(*types.Const); ok && types.Identical(k.Type(), c.Type()) && constantEqual(k, c) {
				return k
			}
		}
		return nil
	}
	seen := map[*types.Const]bool{}
	var out []*types.Const
	var resolve func(g *ssa.Function, v ssa.Value, depth int)
	resolve = func(g *ssa.Function, v ssa.Value, depth int) {
		if depth > 4 {
			return
		}
		switch x := v.(type) {
		case *ssa.Const:
			if k := constOf(x); k != nil && !seen[k] {
				seen[k] = true
				out = append(out, k)
			}
		case *ssa.Parameter:
			idx := -1
			for i, q := range g.Params {
				if q == x {
					idx = i
				}
			}
			for _, s := range getCallIndex(p).sites[g] {
				if !region[s.caller] {
					continue
				}
				args := s.instr.(ssa.CallInstruction).Common().Args
				if idx >= 0 && idx < len(args) {
					resolve(s.caller, args[idx], depth+1)
				}
			}
		case *ssa.Phi:
			for _, e := range x.Edges {
				resolve(g, e, depth+1)
			}
		}
	}
	for g := range region {
		for _, b := range g.Blocks {
			for _, ins := range b.Instrs {
				st, ok := ins.(*ssa.Store)
				if !ok {
					continue
				}
				fa, ok := st.Addr.(*ssa.FieldAddr)
				if !ok || fieldOfAddr(fa) != kindFld {
					continue
				}
				resolve(g, st.Val, 0)
			}
		}
	}
	return out
}

// positionalDecoder recognises func(..., P []json.RawMessage, ..., targets ...interface{}) error
// whose body unmarshals P[i] into targets[i] inside `for i, t := range targets` and compares
// len(P) with len(targets). It returns the index of P, the index of the variadic parameter
// (-1 when the function is not of that shape) and whether the lengths must be equal.
func positionalDecoder(pk *packages.Package, fn *types.Func) (int, int, bool) {
	info := pk.TypesInfo
	var fd *ast.FuncDecl
	for _, f := range pk.Syntax {
		for _, d := range f.Decls {
			if x, ok := d.(*ast.FuncDecl); ok && info.Defs[x.Name] == fn {
				fd = x
			}
		}
	}
	sig, _ := fn.Type().(*types.Signature)
	if fd == nil || fd.Body == nil || sig == nil || !sig.Variadic() || sig.Params().Len() < 2 {
		return -1, -1, false
	}
	vi := sig.Params().Len() - 1
	vobj := sig.Params().At(vi)
	pi := -1
	var pobj *types.Var
	for i := 0; i < vi; i++ {
		if sl, ok := sig.Params().At(i).Type().Underlying().(*types.Slice); ok && isNamed(sl.Elem(), "encoding/json", "RawMessage") {
			pi, pobj = i, sig.Params().At(i)
		}
	}
	if pi < 0 {
		return -1, -1, false
	}
	decodes, exact := false, false
	ast.Inspect(fd.Body, func(n ast.Node) bool {
		switch x := n.(type) {
		case *ast.RangeStmt:
			id, ok := ast.Unparen(x.X).(*ast.Ident)
			if !ok || info.Uses[id] != vobj || x.Key == nil || x.Value == nil {
				return true
			}
			kid, _ := x.Key.(*ast.Ident)
			vid, _ := x.Value.(*ast.Ident)
			if kid == nil || vid == nil {
				return true
			}
			ast.Inspect(x.Body, func(m ast.Node) bool {
				c, ok := m.(*ast.CallExpr)
				if !ok || len(c.Args) != 2 {
					return true
				}
				cf := calleeOf(info, c)
				if cf == nil || cf.Pkg() == nil || cf.Pkg().Path() != "encoding/json" || cf.Name() != "Unmarshal" {
					return true
				}
				ix, ok := ast.Unparen(c.Args[0]).(*ast.IndexExpr)
				if !ok {
					return true
				}
				a, ok1 := ast.Unparen(ix.X).(*ast.Ident)
				i, ok2 := ast.Unparen(ix.Index).(*ast.Ident)
				t, ok3 := ast.Unparen(c.Args[1]).(*ast.Ident)
				if ok1 && ok2 && ok3 && info.Uses[a] == pobj && info.Uses[i] == info.Defs[kid] && info.Uses[t] == info.Defs[vid] {
					decodes = true
				}
				return true
			})
		case *ast.BinaryExpr:
			if x.Op != token.NEQ && x.Op != token.EQL {
				return true
			}
			lenOf := func(e ast.Expr) types.Object {
				c, ok := ast.Unparen(e).(*ast.CallExpr)
				if !ok || len(c.Args) != 1 {
					return nil
				}
				if id, ok := c.Fun.(*ast.Ident); !ok || id.Name != "len" {
					return nil
				}
				if a, ok := ast.Unparen(c.Args[0]).(*ast.Ident); ok {
					return info.Uses[a]
				}
				return nil
			}
			l, r := lenOf(x.X), lenOf(x.Y)
			if l != nil && r != nil && (l == types.Object(pobj) && r == types.Object(vobj) || l == types.Object(vobj) && r == types.Object(pobj)) {
				exact = true
			}
		}
		return true
	})
	if !decodes {
		return -1, -1, false
	}
	return pi, vi, exact
}

// arityChecker recognises func(..., P []json.RawMessage, ..., N int, ...) error whose body
// compares len(P) with N. It returns the indexes of P and N, or -1.
func arityChecker(pk *packages.Package, fn *types.Func) (int, int) {
	info := pk.TypesInfo
	var fd *ast.FuncDecl
	for _, f := range pk.Syntax {
		for _, d := range f.Decls {
			if x, ok := d.(*ast.FuncDecl); ok && info.Defs[x.Name] == fn {
				fd = x
			}
		}
	}
	sig, _ := fn.Type().(*types.Signature)
	if fd == nil || fd.Body == nil || sig == nil {
		return -1, -1
	}
	idxOf := func(o types.Object) int {
		for i := 0; i < sig.Params().Len(); i++ {
			if types.Object(sig.Params().At(i)) == o {
				return i
			}
		}
		return -1
	}
	pi, ni := -1, -1
	ast.Inspect(fd.Body, func(n ast.Node) bool {
		be, ok := n.(*ast.BinaryExpr)
		if !ok {
			return true
		}
		switch be.Op {
		case token.NEQ, token.EQL, token.GTR, token.LSS, token.GEQ, token.LEQ:
		default:
			return true
		}
		lenArg := func(e ast.Expr) types.Object {
			c, ok := ast.Unparen(e).(*ast.CallExpr)
			if !ok || len(c.Args) != 1 {
				return nil
			}
			if id, ok := c.Fun.(*ast.Ident); !ok || id.Name != "len" {
				return nil
			}
			if a, ok := ast.Unparen(c.Args[0]).(*ast.Ident); ok {
				return info.Uses[a]
			}
			return nil
		}
		for _, pair := range [][2]ast.Expr{{be.X, be.Y}, {be.Y, be.X}} {
			lo := lenArg(pair[0])
			id, ok := ast.Unparen(pair[1]).(*ast.Ident)
			if lo == nil || !ok {
				continue
			}
			a, b := idxOf(lo), idxOf(info.Uses[id])
			if a >= 0 && b >= 0 {
				if sl, isSl := sig.Params().At(a).Type().Underlying().(*types.Slice); isSl && isNamed(sl.Elem(), "encoding/json", "RawMessage") {
					pi, ni = a, b
				}
			}
		}
		return true
	})
	return pi, ni
}
