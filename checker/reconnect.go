package main

import (
	"fmt"
	"go/constant"
	"go/token"
	"go/types"
	"sort"

	"golang.org/x/tools/go/ssa"
)

// E7 — reconnect typestate: within one execution of connect(reconnect=true) a
// database's cache must not be purged after a monitor's initial contents have
// been populated into it.

// Abstract state: (cache state) x (class of len(db.monitors)).
//
//	cache state: Init (untouched in this reconnect), Purged, Populated
//	len class:   eq1 (exactly one monitor), ne1 (zero or at least two)
//
// A state set is a bitset over the six combinations.
const (
	csInit = iota
	csPurged
	csPopulated
)

const (
	lcEq1 = iota
	lcNe1
)

func stBit(cs, lc int) int { return 1 << uint(cs*2+lc) }

const stAll = 0x3f

var stEntry = stBit(csInit, lcEq1) | stBit(csInit, lcNe1)

type tsResult struct {
	exit  int // bitset of exit states
	viols []tsViolation
}

type tsViolation struct {
	pos  token.Pos
	fn   *ssa.Function
	path string
	kind string
}

type typestate struct {
	p         *Program
	purge     map[*types.Func]bool
	populate  map[*types.Func]bool
	monitors  *types.Var // client.database.monitors
	databases *types.Var // client.ovsdbClient.databases
	lastTxn   *types.Var // client.Monitor.LastTransactionID
	resume    map[ssa.Instruction]bool
	memo      map[[2]interface{}]*tsResult
	active    map[[2]interface{}]bool
	events    int
}

func eventOf(ts *typestate, c *ssa.CallCommon) string {
	sc := c.StaticCallee()
	if sc == nil || sc.Object() == nil {
		return ""
	}
	if f, ok := sc.Object().(*types.Func); ok {
		if ts.purge[f] {
			return "P"
		}
		if ts.populate[f] {
			return "U"
		}
	}
	return ""
}

// lenCondClasses: for a branch condition comparing len(db.monitors) with a
// constant, which len classes can make it true / false.
func (ts *typestate) lenCond(cond ssa.Value) (canTrue, canFalse [2]bool, ok bool) {
	neg := false
	for {
		u, isU := cond.(*ssa.UnOp)
		if !isU || u.Op != token.NOT {
			break
		}
		cond, neg = u.X, !neg
	}
	bo, isBo := cond.(*ssa.BinOp)
	if !isBo {
		return
	}
	l, r, op := bo.X, bo.Y, bo.Op
	if _, isLen := lenOperand(r); isLen {
		l, r = r, l
		switch op {
		case token.LSS:
			op = token.GTR
		case token.LEQ:
			op = token.GEQ
		case token.GTR:
			op = token.LSS
		case token.GEQ:
			op = token.LEQ
		}
	}
	lx, isLen := lenOperand(l)
	if !isLen || !loadOfField(lx, ts.monitors) {
		return
	}
	k, isC := constInt(r)
	if !isC {
		return
	}
	eval := func(n int64) bool {
		var v bool
		switch op {
		case token.EQL:
			v = n == k
		case token.NEQ:
			v = n != k
		case token.LSS:
			v = n < k
		case token.LEQ:
			v = n <= k
		case token.GTR:
			v = n > k
		case token.GEQ:
			v = n >= k
		default:
			return false
		}
		return v != neg
	}
	switch op {
	case token.EQL, token.NEQ, token.LSS, token.LEQ, token.GTR, token.GEQ:
	default:
		return
	}
	samples := [2][]int64{{1}, {0, 2, 3, 1000}}
	for lc := 0; lc < 2; lc++ {
		for _, n := range samples[lc] {
			if eval(n) {
				canTrue[lc] = true
			} else {
				canFalse[lc] = true
			}
		}
	}
	return canTrue, canFalse, true
}

// filterEdge restricts a state set to what is feasible on the edge b -> succ.
func (ts *typestate) filterEdge(st int, b, succ *ssa.BasicBlock) int {
	if len(b.Instrs) == 0 || len(b.Succs) != 2 || b.Succs[0] == b.Succs[1] {
		return st
	}
	iff, ok := b.Instrs[len(b.Instrs)-1].(*ssa.If)
	if !ok {
		return st
	}
	truth := b.Succs[0] == succ
	if canT, canF, isLen := ts.lenCond(iff.Cond); isLen {
		out := 0
		for cs := 0; cs < 3; cs++ {
			for lc := 0; lc < 2; lc++ {
				if st&stBit(cs, lc) == 0 {
					continue
				}
				if (truth && canT[lc]) || (!truth && canF[lc]) {
					out |= stBit(cs, lc)
				}
			}
		}
		return out
	}
	// another iteration of the restart loop is impossible with exactly one monitor
	// once that monitor has been restarted
	if ex, ok := iff.Cond.(*ssa.Extract); ok && ex.Index == 0 && truth {
		if nx, ok := ex.Tuple.(*ssa.Next); ok {
			if rg, ok := nx.Iter.(*ssa.Range); ok && loadOfField(rg.X, ts.monitors) {
				// the first iteration enters with Init/Purged; Populated means a previous iteration ran
				return st &^ stBit(csPopulated, lcEq1)
			}
		}
	}
	return st
}

// run analyses fn from a single entry state and returns the exit states.
func (ts *typestate) run(fn *ssa.Function, entry int, depth int, path string) *tsResult {
	key := [2]interface{}{fn, entry}
	if r, ok := ts.memo[key]; ok {
		return r
	}
	if ts.active[key] || depth > 6 || fn.Blocks == nil {
		return &tsResult{exit: entry}
	}
	ts.active[key] = true
	defer delete(ts.active, key)
	res := &tsResult{}
	in := make([]int, len(fn.Blocks))
	in[0] = entry
	work := []*ssa.BasicBlock{fn.Blocks[0]}
	violSeen := map[token.Pos]bool{}
	addViol := func(pos token.Pos, kind string) {
		if !violSeen[pos] {
			violSeen[pos] = true
			res.viols = append(res.viols, tsViolation{pos, fn, path, kind})
		}
	}
	for len(work) > 0 {
		b := work[0]
		work = work[1:]
		st := in[b.Index]
		for _, ins := range b.Instrs {
			if ts.resume[ins] {
				ts.events++
				for lc := 0; lc < 2; lc++ {
					if st&stBit(csPurged, lc) != 0 || st&stBit(csPopulated, lc) != 0 {
						addViol(ins.Pos(), "resume")
					}
				}
			}
			switch x := ins.(type) {
			case *ssa.Next:
				// entering an iteration over the set of databases: a different cache and monitor set
				if rg, ok := x.Iter.(*ssa.Range); ok && loadOfField(rg.X, ts.databases) {
					if st != 0 {
						st = stEntry
					}
				}
			case ssa.CallInstruction:
				if _, isGo := ins.(*ssa.Go); isGo {
					continue
				}
				cc := x.Common()
				switch eventOf(ts, cc) {
				case "P":
					ts.events++
					out := 0
					for lc := 0; lc < 2; lc++ {
						if st&stBit(csPopulated, lc) != 0 {
							addViol(ins.Pos(), "purge")
						}
						if st&(stBit(csInit, lc)|stBit(csPurged, lc)|stBit(csPopulated, lc)) != 0 {
							out |= stBit(csPurged, lc)
						}
					}
					st = out
				case "U":
					ts.events++
					out := 0
					for lc := 0; lc < 2; lc++ {
						if st&(stBit(csInit, lc)|stBit(csPurged, lc)|stBit(csPopulated, lc)) != 0 {
							out |= stBit(csPopulated, lc)
						}
					}
					st = out
				default:
					sc := cc.StaticCallee()
					if sc == nil || !ts.p.inRepo(sc) || pkgOf(sc) != "client" || sc.Blocks == nil {
						continue
					}
					out := 0
					for bit := 1; bit <= stAll; bit <<= 1 {
						if st&bit == 0 {
							continue
						}
						r := ts.run(sc, bit, depth+1, path+" -> "+sc.Name()+"@"+ts.p.Pos(ins.Pos()))
						out |= r.exit
						for _, v := range r.viols {
							if !violSeen[v.pos] {
								violSeen[v.pos] = true
								res.viols = append(res.viols, v)
							}
						}
					}
					st = out
				}
			case *ssa.Return:
				res.exit |= st
			}
		}
		for _, s := range b.Succs {
			fs := ts.filterEdge(st, b, s)
			if in[s.Index]|fs != in[s.Index] {
				in[s.Index] |= fs
				work = append(work, s)
			}
		}
	}
	ts.memo[key] = res
	return res
}

// findResumeSites: loads of Monitor.LastTransactionID that flow into the
// transaction-id argument of a monitor_cond_since request.
func (ts *typestate) findResumeSites() {
	ts.resume = map[ssa.Instruction]bool{}
	mk := ts.p.Fn("ovsdb", "", "NewMonitorCondSinceArgs")
	if mk == nil || ts.lastTxn == nil {
		return
	}
	ci := getCallIndex(ts.p)
	for _, s := range ci.sites[mk] {
		args := s.instr.(ssa.CallInstruction).Common().Args
		if len(args) == 0 {
			continue
		}
		var walk func(v ssa.Value, depth int)
		seen := map[ssa.Value]bool{}
		walk = func(v ssa.Value, depth int) {
			if v == nil || seen[v] || depth > 8 {
				return
			}
			seen[v] = true
			switch x := v.(type) {
			case *ssa.Phi:
				for _, e := range x.Edges {
					walk(e, depth+1)
				}
			case *ssa.UnOp:
				if loadOfField(x, ts.lastTxn) {
					ts.resume[x] = true
					return
				}
				if al, ok := x.X.(*ssa.Alloc); ok {
					if refs := al.Referrers(); refs != nil {
						for _, ref := range *refs {
							if st, ok := ref.(*ssa.Store); ok && st.Addr == al {
								walk(st.Val, depth+1)
							}
						}
					}
				}
			case *ssa.MakeInterface:
				walk(x.X, depth+1)
			}
		}
		walk(args[len(args)-1], 0)
	}
}

func ruleE7(p *Program, r *Reporter) {
	const id = "E7"
	ts := &typestate{p: p, purge: map[*types.Func]bool{}, populate: map[*types.Func]bool{}, memo: map[[2]interface{}]*tsResult{}, active: map[[2]interface{}]bool{}}
	for _, n := range []string{"Purge"} {
		if f := p.LookupFunc("cache", "TableCache", n); f != nil {
			ts.purge[f] = true
		}
	}
	for _, n := range []string{"Populate", "Populate2"} {
		if f := p.LookupFunc("cache", "TableCache", n); f != nil {
			ts.populate[f] = true
		}
	}
	ts.monitors = p.Field("client", "database", "monitors")
	ts.databases = p.Field("client", "ovsdbClient", "databases")
	ts.lastTxn = p.Field("client", "Monitor", "LastTransactionID")
	ts.findResumeSites()
	connect := p.Fn("client", "ovsdbClient", "connect")
	if len(ts.purge) != 1 || len(ts.populate) != 2 || ts.monitors == nil || ts.databases == nil || connect == nil {
		r.Anchor(id, "cache.TableCache.{Purge,Populate,Populate2}, client.database.monitors, client.(*ovsdbClient).connect")
		return
	}
	if len(ts.resume) == 0 {
		r.Anchor(id, "no monitor_cond_since request built from Monitor.LastTransactionID")
	}
	res := &tsResult{}
	seenV := map[token.Pos]bool{}
	for bit := 1; bit <= stAll; bit <<= 1 {
		if stEntry&bit == 0 {
			continue
		}
		one := ts.run(connect, bit, 0, "connect")
		for _, v := range one.viols {
			if !seenV[v.pos] {
				seenV[v.pos] = true
				res.viols = append(res.viols, v)
			}
		}
	}
	if ts.events < 3 {
		r.Anchor(id, fmt.Sprintf("only %d purge/populate events reachable from connect (expected >= 3)", ts.events))
	}
	r.Count(id, ts.events)
	if len(res.viols) == 0 {
		r.Ob(id, funcName(connect), "purge-after-populate", connect.Pos(), true, true,
			fmt.Sprintf("no Purge is reachable after a Populate of the same cache within one reconnect (%d purge/populate events on the paths from connect)", ts.events))
	}
	for _, v := range res.viols {
		if v.kind == "resume" {
			r.Ob(id, funcName(v.fn), "resume-after-purge", v.pos, false, true,
				"a monitor_cond_since request resumes from the monitor's last transaction id although the cache has already been purged / repopulated in this reconnect (path "+v.path+"): the server answers with the changes since that id only, so every row that did not change while the client was away is missing")
			continue
		}
		r.Ob(id, funcName(v.fn), "purge-after-populate", v.pos, false, true,
			"the cache can be purged here after an earlier monitor of the same restart loop has already populated it (path "+v.path+"): with two or more monitors the rows of the monitors restarted first are wiped and never come back")
	}
	ruleE7Loop(p, r, connect, ts)
	ruleRDefer(p, r)
	ruleROnce(p, r)
}

// ruleE7Loop: the restart loop ranges over db.monitors and calls monitor() for every entry.
func ruleE7Loop(p *Program, r *Reporter, connect *ssa.Function, ts *typestate) {
	const id = "E7"
	monitorFn := p.Fn("client", "ovsdbClient", "monitor")
	var call *ssa.Call
	for _, b := range connect.Blocks {
		for _, ins := range b.Instrs {
			if c, ok := ins.(*ssa.Call); ok && c.Call.StaticCallee() == monitorFn && monitorFn != nil {
				call = c
			}
		}
	}
	if call == nil {
		r.Anchor(id, "connect() does not call monitor()")
		return
	}
	// the call must be in a loop over db.monitors: some dominating block holds Next of Range(load monitors)
	var header *ssa.BasicBlock
	for d := call.Block(); d != nil; d = d.Idom() {
		for _, ins := range d.Instrs {
			if nx, ok := ins.(*ssa.Next); ok {
				if rg, ok := nx.Iter.(*ssa.Range); ok {
					if ld, ok := rg.X.(*ssa.UnOp); ok {
						if fa, ok := ld.X.(*ssa.FieldAddr); ok && fieldOfAddr(fa) == ts.monitors {
							header = d
						}
					}
				}
			}
		}
		if header != nil {
			break
		}
	}
	ok := header != nil
	why := "monitor() is called inside a range over db.monitors"
	if ok {
		// every back edge into the header from inside the loop is dominated by the call
		fc := newFlowCtx(connect)
		for _, pr := range header.Preds {
			if header.Dominates(pr) && (fc.blockReach(header, pr) || pr == header) {
				if !call.Block().Dominates(pr) {
					ok = false
					why = "an iteration of the restart loop can reach the next one without calling monitor() (a monitor is skipped)"
				}
			}
		}
		// the constant `true` is passed for reconnecting
		if len(call.Call.Args) >= 4 {
			if c, isC := call.Call.Args[3].(*ssa.Const); !isC || c.Value == nil || c.Value.Kind() != constant.Bool || !constant.BoolVal(c.Value) {
				ok = false
				why = "the restart loop does not pass reconnecting=true to monitor()"
			}
		}
	} else {
		why = "the call to monitor() in connect() is not inside a range over db.monitors: not every monitor is re-established"
	}
	r.Ob(id, funcName(connect), "restart every monitor", call.Pos(), ok, true, why)
	// an error from monitor() resets the RPC client before returning
	reset := p.Fn("client", "ovsdbClient", "resetRPCClient")
	okReset := false
	if reset != nil {
		for _, b := range connect.Blocks {
			for _, ins := range b.Instrs {
				if c, isCall := ins.(*ssa.Call); isCall && c.Call.StaticCallee() == reset && call.Block().Dominates(b) && b != call.Block() {
					okReset = true
				}
			}
		}
	}
	r.Ob(id, funcName(connect), "failed restart resets the connection", call.Pos(), okReset, true,
		ifs(okReset, "a failed monitor restart closes the RPC client, so the reconnect is retried from scratch", "a failed monitor restart leaves the half-initialised connection in place"))
}

// ruleRDefer: every reconnect attempt first re-arms update deferral.
func ruleRDefer(p *Program, r *Reporter) {
	const id = "R-DEFER"
	connect := p.Fn("client", "ovsdbClient", "connect")
	du := p.Field("client", "database", "deferUpdates")
	dus := p.Field("client", "database", "deferredUpdates")
	hd := p.Fn("client", "ovsdbClient", "handleDisconnectNotification")
	if connect == nil || du == nil || dus == nil || hd == nil {
		r.Anchor(id, "client connect / deferUpdates / handleDisconnectNotification")
		return
	}
	n := 0
	region := p.PrivateRegion(hd)
	var helperRearms func(g *ssa.Function, depth int) (bool, bool)
	helperRearms = func(g *ssa.Function, depth int) (setTrue, cleared bool) {
		if depth > 3 || g == connect {
			return
		}
		for _, b := range g.Blocks {
			for _, ins := range b.Instrs {
				switch x := ins.(type) {
				case *ssa.Store:
					if fa, ok := x.Addr.(*ssa.FieldAddr); ok {
						switch fieldOfAddr(fa) {
						case du:
							if cst, isC := x.Val.(*ssa.Const); isC && cst.Value != nil && cst.Value.Kind() == constant.Bool && constant.BoolVal(cst.Value) {
								setTrue = true
							}
						case dus:
							cleared = true
						}
					}
				case *ssa.Call:
					if sc := x.Call.StaticCallee(); sc != nil && region[sc] && sc != g {
						t, c := helperRearms(sc, depth+1)
						setTrue = setTrue || t
						cleared = cleared || c
					}
				}
			}
		}
		return
	}
	// the reconnect attempt may live in a private helper of the handler (and its closures)
	var scan []*ssa.Function
	for g := range region {
		scan = append(scan, g)
	}
	if !region[hd] {
		scan = append(scan, hd)
	}
	sort.Slice(scan, func(i, j int) bool { return scan[i].Pos() < scan[j].Pos() })
	for _, fn := range scan {
		if fn == connect {
			continue
		}
		fc := newFlowCtx(fn)
		for _, b := range fn.Blocks {
			for _, ins := range b.Instrs {
				c, ok := ins.(*ssa.Call)
				if !ok || c.Call.StaticCallee() != connect {
					continue
				}
				n++
				setTrue, cleared := false, false
				for _, b2 := range fn.Blocks {
					for _, i2 := range b2.Instrs {
						// the re-arming moved into a private helper: the call stands for its stores
						if hc, isCall := i2.(*ssa.Call); isCall && hc != c {
							if sc := hc.Call.StaticCallee(); sc != nil && sc != connect && region[sc] {
								if !fc.canFollow(hc, c) || fc.canFollow(c, hc) && hc.Block() == c.Block() {
									continue
								}
								t, cl := helperRearms(sc, 0)
								setTrue = setTrue || t
								cleared = cleared || cl
							}
							continue
						}
						st, ok := i2.(*ssa.Store)
						if !ok {
							continue
						}
						fa, ok := st.Addr.(*ssa.FieldAddr)
						if !ok {
							continue
						}
						if !fc.canFollow(st, c) || fc.canFollow(c, st) && st.Block() == c.Block() {
							continue
						}
						switch fieldOfAddr(fa) {
						case du:
							if cst, isC := st.Val.(*ssa.Const); isC && cst.Value != nil && cst.Value.Kind() == constant.Bool && constant.BoolVal(cst.Value) {
								setTrue = true
							}
						case dus:
							cleared = true
						}
					}
				}
				ok2 := setTrue && cleared
				r.Ob(id, funcName(fn), "deferUpdates re-armed before connect", c.Pos(), ok2, true,
					ifs(ok2, "deferUpdates=true and deferredUpdates reset precede every reconnect attempt: notifications that race with the monitor reply are buffered, and stale ones from a failed attempt are dropped",
						"a reconnect attempt is started without setting deferUpdates=true and clearing deferredUpdates: updates arriving before the monitor reply are applied to the stale cache or replayed twice"))
			}
		}
	}
	if n == 0 {
		r.Anchor(id, "handleDisconnectNotification does not call connect")
	}
}

// ruleROnce: a transact RPC is sent once per Transact call.
func ruleROnce(p *Program, r *Reporter) {
	const id = "R-ONCE"
	tr := p.Fn("client", "ovsdbClient", "transact")
	Tr := p.Fn("client", "ovsdbClient", "Transact")
	if tr == nil || Tr == nil {
		r.Anchor(id, "client.(*ovsdbClient).transact / Transact")
		return
	}
	found := 0
	check := func(fn *ssa.Function, isTarget func(c *ssa.Call) bool, what string) {
		fc := newFlowCtx(fn)
		for _, b := range fn.Blocks {
			for _, ins := range b.Instrs {
				c, ok := ins.(*ssa.Call)
				if !ok || !isTarget(c) {
					continue
				}
				found++
				inLoop := fc.blockReach(b, b)
				r.Ob(id, funcName(fn), what, c.Pos(), !inLoop, true,
					ifs(!inLoop, what+" is outside any loop: a Transact call that returns has sent the transaction once", what+" sits in a loop: the same transaction can be submitted more than once"))
			}
		}
	}
	check(tr, func(c *ssa.Call) bool {
		sc := c.Call.StaticCallee()
		if sc == nil || sc.Signature.Recv() == nil || !isRPC2(sc.Signature.Recv().Type(), "Client") || len(c.Call.Args) < 3 {
			return false
		}
		for _, a := range c.Call.Args {
			if cst, ok := a.(*ssa.Const); ok && cst.Value != nil && cst.Value.Kind() == constant.String && constant.StringVal(cst.Value) == "transact" {
				return true
			}
		}
		return false
	}, "the \"transact\" RPC")
	check(Tr, func(c *ssa.Call) bool { return c.Call.StaticCallee() == tr }, "the call to transact()")
	if found < 2 {
		r.Anchor(id, fmt.Sprintf("transact RPC sites: found %d, expected 2", found))
	}
}
