package main

import (
	"fmt"
	"go/constant"
	"go/token"
	"go/types"

	"golang.org/x/tools/go/ssa"
)

// E7 — reconnect typestate: within one execution of connect(reconnect=true) a
// database's cache must not be purged after a monitor's initial contents have
// been populated into it.

const (
	stInit      = 1
	stPopulated = 2
)

type tsResult struct {
	exit  int // bitset of exit states
	viols []tsViolation
}

type tsViolation struct {
	pos  token.Pos
	fn   *ssa.Function
	path string
}

type typestate struct {
	p         *Program
	purge     map[*types.Func]bool
	populate  map[*types.Func]bool
	monitors  *types.Var // client.database.monitors
	databases *types.Var // client.ovsdbClient.databases
	memo      map[[2]interface{}]*tsResult
	active    map[[2]interface{}]bool
	events    int
}

func eventOf(ts *typestate, c *ssa.CallCommon) string {
	sc := c.StaticCallee()
	if sc == nil || sc.Object() == nil {
		return ""
	}
	if f, ok := sc.Object().(*types.Func); ok {
		if ts.purge[f] {
			return "P"
		}
		if ts.populate[f] {
			return "U"
		}
	}
	return ""
}

// lenMonitorsRefuted: do the facts at `at` contradict len(db.monitors) >= 2 ?
func (ts *typestate) lenRefuted(at ssa.Instruction) (bool, string) {
	for _, f := range factsAt(at.Block()) {
		c, truth := normFact(f)
		bo, ok := c.(*ssa.BinOp)
		if !ok {
			continue
		}
		l, r, op := bo.X, bo.Y, bo.Op
		if _, isLen := lenOperand(r); isLen {
			l, r = r, l
			switch op {
			case token.LSS:
				op = token.GTR
			case token.LEQ:
				op = token.GEQ
			case token.GTR:
				op = token.LSS
			case token.GEQ:
				op = token.LEQ
			}
		}
		lx, isLen := lenOperand(l)
		if !isLen {
			continue
		}
		k, isC := constInt(r)
		if !isC {
			continue
		}
		ld, ok := lx.(*ssa.UnOp)
		if !ok {
			continue
		}
		fa, ok := ld.X.(*ssa.FieldAddr)
		if !ok || fieldOfAddr(fa) != ts.monitors {
			continue
		}
		if !truth {
			switch op {
			case token.EQL:
				op = token.NEQ
			case token.NEQ:
				op = token.EQL
			case token.LSS:
				op = token.GEQ
			case token.LEQ:
				op = token.GTR
			case token.GTR:
				op = token.LEQ
			case token.GEQ:
				op = token.LSS
			}
		}
		// does (len op k) exclude every len >= 2 ?
		refuted := false
		switch op {
		case token.EQL:
			refuted = k < 2
		case token.LSS:
			refuted = k <= 2
		case token.LEQ:
			refuted = k < 2
		}
		if refuted {
			return true, fmt.Sprintf("guard len(monitors) %s %d holds here, impossible once a previous monitor of the same restart loop has populated the cache", op, k)
		}
	}
	return false, ""
}

// run analyses fn from entry state `entry` (a single state) and returns the exit states.
func (ts *typestate) run(fn *ssa.Function, entry int, depth int, path string) *tsResult {
	key := [2]interface{}{fn, entry}
	if r, ok := ts.memo[key]; ok {
		return r
	}
	if ts.active[key] || depth > 6 || fn.Blocks == nil {
		return &tsResult{exit: entry}
	}
	ts.active[key] = true
	defer delete(ts.active, key)
	res := &tsResult{}
	in := make([]int, len(fn.Blocks))
	in[0] = entry
	work := []*ssa.BasicBlock{fn.Blocks[0]}
	violSeen := map[token.Pos]bool{}
	for len(work) > 0 {
		b := work[0]
		work = work[1:]
		st := in[b.Index]
		for _, ins := range b.Instrs {
			switch x := ins.(type) {
			case *ssa.Next:
				// entering an iteration over the set of databases: a different cache
				if rg, ok := x.Iter.(*ssa.Range); ok {
					if ld, ok := rg.X.(*ssa.UnOp); ok {
						if fa, ok := ld.X.(*ssa.FieldAddr); ok && fieldOfAddr(fa) == ts.databases {
							st = stInit
						}
					}
				}
			case ssa.CallInstruction:
				if _, isGo := ins.(*ssa.Go); isGo {
					continue
				}
				cc := x.Common()
				switch eventOf(ts, cc) {
				case "P":
					ts.events++
					if st&stPopulated != 0 {
						if ok, _ := ts.lenRefuted(ins); ok {
							// unreachable in state Populated; Init part continues
							st &^= stPopulated
							if st == 0 {
								st = 0
							}
						} else if !violSeen[ins.Pos()] {
							violSeen[ins.Pos()] = true
							res.viols = append(res.viols, tsViolation{ins.Pos(), fn, path})
						}
					}
					if st != 0 {
						st = stInit
					}
				case "U":
					ts.events++
					if st != 0 {
						st = stPopulated
					}
				default:
					sc := cc.StaticCallee()
					if sc == nil || !ts.p.inRepo(sc) || pkgOf(sc) != "client" || sc.Blocks == nil {
						continue
					}
					out := 0
					for _, s := range []int{stInit, stPopulated} {
						if st&s == 0 {
							continue
						}
						r := ts.run(sc, s, depth+1, path+" -> "+sc.Name()+"@"+ts.p.Pos(ins.Pos()))
						out |= r.exit
						for _, v := range r.viols {
							if !violSeen[v.pos] {
								violSeen[v.pos] = true
								res.viols = append(res.viols, v)
							}
						}
					}
					if st != 0 {
						st = out
					}
				}
			case *ssa.Return:
				res.exit |= st
			}
		}
		for _, s := range b.Succs {
			if in[s.Index]|st != in[s.Index] {
				in[s.Index] |= st
				work = append(work, s)
			}
		}
	}
	if res.exit == 0 {
		res.exit = entry
	}
	ts.memo[key] = res
	return res
}

func ruleE7(p *Program, r *Reporter) {
	const id = "E7"
	ts := &typestate{p: p, purge: map[*types.Func]bool{}, populate: map[*types.Func]bool{}, memo: map[[2]interface{}]*tsResult{}, active: map[[2]interface{}]bool{}}
	for _, n := range []string{"Purge"} {
		if f := p.LookupFunc("cache", "TableCache", n); f != nil {
			ts.purge[f] = true
		}
	}
	for _, n := range []string{"Populate", "Populate2"} {
		if f := p.LookupFunc("cache", "TableCache", n); f != nil {
			ts.populate[f] = true
		}
	}
	ts.monitors = p.Field("client", "database", "monitors")
	ts.databases = p.Field("client", "ovsdbClient", "databases")
	connect := p.Fn("client", "ovsdbClient", "connect")
	if len(ts.purge) != 1 || len(ts.populate) != 2 || ts.monitors == nil || ts.databases == nil || connect == nil {
		r.Anchor(id, "cache.TableCache.{Purge,Populate,Populate2}, client.database.monitors, client.(*ovsdbClient).connect")
		return
	}
	res := ts.run(connect, stInit, 0, "connect")
	if ts.events < 3 {
		r.Anchor(id, fmt.Sprintf("only %d purge/populate events reachable from connect (expected >= 3)", ts.events))
	}
	r.Count(id, ts.events)
	if len(res.viols) == 0 {
		r.Ob(id, funcName(connect), "purge-after-populate", connect.Pos(), true, true,
			fmt.Sprintf("no Purge is reachable after a Populate of the same cache within one reconnect (%d purge/populate events on the paths from connect)", ts.events))
	}
	for _, v := range res.viols {
		r.Ob(id, funcName(v.fn), "purge-after-populate", v.pos, false, true,
			"the cache can be purged here after an earlier monitor of the same restart loop has already populated it (path "+v.path+"): with two or more monitors the rows of the monitors restarted first are wiped and never come back")
	}
	ruleE7Loop(p, r, connect, ts)
	ruleRDefer(p, r)
	ruleROnce(p, r)
}

// ruleE7Loop: the restart loop ranges over db.monitors and calls monitor() for every entry.
func ruleE7Loop(p *Program, r *Reporter, connect *ssa.Function, ts *typestate) {
	const id = "E7"
	monitorFn := p.Fn("client", "ovsdbClient", "monitor")
	var call *ssa.Call
	for _, b := range connect.Blocks {
		for _, ins := range b.Instrs {
			if c, ok := ins.(*ssa.Call); ok && c.Call.StaticCallee() == monitorFn && monitorFn != nil {
				call = c
			}
		}
	}
	if call == nil {
		r.Anchor(id, "connect() does not call monitor()")
		return
	}
	// the call must be in a loop over db.monitors: some dominating block holds Next of Range(load monitors)
	var header *ssa.BasicBlock
	for d := call.Block(); d != nil; d = d.Idom() {
		for _, ins := range d.Instrs {
			if nx, ok := ins.(*ssa.Next); ok {
				if rg, ok := nx.Iter.(*ssa.Range); ok {
					if ld, ok := rg.X.(*ssa.UnOp); ok {
						if fa, ok := ld.X.(*ssa.FieldAddr); ok && fieldOfAddr(fa) == ts.monitors {
							header = d
						}
					}
				}
			}
		}
		if header != nil {
			break
		}
	}
	ok := header != nil
	why := "monitor() is called inside a range over db.monitors"
	if ok {
		// every back edge into the header from inside the loop is dominated by the call
		fc := newFlowCtx(connect)
		for _, pr := range header.Preds {
			if header.Dominates(pr) && (fc.blockReach(header, pr) || pr == header) {
				if !call.Block().Dominates(pr) {
					ok = false
					why = "an iteration of the restart loop can reach the next one without calling monitor() (a monitor is skipped)"
				}
			}
		}
		// the constant `true` is passed for reconnecting
		if len(call.Call.Args) >= 4 {
			if c, isC := call.Call.Args[3].(*ssa.Const); !isC || c.Value == nil || c.Value.Kind() != constant.Bool || !constant.BoolVal(c.Value) {
				ok = false
				why = "the restart loop does not pass reconnecting=true to monitor()"
			}
		}
	} else {
		why = "the call to monitor() in connect() is not inside a range over db.monitors: not every monitor is re-established"
	}
	r.Ob(id, funcName(connect), "restart every monitor", call.Pos(), ok, true, why)
	// an error from monitor() resets the RPC client before returning
	reset := p.Fn("client", "ovsdbClient", "resetRPCClient")
	okReset := false
	if reset != nil {
		for _, b := range connect.Blocks {
			for _, ins := range b.Instrs {
				if c, isCall := ins.(*ssa.Call); isCall && c.Call.StaticCallee() == reset && call.Block().Dominates(b) && b != call.Block() {
					okReset = true
				}
			}
		}
	}
	r.Ob(id, funcName(connect), "failed restart resets the connection", call.Pos(), okReset, true,
		ifs(okReset, "a failed monitor restart closes the RPC client, so the reconnect is retried from scratch", "a failed monitor restart leaves the half-initialised connection in place"))
}

// ruleRDefer: every reconnect attempt first re-arms update deferral.
func ruleRDefer(p *Program, r *Reporter) {
	const id = "R-DEFER"
	connect := p.Fn("client", "ovsdbClient", "connect")
	du := p.Field("client", "database", "deferUpdates")
	dus := p.Field("client", "database", "deferredUpdates")
	hd := p.Fn("client", "ovsdbClient", "handleDisconnectNotification")
	if connect == nil || du == nil || dus == nil || hd == nil {
		r.Anchor(id, "client connect / deferUpdates / handleDisconnectNotification")
		return
	}
	n := 0
	for _, fn := range append([]*ssa.Function{hd}, hd.AnonFuncs...) {
		fc := newFlowCtx(fn)
		for _, b := range fn.Blocks {
			for _, ins := range b.Instrs {
				c, ok := ins.(*ssa.Call)
				if !ok || c.Call.StaticCallee() != connect {
					continue
				}
				n++
				setTrue, cleared := false, false
				for _, b2 := range fn.Blocks {
					for _, i2 := range b2.Instrs {
						st, ok := i2.(*ssa.Store)
						if !ok {
							continue
						}
						fa, ok := st.Addr.(*ssa.FieldAddr)
						if !ok {
							continue
						}
						if !fc.canFollow(st, c) || fc.canFollow(c, st) && st.Block() == c.Block() {
							continue
						}
						switch fieldOfAddr(fa) {
						case du:
							if cst, isC := st.Val.(*ssa.Const); isC && cst.Value != nil && cst.Value.Kind() == constant.Bool && constant.BoolVal(cst.Value) {
								setTrue = true
							}
						case dus:
							cleared = true
						}
					}
				}
				ok2 := setTrue && cleared
				r.Ob(id, funcName(fn), "deferUpdates re-armed before connect", c.Pos(), ok2, true,
					ifs(ok2, "deferUpdates=true and deferredUpdates reset precede every reconnect attempt: notifications that race with the monitor reply are buffered, and stale ones from a failed attempt are dropped",
						"a reconnect attempt is started without setting deferUpdates=true and clearing deferredUpdates: updates arriving before the monitor reply are applied to the stale cache or replayed twice"))
			}
		}
	}
	if n == 0 {
		r.Anchor(id, "handleDisconnectNotification does not call connect")
	}
}

// ruleROnce: a transact RPC is sent once per Transact call.
func ruleROnce(p *Program, r *Reporter) {
	const id = "R-ONCE"
	tr := p.Fn("client", "ovsdbClient", "transact")
	Tr := p.Fn("client", "ovsdbClient", "Transact")
	if tr == nil || Tr == nil {
		r.Anchor(id, "client.(*ovsdbClient).transact / Transact")
		return
	}
	found := 0
	check := func(fn *ssa.Function, isTarget func(c *ssa.Call) bool, what string) {
		fc := newFlowCtx(fn)
		for _, b := range fn.Blocks {
			for _, ins := range b.Instrs {
				c, ok := ins.(*ssa.Call)
				if !ok || !isTarget(c) {
					continue
				}
				found++
				inLoop := fc.blockReach(b, b)
				r.Ob(id, funcName(fn), what, c.Pos(), !inLoop, true,
					ifs(!inLoop, what+" is outside any loop: a Transact call that returns has sent the transaction once", what+" sits in a loop: the same transaction can be submitted more than once"))
			}
		}
	}
	check(tr, func(c *ssa.Call) bool {
		sc := c.Call.StaticCallee()
		if sc == nil || sc.Signature.Recv() == nil || !isRPC2(sc.Signature.Recv().Type(), "Client") || len(c.Call.Args) < 3 {
			return false
		}
		for _, a := range c.Call.Args {
			if cst, ok := a.(*ssa.Const); ok && cst.Value != nil && cst.Value.Kind() == constant.String && constant.StringVal(cst.Value) == "transact" {
				return true
			}
		}
		return false
	}, "the \"transact\" RPC")
	check(Tr, func(c *ssa.Call) bool { return c.Call.StaticCallee() == tr }, "the call to transact()")
	if found < 2 {
		r.Anchor(id, fmt.Sprintf("transact RPC sites: found %d, expected 2", found))
	}
}
