package main

import (
	"go/ast"
	"go/token"
	"go/types"

	"golang.org/x/tools/go/packages"
)

// rpcRegistration is one (method name -> handler) association handed to
// rpc2's Handle, whether written as a direct call with a constant name or
// through a table (slice/array/map of pairs) that a loop registers.
type rpcRegistration struct {
	name   string
	arg    ast.Expr // the handler expression (method value, func literal, ...)
	target *types.Func
	pos    token.Pos
}

// rpcRegistrations enumerates the registrations of package pkgrel on an rpc2
// value of the named type ("Client" or "Server").
func rpcRegistrations(p *Program, pkgrel, rpc2Type string) []rpcRegistration {
	pk := p.Pkgs[pkgrel]
	if pk == nil {
		return nil
	}
	info := pk.TypesInfo
	var out []rpcRegistration
	resolve := func(e ast.Expr) *types.Func {
		switch a := ast.Unparen(e).(type) {
		case *ast.FuncLit:
			var target *types.Func
			ast.Inspect(a.Body, func(m ast.Node) bool {
				if c, ok := m.(*ast.CallExpr); ok {
					if fn := calleeOf(info, c); fn != nil && fn.Pkg() == pk.Types {
						target = fn
					}
				}
				return true
			})
			return target
		case *ast.SelectorExpr:
			fn, _ := info.Uses[a.Sel].(*types.Func)
			return fn
		case *ast.Ident:
			fn, _ := info.Uses[a].(*types.Func)
			return fn
		}
		return nil
	}
	for _, f := range pk.Syntax {
		ast.Inspect(f, func(n ast.Node) bool {
			call, ok := n.(*ast.CallExpr)
			if !ok || len(call.Args) != 2 {
				return true
			}
			sel, ok := call.Fun.(*ast.SelectorExpr)
			if !ok || sel.Sel.Name != "Handle" {
				return true
			}
			if tv, ok := info.Types[sel.X]; !ok || !isRPC2(tv.Type, rpc2Type) {
				return true
			}
			if name, ok := constString(info, call.Args[0]); ok {
				out = append(out, rpcRegistration{name, call.Args[1], resolve(call.Args[1]), call.Pos()})
				return true
			}
			// table-driven: Handle(e.nameField, e.handlerField) with e of a struct type T
			ns, ok1 := ast.Unparen(call.Args[0]).(*ast.SelectorExpr)
			hs, ok2 := ast.Unparen(call.Args[1]).(*ast.SelectorExpr)
			if ok1 && ok2 {
				nf, _ := info.Uses[ns.Sel].(*types.Var)
				hf, _ := info.Uses[hs.Sel].(*types.Var)
				if nf != nil && hf != nil && nf.IsField() && hf.IsField() {
					out = append(out, tableRegistrations(pk, nf, hf, resolve)...)
					return true
				}
			}
			// Handle(k, v) with k, v ranging over a map literal (or a function returning one)
			ki, ok1 := ast.Unparen(call.Args[0]).(*ast.Ident)
			vi, ok2 := ast.Unparen(call.Args[1]).(*ast.Ident)
			if ok1 && ok2 {
				out = append(out, mapRegistrations(pk, info.Uses[ki], info.Uses[vi], resolve)...)
			}
			return true
		})
	}
	return out
}

// tableRegistrations: every composite literal of the struct type declaring
// nameField/handlerField, anywhere in the package.
func tableRegistrations(pk *packages.Package, nameField, handlerField *types.Var, resolve func(ast.Expr) *types.Func) []rpcRegistration {
	info := pk.TypesInfo
	var out []rpcRegistration
	for _, f := range pk.Syntax {
		ast.Inspect(f, func(n ast.Node) bool {
			cl, ok := n.(*ast.CompositeLit)
			if !ok {
				return true
			}
			tv, ok := info.Types[cl]
			if !ok {
				return true
			}
			st, ok := tv.Type.Underlying().(*types.Struct)
			if !ok {
				return true
			}
			ni, hi := -1, -1
			for i := 0; i < st.NumFields(); i++ {
				if st.Field(i) == nameField {
					ni = i
				}
				if st.Field(i) == handlerField {
					hi = i
				}
			}
			if ni < 0 || hi < 0 {
				return true
			}
			var ne, he ast.Expr
			for i, el := range cl.Elts {
				if kv, ok := el.(*ast.KeyValueExpr); ok {
					if id, ok := kv.Key.(*ast.Ident); ok {
						if id.Name == nameField.Name() {
							ne = kv.Value
						}
						if id.Name == handlerField.Name() {
							he = kv.Value
						}
					}
					continue
				}
				if i == ni {
					ne = el
				}
				if i == hi {
					he = el
				}
			}
			if ne == nil || he == nil {
				return true
			}
			if name, ok := constString(info, ne); ok {
				out = append(out, rpcRegistration{name, he, resolve(he), cl.Pos()})
			}
			return true
		})
	}
	return out
}

// mapRegistrations: k and v are the key and value variables of a range
// statement over a map composite literal (directly, through a variable
// initialised with one, or through a call of a function returning one).
func mapRegistrations(pk *packages.Package, k, v types.Object, resolve func(ast.Expr) *types.Func) []rpcRegistration {
	if k == nil || v == nil {
		return nil
	}
	info := pk.TypesInfo
	var out []rpcRegistration
	var lits func(e ast.Expr, depth int) []*ast.CompositeLit
	lits = func(e ast.Expr, depth int) []*ast.CompositeLit {
		if depth > 3 {
			return nil
		}
		switch x := ast.Unparen(e).(type) {
		case *ast.CompositeLit:
			return []*ast.CompositeLit{x}
		case *ast.CallExpr:
			fn := calleeOf(info, x)
			if fn == nil {
				return nil
			}
			var res []*ast.CompositeLit
			for _, f := range pk.Syntax {
				for _, d := range f.Decls {
					fd, ok := d.(*ast.FuncDecl)
					if !ok || fd.Body == nil || info.Defs[fd.Name] != fn {
						continue
					}
					ast.Inspect(fd.Body, func(n ast.Node) bool {
						if rs, ok := n.(*ast.ReturnStmt); ok && len(rs.Results) == 1 {
							res = append(res, lits(rs.Results[0], depth+1)...)
						}
						return true
					})
				}
			}
			return res
		case *ast.Ident:
			obj := info.Uses[x]
			var res []*ast.CompositeLit
			for _, f := range pk.Syntax {
				ast.Inspect(f, func(n ast.Node) bool {
					switch s := n.(type) {
					case *ast.AssignStmt:
						for i, l := range s.Lhs {
							if id, ok := l.(*ast.Ident); ok && (info.Defs[id] == obj || info.Uses[id] == obj) && i < len(s.Rhs) {
								res = append(res, lits(s.Rhs[i], depth+1)...)
							}
						}
					case *ast.ValueSpec:
						for i, id := range s.Names {
							if info.Defs[id] == obj && i < len(s.Values) {
								res = append(res, lits(s.Values[i], depth+1)...)
							}
						}
					}
					return true
				})
			}
			return res
		}
		return nil
	}
	for _, f := range pk.Syntax {
		ast.Inspect(f, func(n ast.Node) bool {
			rs, ok := n.(*ast.RangeStmt)
			if !ok {
				return true
			}
			ki, ok1 := rs.Key.(*ast.Ident)
			vi, ok2 := rs.Value.(*ast.Ident)
			if !ok1 || !ok2 || info.Defs[ki] != k || info.Defs[vi] != v {
				return true
			}
			for _, cl := range lits(rs.X, 0) {
				for _, el := range cl.Elts {
					kv, ok := el.(*ast.KeyValueExpr)
					if !ok {
						continue
					}
					if name, ok := constString(info, kv.Key); ok {
						out = append(out, rpcRegistration{name, kv.Value, resolve(kv.Value), kv.Pos()})
					}
				}
			}
			return true
		})
	}
	return out
}
