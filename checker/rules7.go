package main

import (
	"fmt"
	"go/constant"
	"go/token"
	"go/types"
	"sort"
	"strings"

	"golang.org/x/tools/go/ssa"
)

// Rules added after the sixth wave of seeded changes.

// ---------------------------------------------------------------------------
// N-FIELDS — inside the substitution pass of ExpandNamedUUIDs every operation
// reaches the code that walks each of the members in which RFC 7047 lets it
// carry values (where / mutations / rows / row). N-SKIP only demands the table
// lookup; a skip placed after it (for instance "no name is known yet at this
// operation") leaves forward references unresolved.

var opMembers = map[string][]string{
	"insert": {"Row"},
	"select": {"Where"},
	"update": {"Where", "Row"},
	"mutate": {"Where", "Mutations"},
	"delete": {"Where"},
	"wait":   {"Where", "Rows"},
}

func ruleNFIELDS(p *Program, r *Reporter) {
	const id = "N-FIELDS"
	root := p.Fn("ovsdb", "", "ExpandNamedUUIDs")
	opFld := p.Field("ovsdb", "Operation", "Op")
	if root == nil || opFld == nil {
		r.Anchor(id, "ovsdb.ExpandNamedUUIDs / ovsdb.Operation.Op")
		return
	}
	members := map[string]*types.Var{}
	for _, m := range []string{"Where", "Mutations", "Rows", "Row"} {
		members[m] = p.Field("ovsdb", "Operation", m)
		if members[m] == nil {
			r.Anchor(id, "ovsdb.Operation."+m)
			return
		}
	}
	isOpLoad := func(v ssa.Value) bool {
		ld, ok := v.(*ssa.UnOp)
		if !ok || ld.Op != token.MUL {
			return false
		}
		fa, ok := ld.X.(*ssa.FieldAddr)
		return ok && fieldOfAddr(fa) == opFld
	}
	region := map[*ssa.Function]bool{}
	for _, g := range p.Reach(root) {
		region[g] = true
	}
	// members touched by each function of the region, transitively
	direct := map[*ssa.Function]map[*types.Var]bool{}
	for g := range region {
		direct[g] = map[*types.Var]bool{}
		for _, b := range g.Blocks {
			for _, ins := range b.Instrs {
				if fa, ok := ins.(*ssa.FieldAddr); ok {
					direct[g][fieldOfAddr(fa)] = true
				}
				if f, ok := ins.(*ssa.Field); ok {
					if st, isS := f.X.Type().Underlying().(*types.Struct); isS {
						direct[g][st.Field(f.Field)] = true
					}
				}
			}
		}
	}
	var touchesFn func(g *ssa.Function, fld *types.Var, seen map[*ssa.Function]bool) bool
	touchesFn = func(g *ssa.Function, fld *types.Var, seen map[*ssa.Function]bool) bool {
		if seen[g] || !region[g] {
			return false
		}
		seen[g] = true
		if direct[g][fld] {
			return true
		}
		for _, b := range g.Blocks {
			for _, ins := range b.Instrs {
				if c, ok := ins.(ssa.CallInstruction); ok {
					fns, _ := p.Callees(c)
					for _, f := range fns {
						if touchesFn(f, fld, seen) {
							return true
						}
					}
				}
				if mc, ok := ins.(*ssa.MakeClosure); ok {
					if f, isF := mc.Fn.(*ssa.Function); isF && touchesFn(f, fld, seen) {
						return true
					}
				}
			}
		}
		return false
	}
	n := 0
	for g := range region {
		for _, b := range g.Blocks {
			for _, ins := range b.Instrs {
				c, ok := ins.(*ssa.Call)
				if !ok {
					continue
				}
				sc := c.Call.StaticCallee()
				if sc == nil || sc.Name() != "Table" || sc.Signature.Recv() == nil || !isNamed(deref(sc.Signature.Recv().Type()), repoMod+"/ovsdb", "DatabaseSchema") {
					continue
				}
				h := loopHeaderOf(b)
				if h == nil {
					continue
				}
				// blocks of the loop that touch each member
				touch := map[string]map[*ssa.BasicBlock]bool{}
				for m, fld := range members {
					touch[m] = map[*ssa.BasicBlock]bool{}
					for _, lb := range g.Blocks {
						if !inLoopOf(h, lb) {
							continue
						}
						for _, li := range lb.Instrs {
							switch x := li.(type) {
							case *ssa.FieldAddr:
								if fieldOfAddr(x) == fld {
									touch[m][lb] = true
								}
							case ssa.CallInstruction:
								fns, _ := p.Callees(x)
								for _, f := range fns {
									if touchesFn(f, fld, map[*ssa.Function]bool{}) {
										touch[m][lb] = true
									}
								}
							}
						}
					}
				}
				// an inner loop over a package-level table of functions runs at least once:
				// its header stands for what its body touches
				for _, lb := range g.Blocks {
					if !inLoopOf(h, lb) || lb == h || loopHeaderOf(lb) != lb && !isLoopHeader(lb) {
						continue
					}
					if !isLoopHeader(lb) || !rangesOverTable(p, lb) {
						continue
					}
					for m := range members {
						for tb := range touch[m] {
							if inLoopOf(lb, tb) {
								touch[m][lb] = true
							}
						}
					}
				}
				for _, opv := range []string{"insert", "select", "update", "mutate", "delete", "wait"} {
					for _, m := range opMembers[opv] {
						n++
						skipped := false
						if len(touch[m]) == 0 {
							skipped = true
						}
						for _, s := range h.Succs {
							if !inLoopOf(h, s) || s == h {
								continue
							}
							if enumPathAvoidingSet(s, h, touch[m], isOpLoad, opv) {
								skipped = true
							}
						}
						r.Ob(id, funcName(g), opv+" member "+m+" substituted", c.Pos(), !skipped, true,
							ifs(!skipped, "every "+opv+" operation reaches the code that walks its "+m+" member", "a "+opv+" operation can go round the substitution loop without its "+m+" member being looked at: names used there (for instance a reference to a row inserted later in the transaction) stay unresolved"))
					}
				}
			}
		}
	}
	if n < 9 {
		r.Anchor(id, "ExpandNamedUUIDs: schema.Table lookup inside the substitution loop")
	}
}

// enumPathAvoidingSet is enumPathAvoiding with a set of blocks to avoid.
func enumPathAvoidingSet(from, to *ssa.BasicBlock, avoid map[*ssa.BasicBlock]bool, isScrutinee func(ssa.Value) bool, val string) bool {
	seen := map[*ssa.BasicBlock]bool{}
	work := []*ssa.BasicBlock{from}
	for len(work) > 0 {
		b := work[len(work)-1]
		work = work[:len(work)-1]
		if seen[b] || avoid[b] {
			continue
		}
		seen[b] = true
		if b == to {
			return true
		}
		succs := b.Succs
		if len(b.Instrs) > 0 {
			if iff, ok := b.Instrs[len(b.Instrs)-1].(*ssa.If); ok && len(b.Succs) == 2 {
				if bo, ok := iff.Cond.(*ssa.BinOp); ok && (bo.Op == token.EQL || bo.Op == token.NEQ) {
					var cst *ssa.Const
					if isScrutinee(bo.X) {
						cst, _ = bo.Y.(*ssa.Const)
					} else if isScrutinee(bo.Y) {
						cst, _ = bo.X.(*ssa.Const)
					}
					if cst != nil && cst.Value != nil && cst.Value.Kind() == constant.String {
						eq := constant.StringVal(cst.Value) == val
						if bo.Op == token.NEQ {
							eq = !eq
						}
						if eq {
							succs = b.Succs[:1]
						} else {
							succs = b.Succs[1:]
						}
					}
				}
			}
		}
		work = append(work, succs...)
	}
	return false
}

// ---------------------------------------------------------------------------
// T-TRAFFIC — the "traffic seen" signal that re-arms the inactivity probe is
// only raised where the outcome of the RPC is known: at every send on
// ovsdbClient.trafficSeen some branch fact about the error of the call is in
// force (err == nil, or a classification of err). A send reached whatever the
// error is counts a timed-out call as proof of life and a silent peer is never
// detected.

func ruleTTRAFFIC(p *Program, r *Reporter) {
	const id = "T-TRAFFIC"
	fld := p.Field("client", "ovsdbClient", "trafficSeen")
	if fld == nil {
		r.Anchor(id, "client.ovsdbClient.trafficSeen")
		return
	}
	errT := types.Universe.Lookup("error").Type()
	isTrafficChan := func(v ssa.Value) bool {
		ld, ok := v.(*ssa.UnOp)
		if !ok || ld.Op != token.MUL {
			return false
		}
		fa, ok := ld.X.(*ssa.FieldAddr)
		return ok && fieldOfAddr(fa) == fld
	}
	// does the value v (a branch condition) depend on an error produced by a call?
	var mentionsErr func(v ssa.Value, depth int) bool
	mentionsErr = func(v ssa.Value, depth int) bool {
		if depth > 4 || v == nil {
			return false
		}
		if types.Identical(v.Type(), errT) {
			switch x := v.(type) {
			case *ssa.Call:
				return true
			case *ssa.Extract:
				_, isCall := x.Tuple.(*ssa.Call)
				return isCall
			case *ssa.Phi:
				for _, e := range x.Edges {
					if mentionsErr(e, depth+1) {
						return true
					}
				}
				return false
			}
		}
		switch x := v.(type) {
		case *ssa.BinOp:
			return mentionsErr(x.X, depth+1) || mentionsErr(x.Y, depth+1)
		case *ssa.UnOp:
			return mentionsErr(x.X, depth+1)
		case *ssa.Extract:
			return mentionsErr(x.Tuple, depth+1)
		case *ssa.TypeAssert:
			return mentionsErr(x.X, depth+1)
		case *ssa.Call:
			for _, a := range x.Call.Args {
				if mentionsErr(a, depth+1) {
					return true
				}
			}
		case *ssa.MakeInterface:
			return mentionsErr(x.X, depth+1)
		case *ssa.ChangeInterface:
			return mentionsErr(x.X, depth+1)
		case *ssa.Phi:
			for _, e := range x.Edges {
				if mentionsErr(e, depth+1) {
					return true
				}
			}
		}
		return false
	}
	ci := getCallIndex(p)
	var decided func(g *ssa.Function, b *ssa.BasicBlock, depth int) (bool, bool)
	// decided reports (hasRPC, ok): whether the function makes an RPC at all and, if
	// so, whether block b is entered under a fact about an error
	hasCall := func(g *ssa.Function) bool {
		for _, b := range g.Blocks {
			for _, ins := range b.Instrs {
				if c, ok := ins.(*ssa.Call); ok {
					if sc := c.Call.StaticCallee(); sc != nil && (sc.Name() == "CallWithContext" || sc.Name() == "Call") && sc.Pkg != nil && sc.Pkg.Pkg.Name() == "rpc2" {
						return true
					}
				}
			}
		}
		return false
	}
	decided = func(g *ssa.Function, b *ssa.BasicBlock, depth int) (bool, bool) {
		if hasCall(g) {
			for _, f := range conjunctFacts(b) {
				c, _ := normFact(f)
				if mentionsErr(c, 0) {
					return true, true
				}
			}
			return true, false
		}
		if depth > 2 {
			return false, false
		}
		sites := ci.sites[g]
		if g.Parent() != nil || len(sites) == 0 {
			return false, false
		}
		any := false
		for _, s := range sites {
			has, ok := decided(s.caller, s.instr.Block(), depth+1)
			if has {
				any = true
				if !ok {
					return true, false
				}
			}
		}
		return any, any
	}
	n := 0
	for _, g := range p.srcFuncs {
		if pkgOf(g) != "client" {
			continue
		}
		for _, b := range g.Blocks {
			for _, ins := range b.Instrs {
				var pos token.Pos
				hit := false
				switch x := ins.(type) {
				case *ssa.Send:
					hit, pos = isTrafficChan(x.Chan), x.Pos()
				case *ssa.Select:
					for _, st := range x.States {
						if st.Dir == types.SendOnly && isTrafficChan(st.Chan) {
							hit, pos = true, st.Pos
						}
					}
					if !pos.IsValid() {
						pos = x.Pos()
					}
				}
				if !hit {
					continue
				}
				has, ok := decided(g, b, 0)
				if !has {
					continue
				}
				n++
				r.Ob(id, funcName(g), "traffic signalled under a known RPC outcome", pos, ok, true,
					ifs(ok, "the send on trafficSeen is only reached on an edge that tests the error of the call", "the send on trafficSeen is reached whatever the RPC returned: a call that timed out against a silent peer re-arms the inactivity probe, which then never declares the connection dead"))
			}
		}
	}
	if n < 1 {
		r.Anchor(id, "client: send on ovsdbClient.trafficSeen in a function that performs an RPC")
	}
}

// ---------------------------------------------------------------------------
// K-ATOMKEYS — the OvsMap decoder admits every kind of atom as a map key: the
// dynamic types encoding/json and ovsSliceToGoNotation can produce for an atom
// are string, float64, bool and UUID; for each of them some path leads from the
// key's definition to the store into GoMap when the comma-ok assertions / type
// switch arms on the key are decided for that dynamic type.

func ruleKATOMKEYS(p *Program, r *Reporter) {
	const id = "K-ATOMKEYS"
	fn := p.Fn("ovsdb", "OvsMap", "UnmarshalJSON")
	uuidT := p.LookupType("ovsdb", "UUID")
	if fn == nil || uuidT == nil {
		r.Anchor(id, "ovsdb.(*OvsMap).UnmarshalJSON / ovsdb.UUID")
		return
	}
	atoms := []struct {
		name string
		t    types.Type
	}{
		{"string", types.Typ[types.String]},
		{"float64", types.Typ[types.Float64]},
		{"bool", types.Typ[types.Bool]},
		{"UUID", uuidT},
	}
	region := p.PrivateRegion(fn)
	region[fn] = true
	n := 0
	for g := range region {
		// stores into a map[interface{}]interface{} keyed by an interface value
		stores := map[ssa.Value]map[*ssa.BasicBlock]bool{}
		var first = map[ssa.Value]token.Pos{}
		for _, b := range g.Blocks {
			for _, ins := range b.Instrs {
				mu, ok := ins.(*ssa.MapUpdate)
				if !ok {
					continue
				}
				mt, ok := mu.Map.Type().Underlying().(*types.Map)
				if !ok {
					continue
				}
				if _, isI := mt.Key().Underlying().(*types.Interface); !isI {
					continue
				}
				if _, isC := mu.Key.(*ssa.MakeInterface); isC {
					continue
				}
				if stores[mu.Key] == nil {
					stores[mu.Key] = map[*ssa.BasicBlock]bool{}
					first[mu.Key] = mu.Pos()
				}
				stores[mu.Key][b] = true
			}
		}
		for key, blocks := range stores {
			ki, ok := key.(ssa.Instruction)
			if !ok {
				continue
			}
			start := ki.Block()
			for _, a := range atoms {
				n++
				reach := typePathReach(start, blocks, key, a.t)
				r.Ob(id, funcName(g), a.name+" key admitted", first[key], reach, true,
					ifs(reach, "a key of dynamic type "+a.name+" can reach the store into the map", "a key of dynamic type "+a.name+" never reaches the store into the map: every path is cut by a failed type test, so a map column keyed by "+a.name+" atoms cannot be decoded although the encoder emits it"))
			}
		}
	}
	if n < 4 {
		r.Anchor(id, "(*OvsMap).UnmarshalJSON: store into the interface-keyed map")
	}
}

// typePathReach: is one of the target blocks reachable from `from` when every
// comma-ok type assertion on value v is decided for dynamic type dyn?
func typePathReach(from *ssa.BasicBlock, targets map[*ssa.BasicBlock]bool, v ssa.Value, dyn types.Type) bool {
	seen := map[*ssa.BasicBlock]bool{}
	work := []*ssa.BasicBlock{from}
	for len(work) > 0 {
		b := work[len(work)-1]
		work = work[:len(work)-1]
		if seen[b] {
			continue
		}
		seen[b] = true
		if targets[b] {
			return true
		}
		succs := b.Succs
		if len(b.Instrs) > 0 {
			if iff, ok := b.Instrs[len(b.Instrs)-1].(*ssa.If); ok && len(b.Succs) == 2 {
				c, truth := normFact(edgeFact{iff.Cond, true, b})
				if ex, ok := c.(*ssa.Extract); ok && ex.Index == 1 {
					if ta, ok := ex.Tuple.(*ssa.TypeAssert); ok && ta.CommaOk && ta.X == v {
						holds := false
						if it, isI := ta.AssertedType.Underlying().(*types.Interface); isI {
							holds = types.Implements(dyn, it)
						} else {
							holds = types.Identical(ta.AssertedType, dyn)
						}
						if holds == truth {
							succs = b.Succs[:1]
						} else {
							succs = b.Succs[1:]
						}
					}
				}
			}
		}
		work = append(work, succs...)
	}
	return false
}

// ---------------------------------------------------------------------------
// ERR-USE-CODEC — ERR-USE over the wire codec (package ovsdb) and the mapper: an
// error that is tested and found set is used or ends the function. The sites
// where today's tree deliberately goes on are listed with the reason.

var errUseCodecAllowed = map[string]string{
	"(*ovsdb.ColumnSchema).String|RefType":  "String() is a display helper without an error result",
	"(ovsdb.UUID).MarshalJSON|ValidateUUID": "the validation result chooses between the uuid and named-uuid notations; both are encoded",
	"(mapper.Mapper).NewRow|FieldByColumn":  "a model without a field for a column leaves that column out of the row (documented)",
}

func ruleERRUSECODEC(p *Program, r *Reporter) {
	const id = "ERR-USE-CODEC"
	want := map[string]bool{"ovsdb": true, "mapper": true}
	errT := types.Universe.Lookup("error").Type()
	discoverErrUse(p, want, func(fn *ssa.Function, ev ssa.Value, iff *ssa.If, used, returns bool) {
		// only functions that can report a failure are obliged to: a function (or the closure
		// of one) without an error result has nowhere to put it
		top := fn
		for top.Parent() != nil {
			top = top.Parent()
		}
		hasErr := false
		for _, g := range []*ssa.Function{fn, top} {
			res := g.Signature.Results()
			if res.Len() > 0 && types.Identical(res.At(res.Len()-1).Type(), errT) {
				hasErr = true
			}
		}
		if !hasErr {
			return
		}
		name := "error"
		switch x := ev.(type) {
		case *ssa.Call:
			if sc := x.Call.StaticCallee(); sc != nil {
				name = sc.Name()
			} else if x.Call.IsInvoke() {
				name = x.Call.Method.Name()
			}
		case *ssa.Extract:
			if c, ok := x.Tuple.(*ssa.Call); ok {
				if sc := c.Call.StaticCallee(); sc != nil {
					name = sc.Name()
				} else if c.Call.IsInvoke() {
					name = c.Call.Method.Name()
				}
			}
		}
		ok := used || returns
		why := "the failing branch uses the error or ends the function"
		if !ok {
			if reason, allowed := errUseCodecAllowed[funcName(fn)+"|"+name]; allowed {
				ok, why = true, "listed exception: "+reason
			}
		}
		pos := iff.Cond.Pos()
		if ex, isEx := iff.Cond.(*ssa.Extract); isEx && !pos.IsValid() {
			pos = ex.Tuple.Pos()
		}
		r.Ob(id, funcName(fn), "error of "+name, pos, ok, true,
			ifs(ok, why, "the error of "+name+" is tested but, when set, neither used nor followed by a return: a value that could not be decoded or converted is silently left out and the caller is told everything went well"))
	})
}

// ---------------------------------------------------------------------------
// R-WG — every goroutine the client starts that is told to stop through stopCh
// is accounted for in handlerShutdown: its body calls Done and an Add precedes
// the go statement. handleDisconnectNotification waits on that group before it
// reconnects; a handler outside the group (for instance the cache's event
// processor) can still be running when the next connection starts its own.

func ruleRWG(p *Program, r *Reporter) {
	const id = "R-WG"
	root := p.Fn("client", "ovsdbClient", "connect")
	stopFld := p.Field("client", "ovsdbClient", "stopCh")
	wgFld := p.Field("client", "ovsdbClient", "handlerShutdown")
	if root == nil || stopFld == nil || wgFld == nil {
		r.Anchor(id, "client.(*ovsdbClient).connect / stopCh / handlerShutdown")
		return
	}
	isFieldLoad := func(v ssa.Value, fld *types.Var) bool {
		for {
			ct, isCT := v.(*ssa.ChangeType)
			if !isCT {
				break
			}
			v = ct.X
		}
		ld, ok := v.(*ssa.UnOp)
		if !ok || ld.Op != token.MUL {
			return false
		}
		fa, ok := ld.X.(*ssa.FieldAddr)
		return ok && fieldOfAddr(fa) == fld
	}
	wgCall := func(ins ssa.Instruction, method string) bool {
		c, ok := ins.(ssa.CallInstruction)
		if !ok {
			return false
		}
		sc := c.Common().StaticCallee()
		if sc == nil || sc.Name() != method || sc.Pkg == nil || sc.Pkg.Pkg.Path() != "sync" {
			return false
		}
		return len(c.Common().Args) > 0 && isFieldLoad(c.Common().Args[0], wgFld)
	}
	// callClosure: f and what it reaches through calls (not through go statements) inside
	// package client, bound-method wrappers and function values included
	callClosure := func(roots ...*ssa.Function) []*ssa.Function {
		seen := map[*ssa.Function]bool{}
		var out, work []*ssa.Function
		for _, f := range roots {
			if f != nil && !seen[f] {
				seen[f] = true
				work = append(work, f)
			}
		}
		for len(work) > 0 {
			f := work[0]
			work = work[1:]
			out = append(out, f)
			for _, b := range f.Blocks {
				for _, ins := range b.Instrs {
					c, ok := ins.(ssa.CallInstruction)
					if !ok {
						continue
					}
					if _, isGo := ins.(*ssa.Go); isGo {
						continue
					}
					if c.Common().IsInvoke() {
						continue
					}
					fns, _ := p.Callees(c)
					for _, g := range fns {
						if g == nil || seen[g] || len(g.Blocks) == 0 {
							continue
						}
						if pk := pkgOf(g); pk != "client" && !(pk == "" && g.Synthetic != "") {
							continue
						}
						seen[g] = true
						work = append(work, g)
					}
				}
			}
		}
		return out
	}
	summar := func(targets []*ssa.Function) (readsStop, done, waits bool) {
		for _, g := range callClosure(targets...) {
			for _, b := range g.Blocks {
				for _, ins := range b.Instrs {
					if fa, ok := ins.(*ssa.FieldAddr); ok && fieldOfAddr(fa) == stopFld {
						readsStop = true
					}
					if wgCall(ins, "Done") {
						done = true
					}
					if wgCall(ins, "Wait") {
						waits = true
					}
				}
			}
		}
		return
	}
	n := 0
	for _, g := range callClosure(root) {
		for _, b := range g.Blocks {
			for i, ins := range b.Instrs {
				gi, ok := ins.(*ssa.Go)
				if !ok {
					continue
				}
				targets, _ := p.Callees(gi)
				var live []*ssa.Function
				for _, t := range targets {
					if t != nil && len(t.Blocks) > 0 {
						live = append(live, t)
					}
				}
				if len(live) == 0 {
					continue
				}
				target := live[0]
				readsStop, done, waits := summar(live)
				for _, a := range gi.Call.Args {
					if isFieldLoad(a, stopFld) {
						readsStop = true
					}
				}
				if mc, ok := gi.Call.Value.(*ssa.MakeClosure); ok {
					for _, bv := range mc.Bindings {
						if isFieldLoad(bv, stopFld) {
							readsStop = true
						}
					}
				}
				if waits || !readsStop {
					continue
				}
				n++
				// an Add on the group before the go statement, not consumed by an earlier go
				added := false
				for d, from := b, i-1; d != nil && !added; d, from = d.Idom(), -2 {
					instrs := d.Instrs
					if from == -2 {
						from = len(instrs) - 1
					}
					stop := false
					for j := from; j >= 0; j-- {
						if _, isGo := instrs[j].(*ssa.Go); isGo {
							stop = true
							break
						}
						if wgCall(instrs[j], "Add") {
							added = true
							break
						}
					}
					if stop {
						break
					}
				}
				ok2 := done && added
				why := "the goroutine calls handlerShutdown.Done and an Add precedes the go statement"
				switch {
				case !done:
					why = "this goroutine runs until stopCh is closed but never reports to handlerShutdown: handleDisconnectNotification reconnects while it may still be running, so two generations of handlers (for instance two event processors) overlap"
				case !added:
					why = "the goroutine calls handlerShutdown.Done but no Add precedes the go statement"
				}
				r.Ob(id, funcName(g), "go "+funcName(target)+" counted in handlerShutdown", gi.Pos(), ok2, true, why)
			}
		}
	}
	if n < 1 {
		r.Anchor(id, "connect: goroutines that watch stopCh")
	}
}

func isLoopHeader(b *ssa.BasicBlock) bool {
	for _, pr := range b.Preds {
		if b.Dominates(pr) {
			return true
		}
	}
	return false
}

// rangesOverTable: the loop with header h iterates over a package-level slice or
// array of functions that the package initialiser fills with at least one entry
// (the bound of the loop is len() of a load of that variable).
func rangesOverTable(p *Program, h *ssa.BasicBlock) bool {
	check := func(b *ssa.BasicBlock) bool {
		for _, ins := range b.Instrs {
			c, ok := ins.(*ssa.Call)
			if !ok {
				continue
			}
			bi, ok := c.Call.Value.(*ssa.Builtin)
			if !ok || bi.Name() != "len" || len(c.Call.Args) != 1 {
				continue
			}
			if ld, ok := c.Call.Args[0].(*ssa.UnOp); ok {
				if g, isG := ld.X.(*ssa.Global); isG && len(p.sliceTableFuncs(g)) > 0 {
					return true
				}
			}
		}
		return false
	}
	if check(h) {
		return true
	}
	for _, pr := range h.Preds {
		if !h.Dominates(pr) && check(pr) {
			return true
		}
	}
	return false
}

// ---------------------------------------------------------------------------
// flowsFrom: v is computed from a value satisfying base, followed through
// conversions, phis, local cells, results of repository functions (their
// return operands) and parameters (the arguments at every call site).
func flowsFrom(p *Program, v ssa.Value, base func(ssa.Value) bool, depth int, seen map[ssa.Value]bool) bool {
	if v == nil || depth > 10 || seen[v] {
		return false
	}
	seen[v] = true
	if base(v) {
		return true
	}
	switch x := v.(type) {
	case *ssa.Phi:
		for _, e := range x.Edges {
			if flowsFrom(p, e, base, depth+1, seen) {
				return true
			}
		}
	case *ssa.ChangeType:
		return flowsFrom(p, x.X, base, depth+1, seen)
	case *ssa.Convert:
		return flowsFrom(p, x.X, base, depth+1, seen)
	case *ssa.Slice:
		return flowsFrom(p, x.X, base, depth+1, seen)
	case *ssa.MakeInterface:
		return flowsFrom(p, x.X, base, depth+1, seen)
	case *ssa.UnOp:
		if al, ok := x.X.(*ssa.Alloc); ok {
			if refs := al.Referrers(); refs != nil {
				for _, rf := range *refs {
					if st, ok := rf.(*ssa.Store); ok && st.Addr == ssa.Value(al) && flowsFrom(p, st.Val, base, depth+1, seen) {
						return true
					}
				}
			}
			return false
		}
		return flowsFrom(p, x.X, base, depth+1, seen)
	case *ssa.Extract:
		if c, ok := x.Tuple.(*ssa.Call); ok {
			return resultFlowsFrom(p, c, x.Index, base, depth, seen)
		}
	case *ssa.Call:
		return resultFlowsFrom(p, x, 0, base, depth, seen)
	case *ssa.Parameter:
		g := x.Parent()
		idx := -1
		for i, q := range g.Params {
			if q == x {
				idx = i
			}
		}
		if idx < 0 {
			return false
		}
		for _, s := range p.CallSitesOf(g) {
			if c, ok := s.instr.(ssa.CallInstruction); ok && len(c.Common().Args) == len(g.Params) {
				if flowsFrom(p, c.Common().Args[idx], base, depth+1, seen) {
					return true
				}
			}
		}
	case *ssa.FreeVar:
		for _, bv := range freeVarBindings(x) {
			if flowsFrom(p, bv, base, depth+1, seen) {
				return true
			}
		}
	}
	return false
}

func resultFlowsFrom(p *Program, c *ssa.Call, idx int, base func(ssa.Value) bool, depth int, seen map[ssa.Value]bool) bool {
	fns, _ := p.Callees(c)
	for _, f := range fns {
		if f == nil || len(f.Blocks) == 0 || pkgOf(f) == "" {
			continue
		}
		for _, b := range f.Blocks {
			if ret, ok := b.Instrs[len(b.Instrs)-1].(*ssa.Return); ok && idx < len(ret.Results) {
				if flowsFrom(p, retValue(ret, idx), base, depth+1, seen) {
					return true
				}
			}
		}
	}
	return false
}

// monitorFilters: the methods of server.monitor that walk the row updates of a
// database update (the notification filters).
func monitorFilters(p *Program) []*ssa.Function {
	var out []*ssa.Function
	for _, fn := range p.srcFuncs {
		if pkgOf(fn) != "server" || fn.Parent() != nil || fn.Signature.Recv() == nil || !isNamed(fn.Signature.Recv().Type(), repoMod+"/server", "monitor") {
			continue
		}
		hit := false
		for _, g := range append([]*ssa.Function{fn}, fn.AnonFuncs...) {
			for _, b := range g.Blocks {
				for _, ins := range b.Instrs {
					if c, ok := ins.(*ssa.Call); ok && c.Call.IsInvoke() && c.Call.Method.Name() == "ForEachRowUpdate" {
						hit = true
					}
				}
			}
		}
		if hit {
			out = append(out, fn)
		}
	}
	return out
}

// ---------------------------------------------------------------------------
// S-ALLCOLS — RFC 7047 4.1.5: a monitor request that omits "columns" monitors
// all columns. Structural necessary condition: somewhere in what each
// notification filter reaches, a value that flows from MonitorRequest.Columns
// is tested for absence (compared with nil, or its length compared with a
// constant); a filter that only ever ranges over the listed columns projects
// every row of such a monitor on _uuid alone.

func ruleSALLCOLS(p *Program, r *Reporter) {
	const id = "S-ALLCOLS"
	colsFld := p.Field("ovsdb", "MonitorRequest", "Columns")
	filters := monitorFilters(p)
	if colsFld == nil || len(filters) == 0 {
		r.Anchor(id, "ovsdb.MonitorRequest.Columns / notification filters of server.monitor")
		return
	}
	base := func(v ssa.Value) bool {
		switch x := v.(type) {
		case *ssa.FieldAddr:
			return fieldOfAddr(x) == colsFld
		case *ssa.UnOp:
			if fa, ok := x.X.(*ssa.FieldAddr); ok {
				return fieldOfAddr(fa) == colsFld
			}
		case *ssa.Field:
			if st, ok := x.X.Type().Underlying().(*types.Struct); ok {
				return st.Field(x.Field) == colsFld
			}
		}
		return false
	}
	for _, fn := range filters {
		tested := false
		var pos token.Pos = fn.Pos()
		for _, g := range p.Reach(fn) {
			if pkgOf(g) != "server" {
				continue
			}
			for _, b := range g.Blocks {
				for _, ins := range b.Instrs {
					bo, ok := ins.(*ssa.BinOp)
					if !ok {
						continue
					}
					switch bo.Op {
					case token.EQL, token.NEQ, token.LSS, token.GTR, token.LEQ, token.GEQ:
					default:
						continue
					}
					for _, pair := range [][2]ssa.Value{{bo.X, bo.Y}, {bo.Y, bo.X}} {
						subj, other := pair[0], pair[1]
						k, isC := other.(*ssa.Const)
						if !isC {
							continue
						}
						if k.IsNil() {
							if _, isSlice := subj.Type().Underlying().(*types.Slice); isSlice && flowsFrom(p, subj, base, 0, map[ssa.Value]bool{}) {
								tested, pos = true, bo.Pos()
							}
							continue
						}
						if lx, isLen := lenOperand(subj); isLen {
							if _, isSlice := lx.Type().Underlying().(*types.Slice); isSlice && flowsFrom(p, lx, base, 0, map[ssa.Value]bool{}) {
								tested, pos = true, bo.Pos()
							}
						}
					}
				}
			}
		}
		r.Ob(id, funcName(fn), "omitted columns told apart from listed ones", pos, tested, true,
			ifs(tested, "the requested column list is tested for absence before the projection is set up", "nothing "+funcName(fn)+" reaches ever asks whether the request listed columns at all: a monitor registered without \"columns\" (all columns, RFC 7047 4.1.5) has its notifications projected on _uuid alone and a replica fed by them loses the contents of every row"))
	}
}

// ---------------------------------------------------------------------------
// S-NOEMPTY — a table is only added to a notification when at least one row
// update survived the filter: every store into a TableUpdates / TableUpdates2
// map in what the notification filters reach is entered under a branch fact on
// the length of the stored table update (Send* only test the number of tables).

func ruleSNOEMPTY(p *Program, r *Reporter) {
	const id = "S-NOEMPTY"
	filters := monitorFilters(p)
	if len(filters) == 0 {
		r.Anchor(id, "notification filters of server.monitor")
		return
	}
	n := 0
	seenFn := map[*ssa.Function]bool{}
	// every function of the package: the store may sit in the caller of a per-table helper
	for range filters[:1] {
		for _, g := range p.srcFuncs {
			if pkgOf(g) != "server" || seenFn[g] {
				continue
			}
			seenFn[g] = true
			// notifications are built by the methods of server.monitor (the monitor replies
			// built by the RPC handlers list every requested table, also an empty one)
			top := g
			for top.Parent() != nil {
				top = top.Parent()
			}
			if top.Signature.Recv() == nil || !isNamed(top.Signature.Recv().Type(), repoMod+"/server", "monitor") {
				continue
			}
			fc := newFlowCtx(g)
			for _, b := range g.Blocks {
				for _, ins := range b.Instrs {
					mu, ok := ins.(*ssa.MapUpdate)
					if !ok {
						continue
					}
					if !isNamed(mu.Map.Type(), repoMod+"/ovsdb", "TableUpdates") && !isNamed(mu.Map.Type(), repoMod+"/ovsdb", "TableUpdates2") {
						continue
					}
					n++
					guarded := false
					for _, f := range conjunctFacts(b) {
						c, _ := normFact(f)
						bo, ok := c.(*ssa.BinOp)
						if !ok {
							continue
						}
						for _, side := range []ssa.Value{bo.X, bo.Y} {
							if lx, isLen := lenOperand(side); isLen && fc.valEquiv(lx, mu.Value, bo, mu, 0) {
								guarded = true
							}
						}
					}
					r.Ob(id, funcName(g), "table added only when a row update survived", mu.Pos(), guarded, true,
						ifs(guarded, "the store is entered under a test of the table update's length", "the table update is stored whatever it holds: a transaction whose changes to this table are all of a kind the monitor did not select still produces a notification ({\"Table\":{}}), because Send/Send2/Send3 only count tables"))
				}
			}
		}
	}
	if n < 2 {
		r.Anchor(id, "stores into TableUpdates/TableUpdates2 in the notification filters")
	}
}

// ---------------------------------------------------------------------------
// ERR-NILRET — a function that reports failures through an error result does
// not report success on the branch where an error it just tested is set: the
// failing edge of an error test does not lead straight (without any other
// branch) to a return whose error result is the constant nil.

func errNilRetSites(p *Program, pkgs map[string]bool, report func(fn *ssa.Function, iff *ssa.If, ret *ssa.Return, name string)) {
	errT := types.Universe.Lookup("error").Type()
	discoverErrUse(p, pkgs, func(fn *ssa.Function, ev ssa.Value, iff *ssa.If, used, returns bool) {
		res := fn.Signature.Results()
		if res.Len() == 0 || !types.Identical(res.At(res.Len()-1).Type(), errT) {
			return
		}
		b := iff.Block()
		bo, ok := iff.Cond.(*ssa.BinOp)
		if !ok {
			return
		}
		bad := b.Succs[0]
		if bo.Op == token.EQL {
			bad = b.Succs[1]
		}
		// follow unconditional jumps
		for i := 0; i < 4; i++ {
			if len(bad.Instrs) == 1 {
				if _, isJ := bad.Instrs[0].(*ssa.Jump); isJ && len(bad.Succs) == 1 {
					bad = bad.Succs[0]
					continue
				}
			}
			break
		}
		ret, isRet := bad.Instrs[len(bad.Instrs)-1].(*ssa.Return)
		if !isRet || len(bad.Preds) != 1 && bad != b.Succs[0] && bad != b.Succs[1] {
			return
		}
		// a return block that does nothing with the error except, at most, logging it: the
		// error (or a value it was boxed or stored into) is handed to no call but a logging
		// call, is not stored away and is not sent
		tainted := map[ssa.Value]bool{ev: true}
		for _, ins := range bad.Instrs {
			switch x := ins.(type) {
			case *ssa.MakeInterface:
				if tainted[x.X] {
					tainted[x] = true
				}
			case *ssa.ChangeInterface:
				if tainted[x.X] {
					tainted[x] = true
				}
			case *ssa.Slice:
				if tainted[x.X] {
					tainted[x] = true
				}
			case *ssa.Store:
				if !tainted[x.Val] {
					continue
				}
				// boxed into a local array (the argument list of a variadic call)
				root := x.Addr
				if ia, ok := root.(*ssa.IndexAddr); ok {
					root = ia.X
				}
				if al, ok := root.(*ssa.Alloc); ok {
					tainted[al] = true
					continue
				}
				return
			case *ssa.MapUpdate:
				if tainted[x.Value] || tainted[x.Key] {
					return
				}
			case *ssa.Send:
				if tainted[x.X] {
					return
				}
			case *ssa.Call:
				uses := false
				for _, a := range x.Call.Args {
					if tainted[a] {
						uses = true
					}
				}
				if x.Call.IsInvoke() && tainted[x.Call.Value] {
					uses = true
				}
				if uses && !isLoggingCall(x) {
					return
				}
			case *ssa.Go, *ssa.Defer, *ssa.Panic:
				return
			}
		}
		rv := retValue(ret, len(ret.Results)-1)
		if k, isC := rv.(*ssa.Const); !isC || !k.IsNil() {
			// a named result that is never assigned reads as the zero value of its cell
			ld, isLd := rv.(*ssa.UnOp)
			if !isLd {
				return
			}
			al, isAl := ld.X.(*ssa.Alloc)
			if !isAl {
				return
			}
			stored := false
			if refs := al.Referrers(); refs != nil {
				for _, rf := range *refs {
					if st, ok := rf.(*ssa.Store); ok && st.Addr == ssa.Value(al) {
						stored = true
					}
				}
			}
			if stored {
				return
			}
		}
		name := "error"
		switch x := ev.(type) {
		case *ssa.Call:
			if sc := x.Call.StaticCallee(); sc != nil {
				name = sc.Name()
			}
		case *ssa.Extract:
			if c, ok := x.Tuple.(*ssa.Call); ok {
				if sc := c.Call.StaticCallee(); sc != nil {
					name = sc.Name()
				}
			}
		}
		report(fn, iff, ret, name)
	})
}

var errNilRetAllowed = map[string]string{
	"(*cache.RowCache).IndexExists|FieldByColumn": "a model without a _uuid field cannot be in any index: nothing to report (models are validated to have one when the database model is built)",
	"(*ovsdb.OvsMap).UnmarshalJSON|Unmarshal":     "lenient decoding kept as found: bytes that are not a JSON array decode to the empty map (reported by a seeding agent, DESIGN.md section 10; not reachable from Row decoding, which only hands arrays tagged \"map\" to this decoder)",
}

func ruleERRNILRET(p *Program, r *Reporter) {
	const id = "ERR-NILRET"
	all := map[string]bool{}
	for _, k := range analysedPkgs {
		if k != "cmd/modelgen" && k != "cmd/print_schema" && k != "cmd/stress" {
			all[k] = true
		}
	}
	// every tested error is an instance; the offending ones are reported by errNilRetSites
	bad := map[*ssa.If]string{}
	badRet := map[*ssa.If]*ssa.Return{}
	errNilRetSites(p, all, func(fn *ssa.Function, iff *ssa.If, ret *ssa.Return, name string) {
		bad[iff] = name
		badRet[iff] = ret
	})
	errT := types.Universe.Lookup("error").Type()
	discoverErrUse(p, all, func(fn *ssa.Function, ev ssa.Value, iff *ssa.If, used, returns bool) {
		res := fn.Signature.Results()
		if res.Len() == 0 || !types.Identical(res.At(res.Len()-1).Type(), errT) {
			return
		}
		name, isBad := bad[iff]
		ok, why := !isBad, "the failing branch does not return a nil error straight away"
		if isBad {
			if reason, allowed := errNilRetAllowed[funcName(fn)+"|"+name]; allowed {
				ok, why = true, "listed exception: "+reason
			} else {
				why = "the error of " + name + " is tested and, when set, the function returns a nil error at once (" + p.Pos(badRet[iff].Pos()) + "): the failure is reported to the caller as success"
			}
		} else {
			name = "a call"
		}
		pos := iff.Cond.Pos()
		if ex, isEx := iff.Cond.(*ssa.Extract); isEx && !pos.IsValid() {
			pos = ex.Tuple.Pos()
		}
		r.Ob(id, funcName(fn), "tested error not answered with a nil error", pos, ok, isBad, why)
	})
}

// ---------------------------------------------------------------------------
// V-RECV-PATH — once the event processor has taken an event from the channel
// it cannot leave before the next turn of its loop: from the arm of the select
// that received the event no return is reachable without going through the
// select again (a second look at the stop channel after the receive drops an
// event whose change is already in the cache).

func ruleVRECVPATH(p *Program, r *Reporter) {
	const id = "V-RECV-PATH"
	evCh := p.Field("cache", "eventProcessor", "events")
	if evCh == nil {
		r.Anchor(id, "cache.eventProcessor.events")
		return
	}
	n := 0
	for _, fn := range p.srcFuncs {
		if pkgOf(fn) != "cache" {
			continue
		}
		for _, b := range fn.Blocks {
			for _, ins := range b.Instrs {
				sel, ok := ins.(*ssa.Select)
				if !ok || loopHeaderOf(b) == nil {
					continue
				}
				for si, st := range sel.States {
					if st.Dir != types.RecvOnly || !loadOfField(st.Chan, evCh) {
						continue
					}
					// the arm taken when state si fired: true edge of `index == si`
					var arm *ssa.BasicBlock
					if refs := sel.Referrers(); refs != nil {
						for _, ref := range *refs {
							ex, ok := ref.(*ssa.Extract)
							if !ok || ex.Index != 0 {
								continue
							}
							if er := ex.Referrers(); er != nil {
								for _, u := range *er {
									bo, ok := u.(*ssa.BinOp)
									if !ok || bo.Op != token.EQL {
										continue
									}
									k, isC := constInt(bo.Y)
									if !isC || int(k) != si {
										continue
									}
									if br := bo.Referrers(); br != nil {
										for _, iu := range *br {
											if iff, ok := iu.(*ssa.If); ok {
												arm = iff.Block().Succs[0]
											}
										}
									}
								}
							}
						}
					}
					if arm == nil {
						if len(sel.States) == 1 && !sel.Blocking {
							continue
						}
						// a select with a single case has no index test: the arm is what follows
						if len(b.Succs) == 1 {
							arm = b.Succs[0]
						} else {
							continue
						}
					}
					n++
					// returns reachable from the arm without passing the select's block
					leaves := false
					var at token.Pos = sel.Pos()
					seen := map[*ssa.BasicBlock]bool{b: true}
					work := []*ssa.BasicBlock{arm}
					for len(work) > 0 {
						x := work[len(work)-1]
						work = work[:len(work)-1]
						if seen[x] {
							continue
						}
						seen[x] = true
						if ret, isRet := x.Instrs[len(x.Instrs)-1].(*ssa.Return); isRet {
							leaves, at = true, ret.Pos()
						}
						work = append(work, x.Succs...)
					}
					r.Ob(id, funcName(fn), "no exit between receiving an event and the next turn", at, !leaves, true,
						ifs(!leaves, "after an event has been received the loop always comes back to the select", "the function can return after it has taken an event from the channel and before the loop comes round again: that event's change is in the cache but the handlers never hear of it"))
				}
			}
		}
	}
	if n < 1 {
		r.Anchor(id, "select receiving from eventProcessor.events inside a loop")
	}
}

// ---------------------------------------------------------------------------
// M-STORE — a column value that the mapper has converted is stored into the
// model: in Mapper.getData and what it reaches, no path leads from a successful
// OvsToNative conversion to the next column (the loop header) or to a
// successful return without passing the SetField call.

func ruleMSTORE(p *Program, r *Reporter) {
	const id = "M-STORE"
	root := p.Fn("mapper", "Mapper", "getData")
	conv := p.Fn("ovsdb", "", "OvsToNative")
	if root == nil || conv == nil {
		r.Anchor(id, "mapper.Mapper.getData / ovsdb.OvsToNative")
		return
	}
	reach := map[*ssa.Function]bool{}
	for _, g := range p.Reach(root) {
		reach[g] = true
	}
	stores := func(g *ssa.Function) bool {
		for _, h := range p.Reach(g) {
			for _, b := range h.Blocks {
				for _, ins := range b.Instrs {
					if c, ok := ins.(*ssa.Call); ok {
						if sc := c.Call.StaticCallee(); sc != nil && sc.Name() == "SetField" && pkgOf(sc) == "mapper" {
							return true
						}
					}
				}
			}
		}
		return false
	}
	n := 0
	for g := range reach {
		for _, b := range g.Blocks {
			for _, ins := range b.Instrs {
				c, ok := ins.(*ssa.Call)
				if !ok || c.Call.StaticCallee() != conv {
					continue
				}
				n++
				storeBlocks := map[*ssa.BasicBlock]bool{}
				for _, sb := range g.Blocks {
					for _, si := range sb.Instrs {
						sc2, ok := si.(*ssa.Call)
						if !ok {
							continue
						}
						if callee := sc2.Call.StaticCallee(); callee != nil {
							if callee.Name() == "SetField" && pkgOf(callee) == "mapper" || reach[callee] && callee != g && stores(callee) {
								storeBlocks[sb] = true
							}
						}
					}
				}
				h := loopHeaderOf(b)
				skipped := false
				var at token.Pos = c.Pos()
				seen := map[*ssa.BasicBlock]bool{}
				work := append([]*ssa.BasicBlock{}, b.Succs...)
				if storeBlocks[b] {
					work = nil // converted and stored in one block
				}
				for len(work) > 0 {
					x := work[len(work)-1]
					work = work[:len(work)-1]
					if seen[x] || storeBlocks[x] {
						continue
					}
					seen[x] = true
					if h != nil && x == h {
						skipped = true
						continue
					}
					if ret, isRet := x.Instrs[len(x.Instrs)-1].(*ssa.Return); isRet {
						if len(ret.Results) == 0 {
							skipped, at = true, ret.Pos()
						} else if k, isC := retValue(ret, len(ret.Results)-1).(*ssa.Const); isC && k.IsNil() {
							skipped, at = true, ret.Pos()
						}
						continue
					}
					work = append(work, x.Succs...)
				}
				r.Ob(id, funcName(g), "converted column value is stored", at, !skipped, true,
					ifs(!skipped, "every path from the conversion goes through SetField or ends in an error", "a column value that was converted successfully can be dropped without SetField: the model keeps whatever the field held before (for a reused model, the previous row's value)"))
			}
		}
	}
	if n < 1 {
		r.Anchor(id, "getData: call to ovsdb.OvsToNative")
	}
}

// ---------------------------------------------------------------------------
// R-STARTLAST — connect starts its per-connection handler goroutines only when
// nothing can fail any more: no return with a non-nil error is reachable from a
// go statement (or from the call of a helper that contains one) in connect. A
// failed attempt that has already started handlers leaves them running while
// the retry starts a second generation.

func ruleRSTARTLAST(p *Program, r *Reporter) {
	const id = "R-STARTLAST"
	root := p.Fn("client", "ovsdbClient", "connect")
	stopFld := p.Field("client", "ovsdbClient", "stopCh")
	if root == nil || stopFld == nil {
		r.Anchor(id, "client.(*ovsdbClient).connect / stopCh")
		return
	}
	// functions called from connect (not started with go) that contain a go statement
	var hasGo func(g *ssa.Function, depth int, seen map[*ssa.Function]bool) bool
	hasGo = func(g *ssa.Function, depth int, seen map[*ssa.Function]bool) bool {
		if g == nil || seen[g] || depth > 3 || pkgOf(g) != "client" {
			return false
		}
		seen[g] = true
		for _, b := range g.Blocks {
			for _, ins := range b.Instrs {
				switch x := ins.(type) {
				case *ssa.Go:
					if tgt, _ := p.Callees(x); len(tgt) > 0 {
						for _, t := range tgt {
							if t != nil && pkgOf(t) == "client" && t.Name() != "handleDisconnectNotification" {
								return true
							}
						}
					}
					if _, isMC := x.Call.Value.(*ssa.MakeClosure); isMC {
						return true
					}
				case *ssa.Call:
					if sc := x.Call.StaticCallee(); sc != nil && sc != root && hasGo(sc, depth+1, seen) {
						return true
					}
				}
			}
		}
		return false
	}
	n := 0
	for _, b := range root.Blocks {
		for _, ins := range b.Instrs {
			starts := false
			switch x := ins.(type) {
			case *ssa.Go:
				tgt, _ := p.Callees(x)
				for _, t := range tgt {
					if t != nil && t.Name() == "handleDisconnectNotification" {
						starts = false
						goto next
					}
				}
				starts = true
			case *ssa.Call:
				if sc := x.Call.StaticCallee(); sc != nil && sc != root && pkgOf(sc) == "client" && sc.Name() != "tryEndpoint" && hasGo(sc, 0, map[*ssa.Function]bool{}) {
					starts = true
				}
			}
		next:
			if !starts {
				continue
			}
			n++
			bad := false
			var at token.Pos = ins.Pos()
			seen := map[*ssa.BasicBlock]bool{}
			work := []*ssa.BasicBlock{b}
			first := true
			for len(work) > 0 {
				x := work[len(work)-1]
				work = work[:len(work)-1]
				if seen[x] && !first {
					continue
				}
				first = false
				seen[x] = true
				if ret, isRet := x.Instrs[len(x.Instrs)-1].(*ssa.Return); isRet && len(ret.Results) > 0 {
					if k, isC := retValue(ret, len(ret.Results)-1).(*ssa.Const); !isC || !k.IsNil() {
						bad, at = true, ret.Pos()
					}
				}
				work = append(work, x.Succs...)
			}
			r.Ob(id, funcName(root), "handlers started after the last step that can fail", at, !bad, true,
				ifs(!bad, "no failing return can follow this start of a handler goroutine", "connect can still fail after it has started this handler goroutine: the attempt is retried with the old handlers still running (two event processors on one cache, a WaitGroup that never drains)"))
		}
	}
	if n < 1 {
		r.Anchor(id, "connect: start of the handler goroutines")
	}
}

// isLoggingCall: a call whose only effect is to print: package log, fmt.Print*/Fprint*,
// methods of logr.Logger / logr.LogSink, Error() of the error itself.
func isLoggingCall(c *ssa.Call) bool {
	if c.Call.IsInvoke() {
		if c.Call.Method.Name() == "Error" && c.Call.Method.Type().(*types.Signature).Params().Len() == 0 {
			return true
		}
		if pk := c.Call.Method.Pkg(); pk != nil && pk.Path() == "github.com/go-logr/logr" {
			return true
		}
		return false
	}
	sc := c.Call.StaticCallee()
	if sc == nil || sc.Pkg == nil {
		return false
	}
	switch sc.Pkg.Pkg.Path() {
	case "log", "github.com/go-logr/logr":
		return true
	case "fmt":
		n := sc.Name()
		return len(n) >= 5 && (n[:5] == "Print" || n[:5] == "Fprin" || n[:5] == "Sprin")
	}
	return false
}

// ---------------------------------------------------------------------------
// CH-CLOSE — a channel held in a struct field that some function sends on is
// never closed: the sender cannot know (a send on a closed channel panics, also
// inside a select with a default arm). Channels that are only received from
// (stop channels) may be closed.

func ruleCHCLOSE(p *Program, r *Reporter) {
	const id = "CH-CLOSE"
	chanField := func(v ssa.Value) *types.Var {
		for i := 0; i < 3; i++ {
			switch x := v.(type) {
			case *ssa.UnOp:
				if fa, ok := x.X.(*ssa.FieldAddr); ok {
					return fieldOfAddr(fa)
				}
				v = x.X
			case *ssa.ChangeType:
				v = x.X
			default:
				return nil
			}
		}
		return nil
	}
	sends := map[*types.Var]token.Pos{}
	type closeSite struct {
		fn  *ssa.Function
		ins ssa.Instruction
		fld *types.Var
	}
	var closes []closeSite
	for _, fn := range p.srcFuncs {
		if strings.HasPrefix(pkgOf(fn), "cmd/") {
			continue
		}
		for _, b := range fn.Blocks {
			for _, ins := range b.Instrs {
				switch x := ins.(type) {
				case *ssa.Send:
					if f := chanField(x.Chan); f != nil {
						sends[f] = x.Pos()
					}
				case *ssa.Select:
					for _, st := range x.States {
						if st.Dir == types.SendOnly {
							if f := chanField(st.Chan); f != nil {
								sends[f] = x.Pos()
							}
						}
					}
				case *ssa.Call:
					if bi, ok := x.Call.Value.(*ssa.Builtin); ok && bi.Name() == "close" && len(x.Call.Args) == 1 {
						if f := chanField(x.Call.Args[0]); f != nil {
							closes = append(closes, closeSite{fn, x, f})
						}
					}
				}
			}
		}
	}
	for _, c := range closes {
		pos, sent := sends[c.fld]
		r.Ob(id, funcName(c.fn), "close of "+lockClassName(c.fld), c.ins.Pos(), !sent, true,
			ifs(!sent, "nothing sends on this channel: closing it only wakes its receivers", "this channel is closed here while "+p.Pos(pos)+" sends on it: a send that races with the close panics with \"send on closed channel\""))
	}
	r.Count(id, 1) // the census of field channels is the obligation, also when nothing is closed
}

// ---------------------------------------------------------------------------
// V-JOIN — TableCache.Run does not return before the event processor has
// stopped: the processor's Run is called directly, or it is started with go and
// every return of TableCache.Run is dominated by a WaitGroup.Wait whose Done the
// goroutine calls. The client waits for TableCache.Run before it reconnects; if
// the dispatcher outlives it, two dispatchers drain one queue and events come
// out of order.

func ruleVJOIN(p *Program, r *Reporter) {
	const id = "V-JOIN"
	run := p.Fn("cache", "TableCache", "Run")
	epRun := p.Fn("cache", "eventProcessor", "Run")
	if run == nil || epRun == nil {
		r.Anchor(id, "cache.(*TableCache).Run / (*eventProcessor).Run")
		return
	}
	callsEpRun := func(g *ssa.Function) bool {
		for _, h := range p.Reach(g) {
			for _, b := range h.Blocks {
				for _, ins := range b.Instrs {
					if c, ok := ins.(ssa.CallInstruction); ok && c.Common().StaticCallee() == epRun {
						return true
					}
				}
			}
		}
		return false
	}
	isWG := func(ins ssa.Instruction, name string) bool {
		c, ok := ins.(ssa.CallInstruction)
		if !ok {
			return false
		}
		sc := c.Common().StaticCallee()
		return sc != nil && sc.Name() == name && sc.Pkg != nil && sc.Pkg.Pkg.Path() == "sync" && sc.Signature.Recv() != nil && isNamed(deref(sc.Signature.Recv().Type()), "sync", "WaitGroup")
	}
	// joined(f): f does not return before every event processor it runs has stopped
	var joined func(f *ssa.Function, depth int) (reaches bool, bad *ssa.Return)
	joined = func(f *ssa.Function, depth int) (bool, *ssa.Return) {
		direct, viaGo, goDone := false, false, false
		var waits []*ssa.BasicBlock
		var badHelper *ssa.Return
		for _, b := range f.Blocks {
			for _, ins := range b.Instrs {
				switch x := ins.(type) {
				case *ssa.Call:
					if isWG(x, "Wait") {
						waits = append(waits, b)
						continue
					}
					if x.Call.StaticCallee() == epRun {
						direct = true
						continue
					}
					if fns, _ := p.Callees(x); len(fns) > 0 && depth < 3 {
						for _, h := range fns {
							if h == nil || h == f || len(h.Blocks) == 0 {
								continue
							}
							if h == epRun {
								direct = true
								continue
							}
							if pkgOf(h) != "cache" && !(pkgOf(h) == "" && h.Synthetic != "") {
								continue
							}
							if r2, bad := joined(h, depth+1); r2 {
								direct = true
								if bad != nil {
									badHelper = bad
								}
							}
						}
					}
				case *ssa.Go:
					fns, _ := p.Callees(x)
					for _, h := range fns {
						if h != nil && (h == epRun || callsEpRun(h)) {
							viaGo = true
							for _, hh := range p.Reach(h) {
								for _, hb := range hh.Blocks {
									for _, hi := range hb.Instrs {
										if isWG(hi, "Done") {
											goDone = true
										}
									}
								}
							}
						}
					}
				}
			}
		}
		if !direct && !viaGo {
			return false, nil
		}
		if badHelper != nil {
			return true, badHelper
		}
		if viaGo {
			for _, b := range f.Blocks {
				ret, ok := b.Instrs[len(b.Instrs)-1].(*ssa.Return)
				if !ok || isRecoverBlock(b) {
					continue
				}
				j := false
				for _, w := range waits {
					if w == b || w.Dominates(b) {
						j = true
					}
				}
				if !j || !goDone {
					return true, ret
				}
			}
		}
		return true, nil
	}
	reaches, bad := joined(run, 0)
	if !reaches {
		r.Anchor(id, "TableCache.Run does not reach eventProcessor.Run")
		return
	}
	pos := run.Pos()
	if bad != nil {
		pos = bad.Pos()
	}
	r.Ob(id, funcName(run), "returns only after the event processor stopped", pos, bad == nil, true,
		ifs(bad == nil, "the processor runs in this goroutine, or its goroutine is waited for before returning", "TableCache.Run can return while the event processor it started is still running: the client reconnects and starts a second one on the same queue, and handlers see events out of order"))
}

// ---------------------------------------------------------------------------
// P-NIL-LOOKUP — in the client's notification handlers (and what they reach in
// package client) a pointer read out of a map is only dereferenced where it is
// known to be there: the comma-ok of that lookup is true, or a nil test
// dominates. The map is keyed by what the server sends (monitor ids).

func rulePNILLOOKUP(p *Program, r *Reporter) {
	const id = "P-NIL-LOOKUP"
	var roots []*ssa.Function
	for _, reg := range rpcRegistrations(p, "client", "Client") {
		if reg.target != nil {
			if f := p.SSAFunc(reg.target); f != nil {
				roots = append(roots, f)
			}
		}
	}
	if len(roots) < 3 {
		r.Anchor(id, "client notification handlers")
		return
	}
	n := 0
	for _, fn := range p.Reach(roots...) {
		if pkgOf(fn) != "client" {
			continue
		}
		fc := newFlowCtx(fn)
		derefSites(fn, func(v ssa.Value) string {
			var lk *ssa.Lookup
			switch x := v.(type) {
			case *ssa.Lookup:
				lk = x
			case *ssa.Extract:
				if x.Index == 0 {
					lk, _ = x.Tuple.(*ssa.Lookup)
				}
			}
			if lk == nil {
				return ""
			}
			mt, ok := lk.X.Type().Underlying().(*types.Map)
			if !ok {
				return ""
			}
			if _, isPtr := mt.Elem().Underlying().(*types.Pointer); !isPtr {
				return ""
			}
			return "map element " + types.TypeString(mt.Elem(), func(*types.Package) string { return "" })
		}, func(at ssa.Instruction, ptr ssa.Value, label string) {
			n++
			ok, why := fc.nonNilAt(ptr, at)
			if !ok {
				if ex, isEx := ptr.(*ssa.Extract); isEx {
					for _, f := range conjunctFacts(at.Block()) {
						c, truth := normFact(f)
						if e1, isE := c.(*ssa.Extract); isE && truth && e1.Index == 1 && e1.Tuple == ex.Tuple {
							ok, why = true, "the comma-ok of the lookup is true here"
						}
					}
				}
			}
			if !ok {
				why = "a " + label + " read out of a map keyed by what the peer sent is dereferenced without a presence or nil test: a notification that names an unknown entry crashes the client"
			}
			r.Ob(id, funcName(fn), "deref "+label, at.Pos(), ok, true, why)
		})
	}
	r.Count(id, 1)
}

// ---------------------------------------------------------------------------
// L-ORDER — no two lock classes are taken in both orders: if somewhere B is
// acquired while A may be held (by the function or any caller) and somewhere
// else A is acquired while B may be held, two goroutines can block each other.
// Two shared acquisitions of the same pair do not count.

type lockEdge struct {
	from, to lockKey
	fn       *ssa.Function
	pos      token.Pos
	how      string
}

func lockOrderEdges(p *Program, pkgs map[string]bool) []lockEdge {
	la := getLockAnalysis(p)
	var out []lockEdge
	for _, fn := range p.srcFuncs {
		if !pkgs[pkgOf(fn)] {
			continue
		}
		for _, b := range fn.Blocks {
			for _, ins := range b.Instrs {
				c, ok := ins.(*ssa.Call)
				if !ok {
					continue
				}
				op, isLock, cls := lockOpOf(c.Common())
				if !isLock || !cls || !op.acquire {
					continue
				}
				for _, h := range la.heldWithCallers(fn, c, map[*ssa.Function]bool{}, 0) {
					if h.k.field == op.key.field {
						continue
					}
					// a lock whose release is deferred inside a loop of this function stays held
					// into the next turn: there it belongs to another object of the same class
					// (the locks of each database in turn), which a class-level order cannot judge
					if h.loopDeferred || la.loopDeferredThroughWrapper(fn, h.k, 0) {
						continue
					}
					out = append(out, lockEdge{h.k, op.key, fn, c.Pos(), h.how})
				}
			}
		}
	}
	return out
}

func ruleLORDER(p *Program, r *Reporter) {
	const id = "L-ORDER"
	pkgs := map[string]bool{"client": true, "cache": true, "server": true, "database/inmemory": true}
	edges := lockOrderEdges(p, pkgs)
	type pair struct{ a, b *types.Var }
	fwd := map[pair][]lockEdge{}
	for _, e := range edges {
		fwd[pair{e.from.field, e.to.field}] = append(fwd[pair{e.from.field, e.to.field}], e)
	}
	var keys []pair
	for k := range fwd {
		keys = append(keys, k)
	}
	sort.Slice(keys, func(i, j int) bool {
		if lockClassName(keys[i].a) != lockClassName(keys[j].a) {
			return lockClassName(keys[i].a) < lockClassName(keys[j].a)
		}
		return lockClassName(keys[i].b) < lockClassName(keys[j].b)
	})
	for _, k := range keys {
		rev := fwd[pair{k.b, k.a}]
		e := fwd[k][0]
		bad := ""
		for _, f := range fwd[k] {
			for _, g := range rev {
				// a cycle needs an exclusive acquisition on each side: A held (any mode) then
				// B wanted, while B held then A wanted - harmless only if all four are shared
				if f.from.mode == 'R' && f.to.mode == 'R' && g.from.mode == 'R' && g.to.mode == 'R' {
					continue
				}
				bad = fmt.Sprintf("%s is acquired while %s may be held (%s at %s), and %s while %s may be held (%s at %s)", f.to, f.from, funcName(f.fn), p.Pos(f.pos), g.to, g.from, funcName(g.fn), p.Pos(g.pos))
				e = f
			}
		}
		r.Ob(id, funcName(e.fn), "order "+lockClassName(k.a)+" -> "+lockClassName(k.b), e.pos, bad == "", true,
			ifs(bad == "", "these two locks are only ever taken in this order", "lock order cycle: "+bad+": two goroutines can block each other for ever"))
	}
	r.Count(id, 1)
}

// loopDeferredThroughWrapper: fn defers the release of k inside a loop, or fn is an
// acquire wrapper for k (returns holding it) and every caller does.
func (la *lockAnalysis) loopDeferredThroughWrapper(fn *ssa.Function, k lockKey, depth int) bool {
	if la.deferredUnlockInLoop(fn, k.field) {
		return true
	}
	if depth > 3 || la.summaries[fn][k] <= 0 {
		return false
	}
	sites := getCallIndex(la.p).sites[fn]
	if len(sites) == 0 {
		return false
	}
	for _, s := range sites {
		if !la.loopDeferredThroughWrapper(s.caller, k, depth+1) {
			return false
		}
	}
	return true
}

func (la *lockAnalysis) deferredUnlockInLoop(fn *ssa.Function, lock *types.Var) bool {
	for _, b := range fn.Blocks {
		if loopHeaderOf(b) == nil {
			continue
		}
		for _, ins := range b.Instrs {
			d, ok := ins.(*ssa.Defer)
			if !ok {
				continue
			}
			if op, isLock, cls := lockOpOf(d.Common()); isLock && cls && !op.acquire && op.key.field == lock {
				return true
			}
			// a deferred release helper (defer unlock(), unlock returned by a lock helper)
			for k, d := range la.calleeSummary(d.Common()) {
				if k.field == lock && d < 0 {
					return true
				}
			}
		}
	}
	return false
}

// ---------------------------------------------------------------------------
// K-JSONQUOTE: the wire encoders never quote a string with Go syntax.
//
// strconv.Quote / AppendQuote and the %q verb write Go string literals: control
// characters become \x1b, \a, \v and non-printable runes \U000e0001, none of
// which is JSON. A hand-written fast path in a MarshalJSON method that uses
// them produces text the peer (and this library's own decoder) rejects for
// some strings only. One obligation per MarshalJSON method of package ovsdb,
// over everything it reaches inside the package.

func ruleKJSONQUOTE(p *Program, r *Reporter) {
	const id = "K-JSONQUOTE"
	goQuote := func(c ssa.CallInstruction) string {
		sc := c.Common().StaticCallee()
		if sc == nil || sc.Pkg == nil {
			return ""
		}
		switch sc.Pkg.Pkg.Path() {
		case "strconv":
			if strings.HasPrefix(sc.Name(), "Quote") || strings.HasPrefix(sc.Name(), "AppendQuote") {
				return "strconv." + sc.Name()
			}
		case "fmt":
			if sc.Name() == "Errorf" {
				return "" // an error message, not wire output
			}
			for _, a := range c.Common().Args {
				if k, ok := a.(*ssa.Const); ok && k.Value != nil && k.Value.Kind() == constant.String {
					f := constant.StringVal(k.Value)
					for i := 0; i+1 < len(f); i++ {
						if f[i] != '%' {
							continue
						}
						j := i + 1
						for j < len(f) && strings.ContainsRune("+-# 0123456789.*[]", rune(f[j])) {
							j++
						}
						if j < len(f) && f[j] == 'q' {
							return "fmt." + sc.Name() + " with %q"
						}
						i = j
					}
				}
			}
		}
		return ""
	}
	n := 0
	for _, fn := range p.srcFuncs {
		if pkgOf(fn) != "ovsdb" || fn.Name() != "MarshalJSON" || fn.Signature.Recv() == nil || fn.Parent() != nil {
			continue
		}
		n++
		bad, pos := "", fn.Pos()
		for _, g := range p.Reach(fn) {
			for _, b := range g.Blocks {
				for _, ins := range b.Instrs {
					if c, ok := ins.(ssa.CallInstruction); ok && bad == "" {
						if q := goQuote(c); q != "" {
							bad, pos = q+" in "+funcName(g), ins.Pos()
						}
					}
				}
			}
		}
		r.Ob(id, funcName(fn), "no Go-syntax quoting", pos, bad == "", true,
			ifs(bad == "", "strings reach the wire through encoding/json only", "the encoder quotes a string with "+bad+": Go escapes (\\x1b, \\a, \\v, \\U…) are not JSON, so a row holding such a string cannot be sent or read back"))
	}
	r.Count(id, 0)
	_ = n
}

// ---------------------------------------------------------------------------
// S-CONNFLAG: the client never reports being connected without a connection.
//
// Invariant (at every release of rpcMutex): rpcClient == nil  =>  !connected.
// Every statement that stores nil into ovsdbClient.rpcClient is therefore paired,
// in the same straight-line piece of code (the same basic block, so under the
// same hold of rpcMutex), with a store of false into ovsdbClient.connected.
// A helper that only resets rpcClient is accepted when all its call sites are
// in the connect path (connect and the private functions it reaches) and none
// of them can run after connect() has stored true into connected: connect is
// entered with rpcClient == nil, hence with connected == false.
// Conversely `connected = true` is only stored by connect.

func ruleSCONNFLAG(p *Program, r *Reporter) {
	const id = "S-CONNFLAG"
	rpc := p.Field("client", "ovsdbClient", "rpcClient")
	conn := p.Field("client", "ovsdbClient", "connected")
	connect := p.Fn("client", "ovsdbClient", "connect")
	if rpc == nil || conn == nil || connect == nil {
		r.Anchor(id, "client.ovsdbClient.rpcClient / connected / connect")
		return
	}
	storeOf := func(ins ssa.Instruction, f *types.Var) (ssa.Value, bool) {
		st, ok := ins.(*ssa.Store)
		if !ok {
			return nil, false
		}
		fa, ok := st.Addr.(*ssa.FieldAddr)
		if !ok || fieldOfAddr(fa) != f {
			return nil, false
		}
		return st.Val, true
	}
	isBool := func(v ssa.Value, want bool) bool {
		c, ok := v.(*ssa.Const)
		return ok && c.Value != nil && c.Value.Kind() == constant.Bool && constant.BoolVal(c.Value) == want
	}
	connectRegion := map[*ssa.Function]bool{}
	for _, g := range p.Reach(connect) {
		connectRegion[g] = true
	}
	// blocks of connect() that can run after `connected = true`
	var trueStores []*ssa.BasicBlock
	n, nTrue, nNil := 0, 0, 0
	for _, fn := range p.srcFuncs {
		if pkgOf(fn) != "client" {
			continue
		}
		for _, b := range fn.Blocks {
			for _, ins := range b.Instrs {
				if v, ok := storeOf(ins, conn); ok && isBool(v, true) {
					n++
					nTrue++
					okT := fn == connect
					if okT {
						trueStores = append(trueStores, b)
					} else if sites := p.CallSitesOf(fn); len(sites) > 0 && fn.Parent() == nil && !isExportedEntry(fn) {
						// a private helper ("markConnected") called by connect() only
						okT = true
						for _, s := range sites {
							if _, plain := s.instr.(*ssa.Call); !plain || s.caller != connect {
								okT = false
							}
						}
						if okT {
							for _, s := range sites {
								trueStores = append(trueStores, s.instr.Block())
							}
						}
					}
					r.Ob(id, funcName(fn), "connected = true", ins.Pos(), okT, true,
						ifs(okT, "only connect() reports the client connected, as its last step", funcName(fn)+" sets connected outside connect(): the client can report being connected before its monitors are re-established"))
				}
			}
		}
	}
	for _, fn := range p.srcFuncs {
		if pkgOf(fn) != "client" {
			continue
		}
		for _, b := range fn.Blocks {
			for _, ins := range b.Instrs {
				v, ok := storeOf(ins, rpc)
				if !ok || !isNilConst(v) {
					continue
				}
				n++
				nNil++
				paired := false
				for _, i2 := range b.Instrs {
					if v2, ok := storeOf(i2, conn); ok && isBool(v2, false) {
						paired = true
					}
				}
				if paired {
					r.Ob(id, funcName(fn), "rpcClient = nil", ins.Pos(), true, true, "connected is cleared in the same piece of straight-line code")
					continue
				}
				// a reset helper of the connect path
				sites := p.CallSitesOf(fn)
				okH, why := len(sites) > 0 && fn.Parent() == nil && !isExportedEntry(fn), ""
				if !okH {
					why = "the connection is dropped without clearing connected: Connected() keeps answering true while the client has no connection"
				}
				for _, s := range sites {
					if !okH {
						break
					}
					if _, plain := s.instr.(*ssa.Call); !plain {
						okH, why = false, funcName(fn)+" drops the connection without clearing connected and runs on its own goroutine or deferred ("+p.Pos(s.instr.Pos())+"): Connected() keeps answering true while the client has no connection"
						break
					}
					// the caller clears connected next to the call
					pairedAtSite := false
					for _, i2 := range s.instr.Block().Instrs {
						if v2, ok := storeOf(i2, conn); ok && isBool(v2, false) {
							pairedAtSite = true
						}
					}
					if pairedAtSite {
						continue
					}
					if !connectRegion[s.caller] {
						okH, why = false, funcName(fn)+" drops the connection without clearing connected and is called from "+funcName(s.caller)+", outside the connect path"
						break
					}
					if s.caller == connect {
						for _, tb := range trueStores {
							if tb == s.instr.Block() || newFlowCtx(connect).blockReach(tb, s.instr.Block()) {
								okH, why = false, "connect() can drop the connection after it has set connected = true"
							}
						}
					}
				}
				r.Ob(id, funcName(fn), "rpcClient = nil", ins.Pos(), okH, true,
					ifs(okH, "reset helper called only on the failure paths of connect(), which is entered with rpcClient == nil and so with connected == false, and sets connected = true as its last step", why))
			}
		}
	}
	if nTrue < 1 || nNil < 1 {
		r.Anchor(id, fmt.Sprintf("%d stores of rpcClient = nil and %d of connected = true, expected at least one of each", nNil, nTrue))
	}
}

// ---------------------------------------------------------------------------
// S-KEEPKIND: projecting a row on the monitored columns never turns a row into
// "no row".
//
// In a row update the presence of old / new / insert / modify is the kind of the
// change (a notification with none of them reads as a delete on the client). A
// helper of the notification filters that maps *ovsdb.Row to *ovsdb.Row may
// therefore return nil only where its argument is nil. Decided on every such
// helper the filters of server.monitor reach inside package server; when the
// projection is written inline there is no helper and nothing to decide.

func ruleSKEEPKIND(p *Program, r *Reporter) {
	const id = "S-KEEPKIND"
	filters := monitorFilters(p)
	rowT := p.LookupType("ovsdb", "Row")
	if len(filters) == 0 || rowT == nil {
		r.Anchor(id, "notification filters of server.monitor / ovsdb.Row")
		return
	}
	isRowPtr := func(t types.Type) bool {
		pt, ok := t.(*types.Pointer)
		return ok && types.Identical(pt.Elem(), rowT)
	}
	seen := map[*ssa.Function]bool{}
	n := 0
	for _, f := range filters {
		for _, g := range p.Reach(f) {
			if seen[g] || pkgOf(g) != "server" || g.Signature.Results().Len() != 1 || !isRowPtr(g.Signature.Results().At(0).Type()) {
				continue
			}
			seen[g] = true
			var rowParams []*ssa.Parameter
			for _, prm := range g.Params {
				if isRowPtr(prm.Type()) {
					rowParams = append(rowParams, prm)
				}
			}
			if len(rowParams) == 0 {
				continue
			}
			for _, b := range g.Blocks {
				ret, ok := b.Instrs[len(b.Instrs)-1].(*ssa.Return)
				if !ok || isRecoverBlock(b) || len(ret.Results) != 1 {
					continue
				}
				n++
				v := retValue(ret, 0)
				if !isNilConst(v) {
					r.Ob(id, funcName(g), "returns a row", retPos(ret, g), true, false, "not the nil constant")
					continue
				}
				okN := false
				for _, ft := range factsAt(b) {
					cond, truth := normFact(ft)
					bo, isBin := cond.(*ssa.BinOp)
					if !isBin || (bo.Op != token.EQL && bo.Op != token.NEQ) || (bo.Op == token.EQL) != truth {
						continue
					}
					for _, prm := range rowParams {
						if (bo.X == ssa.Value(prm) && isNilConst(bo.Y)) || (bo.Y == ssa.Value(prm) && isNilConst(bo.X)) {
							okN = true
						}
					}
				}
				r.Ob(id, funcName(g), "returns nil", retPos(ret, g), okN, true,
					ifs(okN, "nil is returned for a nil row only", "the projection returns nil for a row that exists: the row update loses its old/new/insert/modify member and reads as a different kind of change (an update2 with neither insert nor modify is a delete on the client)"))
			}
		}
	}
	r.Count(id, 0)
	if n == 0 {
		r.Info("S-KEEPKIND: the notification filters reach no *ovsdb.Row -> *ovsdb.Row helper in package server (projection written inline): nothing to decide")
	}
}

// ---------------------------------------------------------------------------
// P-IDX-RPC: no request can crash the built-in server by being too short.
//
// The rpc2 handlers of server.OvsdbServer receive the positional parameters of a
// request as a slice whose length the peer chooses. Every index (or constant
// slice bound) on that slice, in the handler or in a private helper it hands the
// slice to, needs a dominating test that implies the length (the same oracle as
// P-IDX on the decoders). rpc2 runs handlers without recover: an index out of
// range takes the whole process down.

func rulePIDXRPC(p *Program, r *Reporter) {
	const id = "P-IDX-RPC"
	srv := p.LookupType("server", "OvsdbServer")
	if srv == nil {
		r.Anchor(id, "server.OvsdbServer")
		return
	}
	isHandler := func(fn *ssa.Function) bool {
		if fn.Parent() != nil || pkgOf(fn) != "server" || fn.Signature.Recv() == nil || len(fn.Params) != 4 {
			return false
		}
		if !isNamed(deref(fn.Params[1].Type()), "github.com/cenkalti/rpc2", "Client") {
			return false
		}
		_, isSlice := fn.Params[2].Type().Underlying().(*types.Slice)
		return isSlice && fn.Object() != nil && fn.Object().Exported()
	}
	handlers := 0
	var visit func(fn *ssa.Function, args ssa.Value, seen map[*ssa.Function]bool)
	visit = func(fn *ssa.Function, args ssa.Value, seen map[*ssa.Function]bool) {
		if seen[fn] {
			return
		}
		seen[fn] = true
		fc := newFlowCtx(fn)
		// the list under another type (params(args)) is the same list
		alias := map[ssa.Value]bool{args: true}
		for changed := true; changed; {
			changed = false
			for _, b := range fn.Blocks {
				for _, ins := range b.Instrs {
					var src ssa.Value
					switch x := ins.(type) {
					case *ssa.ChangeType:
						src = x.X
					case *ssa.Convert:
						src = x.X
					}
					if v, isV := ins.(ssa.Value); isV && src != nil && alias[src] && !alias[v] {
						if _, isSlice := v.Type().Underlying().(*types.Slice); isSlice {
							alias[v] = true
							changed = true
						}
					}
				}
			}
		}
		for _, b := range fn.Blocks {
			for _, ins := range b.Instrs {
				switch x := ins.(type) {
				case *ssa.IndexAddr:
					if alias[x.X] {
						ok, _, why := checkIndex(fc, x.X, x.Index, x)
						if k, isC := constInt(x.Index); !ok && isC {
							if ok2, why2 := lenCheckedByHelper(alias, k+1, x); ok2 {
								ok, why = true, why2
							}
						}
						r.Ob(id, funcName(fn), "request parameter "+opndStr(x), x.Pos(), ok, true,
							ifs(ok, why, "the request's parameter list is indexed without a test of its length: a request with fewer parameters panics in the handler, and rpc2 does not recover ("+why+")"))
					}
				case *ssa.Slice:
					if alias[x.X] {
						var need int64
						for _, bnd := range []ssa.Value{x.Low, x.High, x.Max} {
							if k, isC := constInt(bnd); bnd != nil && isC && k > need {
								need = k
							}
						}
						if need > 0 {
							ok, why := fc.lenAtLeast(x.X, need, x)
							r.Ob(id, funcName(fn), "request parameters sliced", x.Pos(), ok, true,
								ifs(ok, why, fmt.Sprintf("the request's parameter list is sliced at %d without a test of its length", need)))
						}
					}
				case *ssa.Call:
					// handed on to a private helper, or the receiver of a method of its own type
					g := x.Call.StaticCallee()
					if g == nil || g.Blocks == nil || pkgOf(g) != "server" || x.Call.IsInvoke() {
						continue
					}
					for i, a := range x.Call.Args {
						if alias[a] && i < len(g.Params) {
							visit(g, g.Params[i], seen)
						}
					}
				}
			}
		}
	}
	for _, fn := range p.srcFuncs {
		if !isHandler(fn) {
			continue
		}
		handlers++
		r.Ob(id, funcName(fn), "handler examined", fn.Pos(), true, false, "every use of the request's parameter list in this handler and the helpers it is handed to is looked at")
		visit(fn, fn.Params[2], map[*ssa.Function]bool{})
	}
	if handlers < 5 {
		r.Anchor(id, fmt.Sprintf("%d rpc2 handlers found on server.OvsdbServer, expected >= 5", handlers))
	}
	_ = srv
}

// ---------------------------------------------------------------------------
// P-POLL: every polling loop on the transact path ends, whatever optional
// members the request carries.
//
// The server executes a transaction under its transaction lock, so nothing a
// polling loop waits for can change while it polls: a loop that sleeps and
// retries must have an exit that only depends on elapsed time, and that exit
// must be reachable for every configuration of the operation's optional
// members. Structural form, for each loop in the functions reachable from
// OvsdbServer.Transact that calls time.Sleep: there is an exit edge whose branch
// condition derives from time.Since/Now/Sub/After/Before; and each nil test of
// a pointer that guards it on its non-nil side (the timeout is given) leaves
// the loop on its nil side.

func rulePPOLL(p *Program, r *Reporter) {
	const id = "P-POLL"
	isTimeCall := func(v ssa.Value) bool {
		c, ok := v.(*ssa.Call)
		if !ok {
			return false
		}
		sc := c.Call.StaticCallee()
		if sc == nil || sc.Pkg == nil || sc.Pkg.Pkg.Path() != "time" {
			return false
		}
		switch sc.Name() {
		case "Since", "Now", "Sub", "After", "Before", "Until":
			return true
		}
		return false
	}
	var fromTime func(v ssa.Value, depth int) bool
	fromTime = func(v ssa.Value, depth int) bool {
		if v == nil || depth > 5 {
			return false
		}
		if isTimeCall(v) {
			return true
		}
		switch x := v.(type) {
		case *ssa.BinOp:
			return fromTime(x.X, depth+1) || fromTime(x.Y, depth+1)
		case *ssa.UnOp:
			return fromTime(x.X, depth+1)
		case *ssa.Convert:
			return fromTime(x.X, depth+1)
		case *ssa.ChangeType:
			return fromTime(x.X, depth+1)
		case *ssa.Call:
			for _, a := range x.Call.Args {
				if fromTime(a, depth+1) {
					return true
				}
			}
		}
		return false
	}
	n := 0
	for _, fn := range txnScope(p) {
		for _, h := range fn.Blocks {
			isHeader := false
			for _, pr := range h.Preds {
				if h.Dominates(pr) {
					isHeader = true
				}
			}
			if !isHeader {
				continue
			}
			var sleepAt ssa.Instruction
			for _, b := range fn.Blocks {
				if b != h && !inLoopOf(h, b) {
					continue
				}
				for _, ins := range b.Instrs {
					if c, ok := ins.(*ssa.Call); ok {
						if sc := c.Call.StaticCallee(); sc != nil && sc.String() == "time.Sleep" {
							sleepAt = c
						}
					}
				}
			}
			if sleepAt == nil {
				continue
			}
			n++
			inLoop := func(b *ssa.BasicBlock) bool { return b == h || inLoopOf(h, b) }
			ok, why := false, "the loop sleeps and retries but no exit depends on elapsed time only: under the transaction lock nothing it waits for can change, so it never ends and the server stops answering"
			for _, b := range fn.Blocks {
				if !inLoop(b) {
					continue
				}
				iff, isIf := b.Instrs[len(b.Instrs)-1].(*ssa.If)
				if !isIf || !fromTime(iff.Cond, 0) {
					continue
				}
				exits := false
				for _, s := range b.Succs {
					if !inLoop(s) {
						exits = true
					}
				}
				if !exits {
					continue
				}
				// nil tests guarding this exit on their non-nil side; a subject whose nil
				// side leaves the loop at one of them is known to be given from there on
				guarded := ""
				given := map[ssa.Value]bool{}
				for d := b.Idom(); d != nil && inLoop(d); d = d.Idom() {
					if dif, isIf := d.Instrs[len(d.Instrs)-1].(*ssa.If); isIf {
						if bo, isBin := dif.Cond.(*ssa.BinOp); isBin && (bo.Op == token.EQL || bo.Op == token.NEQ) {
							var subj ssa.Value
							if isNilConst(bo.Y) {
								subj = bo.X
							} else if isNilConst(bo.X) {
								subj = bo.Y
							}
							nonNil, nilSide := d.Succs[0], d.Succs[1]
							if bo.Op == token.EQL {
								nonNil, nilSide = nilSide, nonNil
							}
							if subj != nil && (nonNil == b || nonNil.Dominates(b)) && !inLoop(nilSide) {
								given[subj] = true
							}
						}
					}
				}
				for d := b.Idom(); d != nil && inLoop(d); d = d.Idom() {
					dif, isIf := d.Instrs[len(d.Instrs)-1].(*ssa.If)
					if !isIf {
						continue
					}
					bo, isBin := dif.Cond.(*ssa.BinOp)
					if !isBin || (bo.Op != token.EQL && bo.Op != token.NEQ) {
						continue
					}
					var subj ssa.Value
					if isNilConst(bo.Y) {
						subj = bo.X
					} else if isNilConst(bo.X) {
						subj = bo.Y
					}
					if subj == nil {
						continue
					}
					if _, isPtr := subj.Type().Underlying().(*types.Pointer); !isPtr {
						continue
					}
					nonNil, nilSide := d.Succs[0], d.Succs[1]
					if bo.Op == token.EQL {
						nonNil, nilSide = nilSide, nonNil
					}
					if !(nonNil == b || nonNil.Dominates(b)) {
						continue
					}
					if inLoop(nilSide) && !given[subj] {
						guarded = fmt.Sprintf("the time limit is only looked at when %s is given (%s): without it the loop sleeps and retries for ever, holding the transaction lock — the request is never answered and the server stops serving", opndStr(subj), p.Pos(dif.Cond.Pos()))
					}
				}
				if guarded == "" {
					ok, why = true, "an exit that depends on elapsed time only is reachable whatever optional members are given (without a limit the loop is left at once)"
					break
				}
				why = guarded
			}
			r.Ob(id, funcName(fn), "polling loop", sleepAt.Pos(), ok, true, why)
		}
	}
	if n < 1 {
		r.Anchor(id, "no polling loop (time.Sleep inside a loop) on the transact path")
	}
}


// lenCheckedByHelper: the instruction is dominated by the "no error" edge of a call
// g(..., len(list), ..., K, ...) to a helper of the repository whose every return of a
// nil error has established that the parameter receiving len(list) is not below the
// parameter receiving the constant K (requireArgs("monitor", len(args), 3)), K >= need.
func lenCheckedByHelper(list map[ssa.Value]bool, need int64, at ssa.Instruction) (bool, string) {
	for _, f := range factsAt(at.Block()) {
		cond, truth := normFact(f)
		bo, ok := cond.(*ssa.BinOp)
		if !ok || (bo.Op != token.EQL && bo.Op != token.NEQ) {
			continue
		}
		var subj ssa.Value
		if isNilConst(bo.Y) {
			subj = bo.X
		} else if isNilConst(bo.X) {
			subj = bo.Y
		}
		call, isCall := subj.(*ssa.Call)
		if !isCall || (bo.Op == token.EQL) != truth { // need: call result == nil
			continue
		}
		g := call.Call.StaticCallee()
		if g == nil || g.Blocks == nil || call.Call.IsInvoke() || !types.Identical(call.Type(), types.Universe.Lookup("error").Type()) {
			continue
		}
		li, ki := -1, -1
		var k int64
		for i, a := range call.Call.Args {
			if lx, isLen := lenOperand(a); isLen && list[lx] {
				li = i
			}
			if c, isC := constInt(a); isC && c >= need {
				ki, k = i, c
			}
		}
		if li < 0 || ki < 0 || li >= len(g.Params) || ki >= len(g.Params) {
			continue
		}
		pl, pk := g.Params[li], g.Params[ki]
		all, n := true, 0
		for _, b := range g.Blocks {
			ret, isRet := b.Instrs[len(b.Instrs)-1].(*ssa.Return)
			if !isRet || isRecoverBlock(b) || len(ret.Results) != 1 || !isNilConst(retValue(ret, 0)) {
				continue
			}
			n++
			est := false
			for _, gf := range factsAt(b) {
				c2, t2 := normFact(gf)
				b2, ok := c2.(*ssa.BinOp)
				if !ok {
					continue
				}
				x, y, op := b2.X, b2.Y, b2.Op
				if x == ssa.Value(pk) && y == ssa.Value(pl) {
					x, y = y, x
					switch op {
					case token.LSS:
						op = token.GTR
					case token.GTR:
						op = token.LSS
					case token.LEQ:
						op = token.GEQ
					case token.GEQ:
						op = token.LEQ
					}
				}
				if x != ssa.Value(pl) || y != ssa.Value(pk) {
					continue
				}
				if (op == token.LSS && !t2) || (op == token.GEQ && t2) {
					est = true
				}
			}
			if !est {
				all = false
			}
		}
		if all && n > 0 {
			return true, fmt.Sprintf("dominated by the no-error edge of %s, which only returns nil when the length it is given is at least %d", funcName(g), k)
		}
	}
	return false, ""
}
