package main

import (
	"fmt"
	"go/ast"
	"go/constant"
	"go/token"
	"go/types"
	"sort"
	"strings"

	"golang.org/x/tools/go/ssa"
)

// Smaller structural rules: T-GUARD, T-REFPOS, Q-PRE, F-PAIR, D-ORDER, G-COPY,
// PM-ONCE, DEFER-APPEND, C20 tables.

// ---------------------------------------------------------------------------
// T-GUARD: must-pass-through guards

func ruleTGUARD(p *Program, r *Reporter) {
	const id = "T-GUARD"
	// (a) the immutability test precedes every column write of updateOrModifyModel
	fn := p.Fn("updates", "", "updateOrModifyModel")
	mutable := p.LookupFunc("ovsdb", "ColumnSchema", "Mutable")
	if fn == nil || mutable == nil {
		r.Anchor(id, "updates.updateOrModifyModel / ovsdb.ColumnSchema.Mutable")
	} else {
		var mcalls, sets []*ssa.Call
		for _, b := range fn.Blocks {
			for _, ins := range b.Instrs {
				if c, ok := ins.(*ssa.Call); ok {
					if sc := c.Call.StaticCallee(); sc != nil {
						if sc.Object() == mutable {
							mcalls = append(mcalls, c)
						}
						if sc.Name() == "SetField" && pkgOf(sc) == "mapper" {
							sets = append(sets, c)
						}
					}
				}
			}
		}
		if len(sets) < 2 {
			r.Anchor(id, fmt.Sprintf("updateOrModifyModel: %d SetField calls, expected 2", len(sets)))
		}
		fc := newFlowCtx(fn)
		for _, s := range sets {
			ok := false
			for _, m := range mcalls {
				// the Mutable() result controls a branch one side of which returns a non-nil error
				// without reaching s, and s can only be reached after that branch was evaluated
				if feedsRejectingBranch(m, s, fc) {
					ok = true
				}
			}
			r.Ob(id, funcName(fn), "Mutable() before SetField", s.Pos(), ok, true,
				ifs(ok, "a changed value for an immutable column is rejected on every path before the column is written", "a column is written on a path where ColumnSchema.Mutable() was not consulted: immutable columns can be changed after insert"))
		}
	}
	// (b) the Go type of a native value is compared with the column's native type before any conversion
	for _, n := range []string{"NativeToOvs", "NativeToOvsAtomic"} {
		f := p.Fn("ovsdb", "", n)
		if f == nil {
			r.Anchor(id, "ovsdb."+n)
			continue
		}
		ok, why := typeCheckDominates(f)
		r.Ob(id, funcName(f), "Go type test before conversion", f.Pos(), ok, true, why)
	}
	// (c) SetField: assignability test before reflect Set
	sf := p.Fn("mapper", "Info", "SetField")
	if sf == nil {
		r.Anchor(id, "mapper.(*Info).SetField")
		return
	}
	var setCall, assignable *ssa.Call
	for _, b := range sf.Blocks {
		for _, ins := range b.Instrs {
			if c, ok := ins.(*ssa.Call); ok {
				if sc := c.Call.StaticCallee(); sc != nil && sc.Pkg != nil && sc.Pkg.Pkg.Path() == "reflect" && sc.Name() == "Set" {
					setCall = c
				}
				if c.Call.IsInvoke() && c.Call.Method.Name() == "AssignableTo" {
					assignable = c
				}
			}
		}
	}
	ok := false
	if setCall != nil && assignable != nil {
		// Set is on the true edge of AssignableTo
		for _, f := range factsAt(setCall.Block()) {
			cond, truth := normFact(f)
			if cond == ssa.Value(assignable) && truth {
				ok = true
			}
		}
	}
	pos := sf.Pos()
	if setCall != nil {
		pos = setCall.Pos()
	}
	r.Ob(id, funcName(sf), "AssignableTo before reflect Set", pos, ok, true,
		ifs(ok, "the reflective store only happens when the value's Go type is assignable to the field", "the reflective field store is not guarded by the assignability test: a mismatching Go type panics or is stored"))
}

// feedsRejectingBranch: call m's boolean result (possibly negated / combined by &&)
// decides an If that dominates use `s` on its accepting side, and whose rejecting side returns an error.
func feedsRejectingBranch(m *ssa.Call, s ssa.Instruction, fc *flowCtx) bool {
	// collect Ifs whose condition depends on m within a few steps (NOT, phi of short-circuit)
	dep := map[ssa.Value]bool{m: true}
	for i := 0; i < 4; i++ {
		for _, b := range m.Parent().Blocks {
			for _, ins := range b.Instrs {
				v, ok := ins.(ssa.Value)
				if !ok || dep[v] {
					continue
				}
				switch x := ins.(type) {
				case *ssa.UnOp:
					if dep[x.X] {
						dep[v] = true
					}
				case *ssa.Phi:
					for _, e := range x.Edges {
						if dep[e] {
							dep[v] = true
						}
					}
				case *ssa.BinOp:
					if dep[x.X] || dep[x.Y] {
						dep[v] = true
					}
				}
			}
		}
	}
	// loop header enclosing s (the per-column loop), if any
	var header *ssa.BasicBlock
	for d := s.Block(); d != nil && header == nil; d = d.Idom() {
		for _, pr := range d.Preds {
			if d.Dominates(pr) {
				header = d
			}
		}
	}
	for _, b := range m.Parent().Blocks {
		iff, ok := b.Instrs[len(b.Instrs)-1].(*ssa.If)
		if !ok || !dep[iff.Cond] {
			continue
		}
		// the test precedes the write within one iteration
		pre := b == s.Block() || fc.reachAvoid(b, s.Block(), header)
		if header == nil {
			pre = b == s.Block() || fc.blockReach(b, s.Block())
		}
		if !pre {
			continue
		}
		for _, succ := range b.Succs {
			if returnsNonNilError(succ) && succ != s.Block() && !fc.reachAvoid(succ, s.Block(), header) {
				return true
			}
		}
	}
	return false
}

// typeCheckDominates: an If comparing two reflect.Type values, one side returning a
// non-nil error, dominates every other return of the function.
func typeCheckDominates(f *ssa.Function) (bool, string) {
	isReflectType := func(t types.Type) bool { return isNamed(t, "reflect", "Type") }
	for _, b := range f.Blocks {
		iff, ok := b.Instrs[len(b.Instrs)-1].(*ssa.If)
		if !ok {
			continue
		}
		bo, ok := iff.Cond.(*ssa.BinOp)
		if !ok || (bo.Op != token.NEQ && bo.Op != token.EQL) || !isReflectType(bo.X.Type()) || !isReflectType(bo.Y.Type()) {
			continue
		}
		rej := b.Succs[0]
		if bo.Op == token.EQL {
			rej = b.Succs[1]
		}
		if !returnsNonNilError(rej) {
			continue
		}
		all := true
		for _, b2 := range f.Blocks {
			if _, isRet := b2.Instrs[len(b2.Instrs)-1].(*ssa.Return); isRet && b2 != rej {
				if !b.Dominates(b2) {
					all = false
				}
			}
		}
		if all {
			return true, "reflect.TypeOf(value) is compared with the column's native type first; a mismatch returns an error before any conversion"
		}
	}
	return false, "no dominating comparison of the value's Go type with the column's native type: a value of the wrong Go type is converted (or panics) instead of being rejected"
}

// ---------------------------------------------------------------------------
// T-REFPOS: every value carrier of a reference is inspected

func ruleTREFPOS(p *Program, r *Reporter) {
	const id = "T-REFPOS"
	root := p.Fn("updates", "", "getReferenceModificationsFromColumn")
	if root == nil {
		r.Anchor(id, "updates.getReferenceModificationsFromColumn")
		return
	}
	// type tests (type-switch arms or comma-ok assertions) in the function and its private helpers
	assertsTo := func(fns map[*ssa.Function]bool) map[string]int {
		out := map[string]int{}
		for fn := range fns {
			for _, b := range fn.Blocks {
				for _, ins := range b.Instrs {
					if ta, ok := ins.(*ssa.TypeAssert); ok && ta.CommaOk {
						out[typeStr(ta.AssertedType)]++
					}
				}
			}
		}
		return out
	}
	arms := assertsTo(p.PrivateRegion(root))
	for _, t := range []string{"ovsdb.UUID", "ovsdb.OvsSet", "ovsdb.OvsMap"} {
		ok := arms[t] > 0
		r.Ob(id, funcName(root), "carrier "+t, root.Pos(), ok, true,
			ifs(ok, "references held in a "+t+" are extracted", "references held in a "+t+" are never extracted: they are invisible to referential integrity and garbage collection"))
	}
	fm := p.Fn("updates", "", "getReferenceModificationsFromMap")
	if fm == nil {
		r.Anchor(id, "updates.getReferenceModificationsFromMap")
		return
	}
	// the map extractor builds a key spec and a value spec (FromValue false / true)
	pk2 := p.Pkgs["updates"]
	seen := map[string]bool{}
	for fn := range p.PrivateRegion(fm) {
		body, _ := bodyOf(fn)
		if body == nil || fn.Parent() != nil {
			continue
		}
		ast.Inspect(body, func(n ast.Node) bool {
			cl, ok := n.(*ast.CompositeLit)
			if !ok {
				return true
			}
			if tv, ok := pk2.TypesInfo.Types[cl]; !ok || typeStr(tv.Type) != "database.ReferenceSpec" {
				return true
			}
			fromValue := "false"
			for _, el := range cl.Elts {
				if kv, ok := el.(*ast.KeyValueExpr); ok {
					if id, ok := kv.Key.(*ast.Ident); ok && id.Name == "FromValue" {
						if tv, ok := pk2.TypesInfo.Types[kv.Value]; ok && tv.Value != nil {
							fromValue = tv.Value.String()
						}
					}
				}
			}
			seen[fromValue] = true
			return true
		})
	}
	for _, v := range []string{"false", "true"} {
		what := map[string]string{"false": "key", "true": "value"}[v]
		r.Ob(id, funcName(fm), "map "+what+" position", fm.Pos(), seen[v], true,
			ifs(seen[v], "references in the map "+what+" position are tracked", "no reference spec for the map "+what+" position"))
	}
	// both positions are tested for being a UUID: a type test in the function itself counts
	// once, a call to a private helper that contains the test counts once per call
	n := 0
	region := p.PrivateRegion(fm)
	for _, b := range fm.Blocks {
		for _, ins := range b.Instrs {
			switch x := ins.(type) {
			case *ssa.TypeAssert:
				if x.CommaOk && typeStr(x.AssertedType) == "ovsdb.UUID" {
					n++
				}
			case *ssa.Call:
				if g := x.Call.StaticCallee(); g != nil && g != fm && region[g] {
					if assertsTo(p.PrivateRegion(g))["ovsdb.UUID"] > 0 {
						n++
					}
				}
			}
		}
	}
	r.Ob(id, funcName(fm), "uuid test per position", fm.Pos(), n >= 2, true,
		ifs(n >= 2, "keys and values are each tested for being a UUID", fmt.Sprintf("only %d of the two map positions is inspected for UUIDs", n)))
}

// ---------------------------------------------------------------------------
// Q-PRE: index lookups only pre-filter; every returned row went through the evaluation loop

func ruleQPRE(p *Program, r *Reporter) {
	const id = "Q-PRE"
	fn := p.Fn("cache", "RowCache", "RowsByCondition")
	if fn == nil {
		r.Anchor(id, "cache.(*RowCache).RowsByCondition")
		return
	}
	// the closure (or the function itself) that calls ConditionFunction.Evaluate
	findEval := func(fn *ssa.Function) ssa.Instruction {
		var evalSite ssa.Instruction // the MakeClosure (or the call) inside fn
		for _, an := range fn.AnonFuncs {
			for _, b := range an.Blocks {
				for _, ins := range b.Instrs {
					if c, ok := ins.(*ssa.Call); ok {
						if sc := c.Call.StaticCallee(); sc != nil && sc.Name() == "Evaluate" && pkgOf(sc) == "ovsdb" {
							// find its MakeClosure in fn
							for _, b2 := range fn.Blocks {
								for _, i2 := range b2.Instrs {
									if mc, ok := i2.(*ssa.MakeClosure); ok && mc.Fn == an {
										evalSite = mc
									}
								}
							}
						}
					}
				}
			}
		}
		if evalSite == nil {
			for _, b := range fn.Blocks {
				for _, ins := range b.Instrs {
					if c, ok := ins.(*ssa.Call); ok {
						if sc := c.Call.StaticCallee(); sc != nil && sc.Name() == "Evaluate" && pkgOf(sc) == "ovsdb" {
							evalSite = c
						}
					}
				}
			}
		}
		return evalSite
	}
	entry := fn
	var callToEval *ssa.Call // when the evaluation loop lives in a helper: the call of that helper
	evalSite := findEval(fn)
	if evalSite == nil {
		for _, b := range entry.Blocks {
			for _, ins := range b.Instrs {
				c, ok := ins.(*ssa.Call)
				if !ok {
					continue
				}
				g := c.Call.StaticCallee()
				if g == nil || g.Blocks == nil || pkgOf(g) != "cache" || isExportedEntry(g) {
					continue
				}
				if es := findEval(g); es != nil && evalSite == nil {
					evalSite, callToEval, fn = es, c, g
				}
			}
		}
	}
	if evalSite == nil {
		r.Anchor(id, "RowsByCondition never evaluates a condition (ConditionFunction.Evaluate)")
		return
	}
	// loop header of the evaluation loop: nearest dominator of evalSite's block that has a back edge
	var header *ssa.BasicBlock
	for d := evalSite.Block(); d != nil && header == nil; d = d.Idom() {
		for _, pr := range d.Preds {
			if d.Dominates(pr) {
				header = d
			}
		}
	}
	if header == nil {
		r.Anchor(id, "condition evaluation is not inside a loop over the conditions")
		return
	}
	// results map
	var results *ssa.MakeMap
	for _, b := range fn.Blocks {
		for _, ins := range b.Instrs {
			if mm, ok := ins.(*ssa.MakeMap); ok && guardedResult(mm.Type()) {
				results = mm
			}
		}
	}
	// (when the result is built by a copying helper there is no map to watch in this
	// function: the returns below carry the obligation alone)
	emptyCond := func(b *ssa.BasicBlock) bool {
		// dominated by the true edge of len(conditions) == 0
		for _, f := range factsAt(b) {
			cond, truth := normFact(f)
			bo, ok := cond.(*ssa.BinOp)
			if !ok || bo.Op != token.EQL || !truth {
				continue
			}
			if _, isLen := lenOperand(bo.X); isLen {
				if k, isC := constInt(bo.Y); isC && k == 0 {
					return true
				}
			}
		}
		return false
	}
	n := 0
	var resultRefs []ssa.Instruction
	if results != nil && results.Referrers() != nil {
		resultRefs = *results.Referrers()
	}
	if refs := &resultRefs; refs != nil {
		for _, ref := range *refs {
			mu, ok := ref.(*ssa.MapUpdate)
			if !ok {
				continue
			}
			n++
			ok2 := emptyCond(mu.Block()) || (header.Dominates(mu.Block()) && !inLoopOf(header, mu.Block()))
			r.Ob(id, funcName(fn), "row added to the result", mu.Pos(), ok2, true,
				ifs(ok2, "rows enter the result only with no conditions at all, or after the loop that evaluates every condition on the index candidates",
					"a row is added to the result on a path that does not pass the loop evaluating every condition: index candidates are returned unfiltered"))
		}
	}
	for _, b := range fn.Blocks {
		ret, ok := b.Instrs[len(b.Instrs)-1].(*ssa.Return)
		if !ok || len(ret.Results) == 0 || isRecoverBlock(b) || isNilConst(retValue(ret, 0)) {
			continue
		}
		n++
		ok2 := emptyCond(b) || (header.Dominates(b) && !inLoopOf(header, b))
		r.Ob(id, funcName(fn), "successful return", retPos(ret, fn), ok2, true,
			ifs(ok2, "results are returned only after the evaluation loop (or for an empty condition list)", "results can be returned before every condition was evaluated"))
	}
	if callToEval != nil {
		// the loop lives in a helper: in RowsByCondition itself results are built and
		// returned only after that helper returned (or for an empty condition list)
		after := func(b *ssa.BasicBlock) bool {
			return b == callToEval.Block() || callToEval.Block().Dominates(b)
		}
		for _, b := range entry.Blocks {
			for _, ins := range b.Instrs {
				if mu, ok := ins.(*ssa.MapUpdate); ok && guardedResult(mu.Map.Type()) {
					n++
					ok2 := emptyCond(b) || after(b)
					r.Ob(id, funcName(entry), "row added to the result", mu.Pos(), ok2, true,
						ifs(ok2, "rows enter the result only after "+funcName(fn)+" evaluated every condition", "a row is added to the result before "+funcName(fn)+" evaluated the conditions"))
				}
			}
			ret, ok := b.Instrs[len(b.Instrs)-1].(*ssa.Return)
			if !ok || len(ret.Results) == 0 || isRecoverBlock(b) || isNilConst(retValue(ret, 0)) {
				continue
			}
			n++
			ok2 := emptyCond(b) || after(b)
			r.Ob(id, funcName(entry), "successful return", retPos(ret, entry), ok2, true,
				ifs(ok2, "results are returned only after "+funcName(fn)+" evaluated every condition", "results can be returned before the conditions were evaluated"))
		}
	}
	if n < 2 {
		r.Anchor(id, fmt.Sprintf("RowsByCondition: %d result writes/returns, expected >= 2", n))
	}
}

// inLoopOf: b is inside the natural loop headed by h (h dominates b and b reaches h).
func inLoopOf(h, b *ssa.BasicBlock) bool {
	if !h.Dominates(b) {
		return false
	}
	seen := map[int]bool{}
	st := append([]*ssa.BasicBlock{}, b.Succs...)
	for len(st) > 0 {
		x := st[len(st)-1]
		st = st[:len(st)-1]
		if seen[x.Index] {
			continue
		}
		seen[x.Index] = true
		if x == h {
			return true
		}
		if !h.Dominates(x) {
			continue
		}
		st = append(st, x.Succs...)
	}
	return b == h
}

// ---------------------------------------------------------------------------
// F-PAIR: the monitor filter pairs each kind of change with the select flag of the same name

func ruleFPAIR(p *Program, r *Reporter) {
	const id = "F-PAIR"
	n := 0
	f1, f2 := p.Fn("server", "monitor", "filter"), p.Fn("server", "monitor", "filter2")
	pk := p.Pkgs["server"]
	if f1 == nil || f2 == nil || pk == nil {
		r.Anchor(id, "server.(*monitor).filter / filter2")
		return
	}
	info := pk.TypesInfo
	// every conjunction "<kind of change> && <select flag>" in the two filters or their
	// private helpers, whether it is a case label, an if condition or part of a larger
	// boolean; the kind may reach a shared predicate helper as a boolean argument
	type body struct {
		name string
		node ast.Node
	}
	var nodes []body
	for fn := range p.PrivateRegion(f1, f2) {
		if fn.Parent() == nil {
			if b, _ := bodyOf(fn); b != nil {
				nodes = append(nodes, body{funcName(fn), b})
			}
		}
	}
	sort.Slice(nodes, func(i, j int) bool { return nodes[i].node.Pos() < nodes[j].node.Pos() })
	// kinds an expression stands for: directly, or - for a boolean parameter of a helper -
	// what each call site passes in that position
	var kindsOf func(e ast.Expr, depth int) []string
	kindsOf = func(e ast.Expr, depth int) []string {
		if k := changeKindName(info, e); k != "" {
			return []string{k}
		}
		id, ok := ast.Unparen(e).(*ast.Ident)
		if !ok || depth > 2 {
			return nil
		}
		obj, _ := info.Uses[id].(*types.Var)
		if obj == nil {
			return nil
		}
		var out []string
		for _, f := range pk.Syntax {
			for _, d := range f.Decls {
				fd, ok := d.(*ast.FuncDecl)
				if !ok || fd.Body == nil || fd.Type.Params == nil {
					continue
				}
				idx, pos := -1, 0
				for _, fl := range fd.Type.Params.List {
					for _, nm := range fl.Names {
						if info.Defs[nm] == obj {
							idx = pos
						}
						pos++
					}
				}
				if idx < 0 {
					continue
				}
				fobj := info.Defs[fd.Name]
				for _, f2 := range pk.Syntax {
					ast.Inspect(f2, func(x ast.Node) bool {
						call, ok := x.(*ast.CallExpr)
						if !ok || idx >= len(call.Args) {
							return true
						}
						var callee types.Object
						switch fn := ast.Unparen(call.Fun).(type) {
						case *ast.Ident:
							callee = info.Uses[fn]
						case *ast.SelectorExpr:
							callee = info.Uses[fn.Sel]
						}
						if callee != nil && callee == fobj {
							out = append(out, kindsOf(call.Args[idx], depth+1)...)
						}
						return true
					})
				}
			}
		}
		return out
	}
	for _, nd := range nodes {
		ast.Inspect(nd.node, func(x ast.Node) bool {
			be, ok := x.(*ast.BinaryExpr)
			if !ok || be.Op != token.LAND {
				return true
			}
			kinds := kindsOf(be.X, 0)
			sel := selectFlagName(info, be.Y)
			if len(kinds) == 0 || sel == "" {
				kinds2 := kindsOf(be.Y, 0)
				sel2 := selectFlagName(info, be.X)
				if len(kinds2) != 0 && sel2 != "" {
					kinds, sel = kinds2, sel2
				}
			}
			if len(kinds) == 0 || sel == "" {
				return true
			}
			for _, kind := range kinds {
				n++
				ok2 := strings.EqualFold(kind, sel)
				r.Ob(id, nd.name, "kind "+kind, be.Pos(), ok2, true,
					ifs(ok2, kind+" changes are sent when select."+sel+" is set", "a "+kind+" change is filtered by the select flag for "+sel+": monitors receive kinds of change they did not ask for and miss those they did"))
			}
			return true
		})
	}
	if n < 6 {
		r.Anchor(id, fmt.Sprintf("filter/filter2: %d kind/select pairs, expected 6", n))
	}
}

func changeKindName(info *types.Info, e ast.Expr) string {
	switch x := ast.Unparen(e).(type) {
	case *ast.CallExpr: // ru.Insert()
		if sel, ok := x.Fun.(*ast.SelectorExpr); ok {
			if tv, ok := info.Types[sel.X]; ok && (isNamed(tv.Type, repoMod+"/ovsdb", "RowUpdate") || isNamed(tv.Type, repoMod+"/ovsdb", "RowUpdate2")) {
				return sel.Sel.Name
			}
		}
	case *ast.BinaryExpr: // ru2.Insert != nil
		if x.Op == token.NEQ {
			if sel, ok := ast.Unparen(x.X).(*ast.SelectorExpr); ok {
				if tv, ok := info.Types[sel.X]; ok && (isNamed(tv.Type, repoMod+"/ovsdb", "RowUpdate") || isNamed(tv.Type, repoMod+"/ovsdb", "RowUpdate2")) {
					return sel.Sel.Name
				}
			}
		}
	}
	return ""
}

func selectFlagName(info *types.Info, e ast.Expr) string {
	if c, ok := ast.Unparen(e).(*ast.CallExpr); ok {
		if sel, ok := c.Fun.(*ast.SelectorExpr); ok {
			if tv, ok := info.Types[sel.X]; ok && isNamed(tv.Type, repoMod+"/ovsdb", "MonitorSelect") {
				return sel.Sel.Name
			}
		}
	}
	return ""
}

// ---------------------------------------------------------------------------
// PM-ONCE: one notification round per committed transaction

// serverTransactBody: the function holding the body of the server's transact
// handler (the call of transact, the error scan, notification and commit):
// OvsdbServer.Transact itself, or the private helper it hands the work to;
// via is then the call of that helper in Transact.
func serverTransactBody(p *Program) (body *ssa.Function, via *ssa.Call) {
	fn := p.Fn("server", "OvsdbServer", "Transact")
	if fn == nil {
		return nil, nil
	}
	callsTransact := func(g *ssa.Function) bool {
		for _, b := range g.Blocks {
			for _, ins := range b.Instrs {
				if c, ok := ins.(*ssa.Call); ok {
					if sc := c.Call.StaticCallee(); sc != nil && sc.Name() == "transact" && pkgOf(sc) == "server" {
						return true
					}
				}
			}
		}
		return false
	}
	if callsTransact(fn) {
		return fn, nil
	}
	region := p.PrivateRegion(fn)
	// the call may sit in Transact itself or in a closure it hands to a locking helper
	for _, h := range sortedFuncs(region) {
		if h != fn && h.Parent() == nil {
			continue
		}
		for _, b := range h.Blocks {
			for _, ins := range b.Instrs {
				c, ok := ins.(*ssa.Call)
				if !ok {
					continue
				}
				if g := c.Call.StaticCallee(); g != nil && g != fn && region[g] && g.Parent() == nil && callsTransact(g) {
					return g, c
				}
			}
		}
	}
	return fn, nil
}

func rulePMONCE(p *Program, r *Reporter) {
	const id = "PM-ONCE"
	fn, via := serverTransactBody(p)
	if fn == nil {
		r.Anchor(id, "server.(*OvsdbServer).Transact")
		return
	}
	if via != nil {
		// the body lives in a helper: it is entered once, outside any loop
		outer := via.Parent()
		n := 0
		for _, b := range outer.Blocks {
			for _, ins := range b.Instrs {
				if c, ok := ins.(ssa.CallInstruction); ok && c.Common().StaticCallee() == fn {
					n++
				}
			}
		}
		okv := n == 1 && !newFlowCtx(outer).blockReach(via.Block(), via.Block())
		r.Ob(id, funcName(outer), "transaction body entered once", via.Pos(), okv, true,
			ifs(okv, funcName(fn)+" is called once, outside any loop", funcName(fn)+" is called more than once or inside a loop: a transaction is executed and notified more than once"))
	}
	fc := newFlowCtx(fn)
	var calls []*ssa.Call
	for _, b := range fn.Blocks {
		for _, ins := range b.Instrs {
			if c, ok := ins.(*ssa.Call); ok {
				if sc := c.Call.StaticCallee(); sc != nil && sc.Name() == "processMonitors" {
					calls = append(calls, c)
				}
			}
		}
	}
	ok := len(calls) == 1 && !fc.blockReach(calls[0].Block(), calls[0].Block())
	pos := fn.Pos()
	if len(calls) > 0 {
		pos = calls[0].Pos()
	}
	r.Ob(id, funcName(fn), "processMonitors called once", pos, ok, true,
		ifs(ok, "exactly one notification round per transaction, outside any loop", fmt.Sprintf("processMonitors is called %d times / inside a loop: a transaction is notified more or less than once", len(calls))))
	// and processMonitors visits every monitor: two nested ranges over monitors maps
	pm := p.Fn("server", "OvsdbServer", "processMonitors")
	if pm == nil {
		r.Anchor(id, "server.(*OvsdbServer).processMonitors")
		return
	}
	ranges := 0
	for g := range p.PrivateRegion(pm) {
		for _, b := range g.Blocks {
			for _, ins := range b.Instrs {
				if rg, ok := ins.(*ssa.Range); ok {
					if _, isMap := rg.X.Type().Underlying().(*types.Map); isMap {
						ranges++
					}
				}
			}
		}
	}
	r.Ob(id, funcName(pm), "every monitor of every connection", pm.Pos(), ranges >= 2, true,
		ifs(ranges >= 2, "iterates all connections and all their monitors", "processMonitors does not iterate both the connections and their monitors"))
}

// ---------------------------------------------------------------------------
// DEFER-APPEND: buffered notifications keep arrival order

func ruleDEFERAPPEND(p *Program, r *Reporter) {
	const id = "DEFER-APPEND"
	fld := p.Field("client", "database", "deferredUpdates")
	if fld == nil {
		r.Anchor(id, "client.database.deferredUpdates")
		return
	}
	n := 0
	for _, a := range collectAccesses(p, map[*types.Var]bool{fld: true}) {
		st, ok := a.instr.(*ssa.Store)
		if !ok || a.ctor {
			continue
		}
		n++
		ok2, why := false, "deferredUpdates is assigned something other than append(deferredUpdates, x) or an empty slice: buffered notifications can be reordered or lost"
		switch v := st.Val.(type) {
		case *ssa.MakeSlice:
			ok2, why = true, "reset to an empty buffer"
		case *ssa.Slice:
			if _, isAl := v.X.(*ssa.Alloc); isAl {
				ok2, why = true, "reset to an empty buffer"
			}
		case *ssa.Const:
			ok2, why = v.Value == nil, "reset to nil"
		case *ssa.Call:
			if bi, isB := v.Call.Value.(*ssa.Builtin); isB && bi.Name() == "append" {
				if ld, isLd := v.Call.Args[0].(*ssa.UnOp); isLd {
					if fa, isFA := ld.X.(*ssa.FieldAddr); isFA && fieldOfAddr(fa) == fld {
						ok2, why = true, "appended at the tail (arrival order is kept)"
					}
				}
			}
		}
		r.Ob(id, funcName(a.fn), "assign deferredUpdates", st.Pos(), ok2, true, why)
	}
	if n < 4 {
		r.Anchor(id, fmt.Sprintf("deferredUpdates: %d assignments, expected >= 4", n))
	}
	// replay loop: monitor() ranges over deferredUpdates in slice order
	mon := p.Fn("client", "ovsdbClient", "monitor")
	if mon == nil {
		return
	}
	found := false
	// the loop may live in a private helper of monitor()
	region := p.PrivateRegion(mon)
	region[mon] = true
	for g := range region {
		for _, b := range g.Blocks {
			for _, ins := range b.Instrs {
				if ia, ok := ins.(*ssa.IndexAddr); ok {
					if ld, ok := ia.X.(*ssa.UnOp); ok {
						if fa, ok := ld.X.(*ssa.FieldAddr); ok && fieldOfAddr(fa) == fld {
							// induction variable counting up from 0
							if nonNegative(ia.Index, 0) {
								found = true
							}
						}
					}
				}
			}
		}
	}
	r.Ob(id, funcName(mon), "deferred updates replayed in order", mon.Pos(), found, true,
		ifs(found, "monitor() replays the buffered notifications front to back after the initial contents", "monitor() does not replay deferredUpdates in slice order"))
}

// ---------------------------------------------------------------------------
// D-ORDER: deterministic generation — map iteration only collects keys that are then sorted

func ruleDORDER(p *Program, r *Reporter) {
	const id = "D-ORDER"
	pk := p.Pkgs["modelgen"]
	n := 0
	for _, f := range pk.Syntax {
		for _, d := range f.Decls {
			fd, ok := d.(*ast.FuncDecl)
			if !ok || fd.Body == nil {
				continue
			}
			fobj, _ := pk.TypesInfo.Defs[fd.Name].(*types.Func)
			ast.Inspect(fd.Body, func(x ast.Node) bool {
				rs, ok := x.(*ast.RangeStmt)
				if !ok {
					return true
				}
				tv, ok := pk.TypesInfo.Types[rs.X]
				if !ok {
					return true
				}
				if _, isMap := tv.Type.Underlying().(*types.Map); !isMap {
					return true
				}
				n++
				// body: exactly `s = append(s, key)`
				var target types.Object
				okBody := false
				if len(rs.Body.List) == 1 {
					if as, ok := rs.Body.List[0].(*ast.AssignStmt); ok && len(as.Lhs) == 1 && len(as.Rhs) == 1 {
						if call, ok := as.Rhs[0].(*ast.CallExpr); ok {
							if id, ok := call.Fun.(*ast.Ident); ok && id.Name == "append" && len(call.Args) == 2 {
								target = lhsObj(pk.TypesInfo, as.Lhs[0])
								okBody = target != nil
							}
						}
					}
				}
				sorted := false
				if okBody {
					// the next use of target after the loop is a sort
					var firstUse ast.Node
					ast.Inspect(fd.Body, func(y ast.Node) bool {
						if firstUse != nil || y == nil {
							return false
						}
						if y.Pos() <= rs.End() && y.End() <= rs.End() {
							return y.End() > rs.Pos() || true
						}
						if id, ok := y.(*ast.Ident); ok && id.Pos() > rs.End() && pk.TypesInfo.Uses[id] == target {
							firstUse = id
						}
						return true
					})
					if firstUse != nil {
						// enclosing call: target.Sort() or sort.X(target)
						ast.Inspect(fd.Body, func(y ast.Node) bool {
							call, ok := y.(*ast.CallExpr)
							if !ok || !(call.Pos() <= firstUse.Pos() && firstUse.End() <= call.End()) {
								return true
							}
							if fn := calleeOf(pk.TypesInfo, call); fn != nil && fn.Pkg() != nil && fn.Pkg().Path() == "sort" {
								sorted = true
							}
							return true
						})
					}
				}
				ok2 := okBody && sorted
				r.Ob(id, typesFuncName(fobj), "range over map", rs.Pos(), ok2, true,
					ifs(ok2, "the map is only used to collect its keys, which are sorted before anything else is done with them", "output depends on Go's random map iteration order: generated code differs from run to run"))
				return true
			})
		}
	}
	if n < 2 {
		r.Anchor(id, fmt.Sprintf("package modelgen: %d ranges over maps, expected >= 2", n))
	}
}

// ---------------------------------------------------------------------------
// G-COPY: hand-/generator-written deep copies and equality cover every field

func ruleGCOPY(p *Program, r *Reporter) {
	const id = "G-COPY"
	n := 0
	for _, rel := range analysedPkgs {
		pk := p.Pkgs[rel]
		for _, nt := range p.namedAll {
			if nt.Obj().Pkg() != pk.Types {
				continue
			}
			st, ok := nt.Underlying().(*types.Struct)
			if !ok {
				continue
			}
			dci := p.LookupFunc(rel, nt.Obj().Name(), "DeepCopyInto")
			eq := p.LookupFunc(rel, nt.Obj().Name(), "Equals")
			if dci == nil || eq == nil {
				continue
			}
			n++
			dfd, _ := p.Decl(dci)
			efd, _ := p.Decl(eq)
			if dfd == nil || efd == nil {
				continue
			}
			info := pk.TypesInfo
			dst := info.Defs[dfd.Type.Params.List[0].Names[0]]
			src := info.Defs[dfd.Recv.List[0].Names[0]]
			assigned := map[string]bool{}
			ast.Inspect(dfd.Body, func(x ast.Node) bool {
				as, ok := x.(*ast.AssignStmt)
				if !ok {
					return true
				}
				for i, l := range as.Lhs {
					sel, ok := ast.Unparen(l).(*ast.SelectorExpr)
					if !ok || i >= len(as.Rhs) {
						continue
					}
					if id, ok := ast.Unparen(sel.X).(*ast.Ident); !ok || info.Uses[id] != dst {
						continue
					}
					// rhs must not be the plain source field
					if rs, ok := ast.Unparen(as.Rhs[i]).(*ast.SelectorExpr); ok {
						if rid, ok := ast.Unparen(rs.X).(*ast.Ident); ok && info.Uses[rid] == src {
							continue
						}
					}
					assigned[sel.Sel.Name] = true
				}
				return true
			})
			mentioned := map[string]bool{}
			ast.Inspect(efd.Body, func(x ast.Node) bool {
				if sel, ok := x.(*ast.SelectorExpr); ok {
					mentioned[sel.Sel.Name] = true
				}
				return true
			})
			tname := typeStr(nt)
			for i := 0; i < st.NumFields(); i++ {
				f := st.Field(i)
				if !isRefFree(f.Type(), 0) {
					r.Ob(id, tname+".DeepCopyInto", "field "+f.Name(), dfd.Pos(), assigned[f.Name()], true,
						ifs(assigned[f.Name()], "re-assigned from a copy after *b = *a", "field "+f.Name()+" holds a reference and is not re-assigned from a copy: the clone shares memory with the original"))
				}
				r.Ob(id, tname+".Equals", "field "+f.Name(), efd.Pos(), mentioned[f.Name()], true,
					ifs(mentioned[f.Name()], "compared", "field "+f.Name()+" is not compared: models differing only there are reported equal"))
			}
		}
	}
	if n == 0 {
		r.Anchor(id, "no type with DeepCopyInto/Equals found")
	}
}

// ---------------------------------------------------------------------------
// C20 tables: generator type names vs mapper native types

func ruleGEN(p *Program, r *Reporter) {
	const id = "GEN-ATOM"
	groups := constGroups(p)
	// NativeTypeFromAtomic: constant -> Go type name, via the reflect.TypeOf initialisers
	nfd, npk, err := p.funcDecl("ovsdb", "", "NativeTypeFromAtomic")
	afd, apk, err2 := p.funcDecl("modelgen", "", "AtomicType")
	if err != nil || err2 != nil || groups["atomic"] == nil {
		r.Anchor(id, "ovsdb.NativeTypeFromAtomic / modelgen.AtomicType")
		return
	}
	// both tables are read from switch arms (case K: return V) or map literals {K: V},
	// in the function itself, a helper it calls, or a package-level table it consults
	table := func(pkgrel, name string, value func(info *types.Info, e ast.Expr) string) map[string]string {
		out := map[string]string{}
		info := p.Pkgs[pkgrel].TypesInfo
		for _, nd := range p.siteNodes(pkgrel, "", name) {
			ast.Inspect(nd, func(x ast.Node) bool {
				switch t := x.(type) {
				case *ast.CaseClause:
					val := ""
					for _, stt := range t.Body {
						if ret, ok := stt.(*ast.ReturnStmt); ok && len(ret.Results) == 1 {
							val = value(info, ret.Results[0])
						}
					}
					for _, e := range t.List {
						if tv, ok := info.Types[e]; ok && tv.Value != nil && tv.Value.Kind() == constant.String && val != "" {
							out[constant.StringVal(tv.Value)] = val
						}
					}
				case *ast.KeyValueExpr:
					if tv, ok := info.Types[t.Key]; ok && tv.Value != nil && tv.Value.Kind() == constant.String {
						if val := value(info, t.Value); val != "" {
							out[constant.StringVal(tv.Value)] = val
						}
					}
				}
				return true
			})
		}
		return out
	}
	native := table("ovsdb", "NativeTypeFromAtomic", func(info *types.Info, e ast.Expr) string {
		if id, ok := ast.Unparen(e).(*ast.Ident); ok {
			if v, ok := info.Uses[id].(*types.Var); ok {
				return reflectTypeOfInit(p, v)
			}
		}
		if call, ok := ast.Unparen(e).(*ast.CallExpr); ok && len(call.Args) == 1 {
			if fn := calleeOf(info, call); fn != nil && fn.Pkg() != nil && fn.Pkg().Path() == "reflect" && fn.Name() == "TypeOf" {
				if tv, ok := info.Types[call.Args[0]]; ok {
					return types.Default(tv.Type).String()
				}
			}
		}
		return ""
	})
	gen := table("modelgen", "AtomicType", func(info *types.Info, e ast.Expr) string {
		if tv, ok := info.Types[e]; ok && tv.Value != nil && tv.Value.Kind() == constant.String {
			return constant.StringVal(tv.Value)
		}
		return ""
	})
	_, _, _ = npk, apk, nfd
	for _, c := range groups["atomic"].consts {
		v := constant.StringVal(c.Val())
		ok := native[v] != "" && native[v] == gen[v]
		r.Ob(id, "modelgen.AtomicType", "atomic "+c.Name(), afd.Pos(), ok, true,
			ifs(ok, fmt.Sprintf("%s: generator emits %q, mapper expects %s", v, gen[v], native[v]), fmt.Sprintf("%s: generator emits %q but the mapper expects a field of Go type %q: generated models do not validate against their schema", v, gen[v], native[v])))
	}
	// shape decisions: the (min,max) pairs tested by fieldType and NativeType agree, in order
	shape := func(pkgrel, name string) ([]string, token.Pos) {
		root := p.Fn(pkgrel, "", name)
		if root == nil {
			return nil, token.NoPos
		}
		accessor := func(v ssa.Value) (string, bool) {
			bo, ok := v.(*ssa.BinOp)
			if !ok || bo.Op != token.EQL {
				return "", false
			}
			c, ok := bo.X.(*ssa.Call)
			if !ok || c.Call.StaticCallee() == nil {
				return "", false
			}
			n := c.Call.StaticCallee().Name()
			if n != "Min" && n != "Max" {
				return "", false
			}
			k, ok := constInt(bo.Y)
			if !ok {
				return "", false
			}
			return fmt.Sprintf("%s==%d", n, k), true
		}
		type pr struct {
			pos token.Pos
			s   string
		}
		var prs []pr
		for _, fn := range p.Reach(root) {
			for _, b := range fn.Blocks {
				for _, ins := range b.Instrs {
					v, isVal := ins.(ssa.Value)
					if !isVal {
						continue
					}
					mx, ok := accessor(v)
					if !ok || !strings.HasPrefix(mx, "Max") {
						continue
					}
					// the Max test is evaluated only where the Min test held (a && b, nested ifs)
					for _, f := range factsAt(b) {
						cond, truth := normFact(f)
						if mn, ok := accessor(cond); ok && truth && strings.HasPrefix(mn, "Min") {
							prs = append(prs, pr{ins.Pos(), mn + "&&" + mx})
						}
					}
				}
			}
		}
		sort.Slice(prs, func(i, j int) bool { return prs[i].pos < prs[j].pos })
		var out []string
		for _, x := range prs {
			if len(out) == 0 || out[len(out)-1] != x.s {
				out = append(out, x.s)
			}
		}
		return out, root.Pos()
	}
	a, apos := shape("ovsdb", "NativeType")
	b, _ := shape("modelgen", "fieldType")
	ok := len(a) >= 2 && strings.Join(a, ";") == strings.Join(b, ";")
	r.Ob("GEN-SHAPE", "modelgen.fieldType", "optional/scalar/slice decision", apos, ok, true,
		ifs(ok, "generator and mapper take the pointer / scalar / slice decision on the same (min,max) tests: "+strings.Join(a, "; "), fmt.Sprintf("generator decides on %v, mapper on %v: some set columns get a field of the wrong shape", b, a)))
	_ = sort.Strings
}

// accessorEq recognises `<x>.Min() == c` / `<x>.Max() == c`.
func accessorEq(info *types.Info, e ast.Expr) (string, bool) {
	be, ok := ast.Unparen(e).(*ast.BinaryExpr)
	if !ok || be.Op != token.EQL {
		return "", false
	}
	call, ok := ast.Unparen(be.X).(*ast.CallExpr)
	if !ok {
		return "", false
	}
	sel, ok := call.Fun.(*ast.SelectorExpr)
	if !ok || (sel.Sel.Name != "Min" && sel.Sel.Name != "Max") {
		return "", false
	}
	tv, ok := info.Types[be.Y]
	if !ok || tv.Value == nil {
		return "", false
	}
	return sel.Sel.Name + "==" + tv.Value.String(), true
}

// reflectTypeOfInit: for `var x = reflect.TypeOf(<expr>)` returns the Go type of <expr>.
func reflectTypeOfInit(p *Program, v *types.Var) string {
	for _, pk := range p.Pkgs {
		if pk.Types != v.Pkg() {
			continue
		}
		for _, f := range pk.Syntax {
			for _, d := range f.Decls {
				gd, ok := d.(*ast.GenDecl)
				if !ok || gd.Tok != token.VAR {
					continue
				}
				for _, sp := range gd.Specs {
					vs := sp.(*ast.ValueSpec)
					for i, nm := range vs.Names {
						if pk.TypesInfo.Defs[nm] == v && i < len(vs.Values) {
							if call, ok := vs.Values[i].(*ast.CallExpr); ok && len(call.Args) == 1 {
								if fn := calleeOf(pk.TypesInfo, call); fn != nil && fn.Pkg() != nil && fn.Pkg().Path() == "reflect" && fn.Name() == "TypeOf" {
									if tv, ok := pk.TypesInfo.Types[call.Args[0]]; ok {
										t := tv.Type
										if b, ok := t.(*types.Basic); ok && b.Info()&types.IsUntyped != 0 {
											t = types.Default(t)
										}
										return t.String()
									}
								}
							}
						}
					}
				}
			}
		}
	}
	return ""
}
