package main

import (
	"flag"
	"fmt"
	"golang.org/x/tools/go/ssa"
	"os"
	"path/filepath"
	"runtime"
	"runtime/debug"
	"sort"
	"strconv"
	"strings"
	"time"
)

// RuleDef is one static rule; Min is the number of instances confirmed by
// hand on the pinned tree, below which the rule is considered vacuous.
type RuleDef struct {
	ID  string
	Min int
	Doc string
	Run func(p *Program, r *Reporter)
}

// PropDef ties a property to the rules that decide its structural clause.
type PropDef struct {
	ID          string
	Rules       []string
	Explanation string
	NotCovered  string
	Assumptions []string
}

var rules = map[string]*RuleDef{}
var props = map[string]*PropDef{}

func registerRule(r *RuleDef) {
	if _, dup := rules[r.ID]; dup {
		panic("duplicate rule " + r.ID)
	}
	rules[r.ID] = r
}
func registerProp(p *PropDef) { props[p.ID] = p }

var verifDir = "/verif"

var commonAssumptions = []string{
	"go/types, go/ssa and the dominator computation of golang.org/x/tools v0.29.0 are correct",
	"the Go standard library and cenkalti/rpc2 behave as documented (Client.Call blocks for the reply, SetBlocking(true) runs handlers in the read loop, encoding/json does not panic and does not retain &local)",
	"only the 16 type-checking non-test packages of the module are analysed; example/* and _test.go files are out of scope",
	"a static rule decides the structural clause named in coverage.explanation, not the value-level behaviour of the property",
}

func runRules(p *Program, ids []string) *Reporter {
	r := NewReporter(p)
	for _, id := range ids {
		rd := rules[id]
		if rd == nil {
			r.Anchor(id, "rule not registered")
			continue
		}
		func() {
			defer func() {
				if e := recover(); e != nil {
					r.Anchor(id, fmt.Sprintf("checker panic: %v\n%s", e, debug.Stack()))
				}
			}()
			rd.Run(p, r)
		}()
	}
	r.Finish()
	return r
}

func main() {
	prop := flag.String("property", "", "property id (Cnn)")
	tier := flag.String("tier", "quick", "quick|thorough")
	replay := flag.String("replay", "", "re-print stored diagnostics")
	selftest := flag.Bool("selftest", false, "run every control separately; fail if one does not fire")
	list := flag.Bool("list", false, "list obligations")
	repo := flag.String("repo", "/repo", "repository to analyse")
	noctl := flag.Bool("nocontrols", false, "skip positive controls (development)")
	discover := flag.String("discover", "", "development: print candidate sites (exhaust)")
	dumpProps := flag.Bool("dumpprops", false, "print the property/rule table as JSON")
	all := flag.Bool("all", false, "development: run every property on one load of the tree (sections start with '== property Cnn')")
	flag.Parse()
	repoDir = *repo
	if v := os.Getenv("VERIF_DIR"); v != "" {
		verifDir = v
	}
	if *replay != "" {
		b, err := os.ReadFile(*replay)
		if err != nil {
			fmt.Fprintln(os.Stderr, err)
			os.Exit(2)
		}
		os.Stdout.Write(b)
		return
	}
	if v := os.Getenv("VERIF_TIER"); v != "" && *tier == "" {
		*tier = v
	}
	seed := 0
	if v := os.Getenv("VERIF_SEED"); v != "" {
		seed, _ = strconv.Atoi(v)
	}
	if *dumpProps {
		type pr struct {
			ID, Explanation, NotCovered string
			Rules                       []map[string]interface{}
		}
		var out []pr
		for _, id := range sortedKeys(props) {
			pd := props[id]
			x := pr{ID: id, Explanation: pd.Explanation, NotCovered: pd.NotCovered}
			var extra []string
			for _, rid := range pd.Rules {
				rd := rules[rid]
				x.Rules = append(x.Rules, map[string]interface{}{"id": rid, "min": rd.Min, "doc": rd.Doc})
				// rules assigned to the property after its explanation was written
				if !strings.Contains(pd.Explanation, rid) {
					extra = append(extra, "("+rid+") "+rd.Doc)
				}
			}
			if len(extra) > 0 {
				x.Explanation = strings.TrimRight(x.Explanation, " .") + ". Further structural clauses decided for this property: " + strings.Join(extra, "; ") + "."
			}
			out = append(out, x)
		}
		writeJSON("/dev/stdout", out)
		return
	}
	if *discover != "" {
		p, err := Load(nil)
		if err != nil {
			fmt.Println(err)
			os.Exit(2)
		}
		switch *discover {
		case "exhaust":
			discoverExhaust(p)
		case "errdead":
			all := map[string]bool{}
			for _, k := range analysedPkgs {
				all[k] = true
			}
			errDeadSites(p, all, func(fn *ssa.Function, c *ssa.Call, name string, dead bool) {
				if dead {
					fmt.Printf("%s %s %s DEAD\n", p.Pos(c.Pos()), funcName(fn), name)
				}
			})
		case "errnilret":
			all := map[string]bool{}
			for _, k := range analysedPkgs {
				all[k] = true
			}
			errNilRetSites(p, all, func(fn *ssa.Function, iff *ssa.If, ret *ssa.Return, name string) {
				fmt.Printf("%s %s error of %s -> return nil at %s\n", p.Pos(iff.Cond.Pos()), funcName(fn), name, p.Pos(ret.Pos()))
			})
		case "globals":
			globalWrites(p, func(fn *ssa.Function, ins ssa.Instruction, g *ssa.Global) {
				fmt.Printf("%s %s writes %s\n", p.Pos(ins.Pos()), funcName(fn), g.Name())
			})
		case "errloop":
			all := map[string]bool{}
			for _, k := range analysedPkgs {
				all[k] = true
			}
			errLoopSites(p, all, func(fn *ssa.Function, ev ssa.Value, name string, ok bool) {
				fmt.Printf("%s %s %s ok=%v\n", p.Pos(ev.Pos()), funcName(fn), name, ok)
			})
		case "erruse":
			discoverErrUse(p, map[string]bool{"database/transaction": true, "updates": true, "server": true, "cache": true, "client": true, "database/inmemory": true, "ovsdb": true, "mapper": true, "model": true, "database": true}, func(fn *ssa.Function, call ssa.Value, iff *ssa.If, used, returns bool) {
				if !used {
					fmt.Printf("%s %s used=%v returns=%v\n", p.Pos(iff.Cond.Pos()), funcName(fn), used, returns)
				}
			})
		}
		return
	}
	if *selftest {
		os.Exit(runSelftest(*prop))
	}
	if *all {
		// development / regression aid: every property on one load of the tree
		pl, err := Load(nil)
		if err == nil {
			preloaded = pl
		}
		rc := 0
		for _, id := range sortedKeys(props) {
			fmt.Printf("== property %s\n", id)
			if c := runProperty(props[id], *tier, seed, false, *noctl); c > rc {
				rc = c
			}
		}
		os.Exit(rc)
	}
	pd := props[*prop]
	if pd == nil {
		fmt.Fprintf(os.Stderr, "unknown property %q; known: %s\n", *prop, strings.Join(sortedKeys(props), " "))
		os.Exit(2)
	}
	os.Exit(runProperty(pd, *tier, seed, *list, *noctl))
}

var preloaded *Program // set by -all

func runProperty(pd *PropDef, tier string, seed int, list, noctl bool) int {
	start := time.Now()
	evPath := filepath.Join(verifDir, "evidence", pd.ID+".json")
	violPath := filepath.Join(verifDir, "evidence", pd.ID+".violations.txt")
	os.MkdirAll(filepath.Dir(evPath), 0o755)
	os.Remove(violPath)

	var viol []string // diagnostics lines
	var knownLines []string
	ev := &Evidence{PropertyID: pd.ID, Tier: tier, Seed: seed, Level: "other"}
	ev.Assumptions = append(append([]string{}, commonAssumptions...), pd.Assumptions...)
	ev.Coverage.Explanation = pd.Explanation
	ev.Coverage.NotCovered = pd.NotCovered
	ev.Coverage.Rules = map[string]*RuleStat{}
	ev.Coverage.Rule = "obligations are enumerated exhaustively by each rule over the functions / call sites / table entries in its scope on the current working tree; an obligation counts as non-trivial when discharging it needed a flow, dominance, provenance or table-agreement argument (not a syntactic tautology); distinct = distinct construct keys"
	ev.Coverage.CheckerCmd = "/verif/bin/lovcheck -property " + pd.ID + " -tier " + tier
	ev.Coverage.TrustedBase = []string{"go/types", "go/ssa (x/tools v0.29.0)", "frozen rule tables in /verif/checker"}
	ev.Coverage.Samples = []interface{}{}

	p, err := preloaded, error(nil)
	if p == nil {
		p, err = Load(nil)
	}
	if err != nil {
		viol = append(viol, "LOAD-FAILURE: "+err.Error())
		ev.Coverage.Info = append(ev.Coverage.Info, "load failed: "+err.Error())
		return finish(pd, ev, evPath, violPath, viol, nil, start)
	}
	ev.Coverage.Packages = len(p.Pkgs)
	ev.Coverage.Functions = p.NFuncs
	rep := runRules(p, pd.Rules)
	obls := rep.Finish()

	known, kerr := loadKnown(filepath.Join(verifDir, "known_findings.json"))
	if kerr != nil {
		viol = append(viol, "KNOWN-FINDINGS-UNREADABLE: "+kerr.Error())
	}
	knownKeys := map[string]KnownFinding{}
	for _, k := range known {
		if k.Status == "known" && k.Property == pd.ID {
			knownKeys[k.Key] = k
		}
	}

	distinct := map[string]bool{}
	for _, o := range obls {
		st := ev.Coverage.Rules[o.Rule]
		if st == nil {
			st = &RuleStat{}
			ev.Coverage.Rules[o.Rule] = st
		}
		if o.OK {
			ev.Coverage.Discharged++
			if o.Nontrivial {
				distinct[o.Key] = true
			}
		} else {
			st.Violated++
			if k, isKnown := knownKeys[o.Key]; isKnown {
				knownLines = append(knownLines, fmt.Sprintf("KNOWN-FINDING: property=%s %s [%s at %s]", pd.ID, k.What, o.Key, o.Pos))
			} else {
				viol = append(viol, fmt.Sprintf("%s %s %s: %s", o.Pos, o.Rule, o.Key, o.Reason))
			}
		}
		if list {
			status := "ok  "
			if !o.OK {
				status = "FAIL"
			}
			fmt.Printf("%s %-24s %-6s %s\n      %s\n", status, o.Pos, o.Rule, o.Key, o.Reason)
		}
	}
	ev.Coverage.Obligations = len(obls)
	ev.Coverage.Evaluations = len(obls)
	ev.Coverage.DistinctNontrivial = len(distinct)
	ev.Coverage.Exhaustive = true
	for _, id := range pd.Rules {
		rd := rules[id]
		if rd == nil {
			continue
		}
		st := ev.Coverage.Rules[id]
		if st == nil {
			st = &RuleStat{}
			ev.Coverage.Rules[id] = st
		}
		st.Instances = rep.counts[id]
		st.Min = rd.Min
		if st.Instances < rd.Min {
			viol = append(viol, fmt.Sprintf("?:0 %s %s|vacuity: rule matched %d instances, fewer than the %d confirmed on the pinned tree — the rule has lost its anchors", id, id, st.Instances, rd.Min))
		}
	}
	ev.Coverage.Info = append(ev.Coverage.Info, rep.infos...)
	// samples: a spread of obligations, preferring non-trivial ones and violations
	ev.Coverage.Samples = pickSamples(obls, 14)
	ev.Coverage.KnownFindings = knownLines

	// positive controls
	if !noctl {
		ev.Coverage.Controls = runControls(p, pd, rep, tier)
		for _, c := range ev.Coverage.Controls {
			if c.Status != "fired" {
				fmt.Printf("CONTROL-%s: property=%s rule=%s control=%q\n", strings.ToUpper(c.Status), pd.ID, c.Rule, c.Name)
			}
		}
	}
	return finish(pd, ev, evPath, violPath, viol, knownLines, start)
}

func pickSamples(obls []*Obligation, n int) []interface{} {
	var out []interface{}
	perRule := map[string]int{}
	add := func(o *Obligation) {
		out = append(out, map[string]interface{}{"rule": o.Rule, "key": o.Key, "pos": o.Pos, "ok": o.OK, "reason": o.Reason})
	}
	for _, o := range obls {
		if !o.OK && len(out) < n {
			add(o)
		}
	}
	for _, o := range obls {
		if o.OK && o.Nontrivial && perRule[o.Rule] < 2 && len(out) < n*2 {
			perRule[o.Rule]++
			add(o)
		}
	}
	if len(out) == 0 {
		for i, o := range obls {
			if i < 3 {
				add(o)
			}
		}
	}
	if out == nil {
		out = []interface{}{}
	}
	return out
}

func finish(pd *PropDef, ev *Evidence, evPath, violPath string, viol, knownLines []string, start time.Time) int {
	sort.SliceStable(viol, func(i, j int) bool {
		a, b := strings.SplitN(viol[i], " ", 2)[0], strings.SplitN(viol[j], " ", 2)[0]
		if a != b {
			return posLess(a, b)
		}
		return viol[i] < viol[j]
	})
	ev.Violations = len(viol)
	ev.WallS = time.Since(start).Seconds()
	if err := writeJSON(evPath, ev); err != nil {
		fmt.Fprintln(os.Stderr, "cannot write evidence:", err)
		return 2
	}
	fmt.Printf("lovcheck property=%s tier=%s packages=%d functions=%d obligations=%d discharged=%d violations=%d known=%d wall=%.1fs\n",
		pd.ID, ev.Tier, ev.Coverage.Packages, ev.Coverage.Functions, ev.Coverage.Obligations, ev.Coverage.Discharged, len(viol), len(knownLines), ev.WallS)
	for _, id := range sortedKeys(ev.Coverage.Rules) {
		st := ev.Coverage.Rules[id]
		fmt.Printf("  rule %-10s instances=%d (min %d) violated=%d\n", id, st.Instances, st.Min, st.Violated)
	}
	for _, k := range knownLines {
		fmt.Println(k)
	}
	if len(viol) > 0 {
		os.WriteFile(violPath, []byte(strings.Join(viol, "\n")+"\n"), 0o644)
		for _, v := range viol {
			fmt.Println(v)
		}
		fmt.Printf("VIOLATION property=%s replay=%s\n", pd.ID, violPath)
		return 1
	}
	return 0
}

func gc() {
	runtime.GC()
	debug.FreeOSMemory()
}
