package main

import (
	"fmt"
	"go/constant"
	"go/token"
	"go/types"
	"sort"
	"strings"

	"golang.org/x/tools/go/ssa"
)

// More rules added after the second round of independently seeded changes
// (DESIGN.md §8b): T-DELROWS, DEL-TRACK, X6, K5, N-ALLOPS, N-ITER, PM-ALL, D-WRITE.

func loadOfField(v ssa.Value, fld *types.Var) bool {
	ld, ok := v.(*ssa.UnOp)
	if !ok || ld.Op != token.MUL {
		return false
	}
	fa, ok := ld.X.(*ssa.FieldAddr)
	return ok && fieldOfAddr(fa) == fld
}

// ruleTDELROWS: rows read from the database inside a transaction are overlaid with
// the rows the transaction has deleted so far.
func ruleTDELROWS(p *Program, r *Reporter) {
	const id = "T-DELROWS"
	del := p.Field("database/transaction", "Transaction", "DeletedRows")
	if del == nil {
		r.Anchor(id, "transaction.Transaction.DeletedRows")
		return
	}
	// functions of the package that read Database.List (directly or through private helpers),
	// taken at the outermost level: a private helper is judged through its caller
	reachesList := func(g *ssa.Function) bool {
		for _, h := range p.Reach(g) {
			for _, b := range h.Blocks {
				for _, ins := range b.Instrs {
					if c, ok := ins.(*ssa.Call); ok && c.Call.IsInvoke() && c.Call.Method.Name() == "List" && isNamed(c.Call.Value.Type(), repoMod+"/database", "Database") {
						return true
					}
				}
			}
		}
		return false
	}
	var cands []*ssa.Function
	for _, fn := range p.srcFuncs {
		if pkgOf(fn) == "database/transaction" && fn.Parent() == nil && reachesList(fn) {
			cands = append(cands, fn)
		}
	}
	// keep those that return a row map and are not private helpers of another candidate
	isRowMap := func(t types.Type) bool {
		m, ok := t.Underlying().(*types.Map)
		return ok && isNamed(m.Elem(), repoMod+"/model", "Model")
	}
	var entries []*ssa.Function
	for _, fn := range cands {
		res := fn.Signature.Results()
		if res.Len() < 1 || !isRowMap(res.At(0).Type()) {
			continue
		}
		private := false
		for _, other := range cands {
			if other != fn && p.PrivateRegion(other)[fn] {
				private = true
			}
		}
		if !private {
			entries = append(entries, fn)
		}
	}
	// a filter event in fn for the map m: the inline loop `for k := range t.DeletedRows { delete(m, k) }`,
	// or a call of a helper that runs that loop on the parameter m is passed as
	filterLoopOn := func(g *ssa.Function, m ssa.Value) *ssa.BasicBlock {
		for _, b2 := range g.Blocks {
			for _, i2 := range b2.Instrs {
				d, ok := i2.(*ssa.Call)
				if !ok {
					continue
				}
				bi, ok := d.Call.Value.(*ssa.Builtin)
				if !ok || bi.Name() != "delete" || len(d.Call.Args) != 2 || d.Call.Args[0] != m {
					continue
				}
				if ex, ok := d.Call.Args[1].(*ssa.Extract); ok {
					if nx, ok := ex.Tuple.(*ssa.Next); ok {
						if rg, ok := nx.Iter.(*ssa.Range); ok && loadOfField(rg.X, del) {
							return nx.Block()
						}
					}
				}
			}
		}
		return nil
	}
	n := 0
	for _, fn := range entries {
		n++
		ok2 := true
		why := "rows deleted earlier in the transaction are removed from every row set this function returns"
		for _, b3 := range fn.Blocks {
			ret, isRet := b3.Instrs[len(b3.Instrs)-1].(*ssa.Return)
			if !isRet || isRecoverBlock(b3) || len(ret.Results) < 2 {
				continue
			}
			if k, isC := retValue(ret, len(ret.Results)-1).(*ssa.Const); !isC || !k.IsNil() {
				continue
			}
			m := retValue(ret, 0)
			if k0, isC0 := m.(*ssa.Const); isC0 && k0.IsNil() {
				continue
			}
			// a filter event on m that dominates this return
			filtered := false
			if h := filterLoopOn(fn, m); h != nil && h.Dominates(b3) {
				filtered = true
			}
			for _, b2 := range fn.Blocks {
				for _, i2 := range b2.Instrs {
					c, ok := i2.(*ssa.Call)
					if !ok {
						continue
					}
					h := c.Call.StaticCallee()
					if h == nil || pkgOf(h) != pkgOf(fn) || len(h.Blocks) == 0 {
						continue
					}
					for ai, a := range c.Call.Args {
						if a == m && ai < len(h.Params) && filterLoopOn(h, h.Params[ai]) != nil {
							if b2.Dominates(b3) && (b2 != b3 || true) {
								filtered = true
							}
						}
					}
				}
			}
			if !filtered {
				ok2 = false
				why = "a successful return of rows is not preceded by the DeletedRows filter: a row deleted earlier in the transaction is still handed to later operations"
			}
		}
		r.Ob(id, funcName(fn), "Database.List overlaid with DeletedRows", fn.Pos(), ok2, true, why)
	}
	if n == 0 {
		r.Anchor(id, "no function of package transaction returns rows read through Database.List")
	}
}

// dependsOnCallOver: does v depend (through its operands) on a call that takes a value derived from field fld?
func dependsOnCallOver(v ssa.Value, fld *types.Var, seen map[ssa.Value]bool, depth int) bool {
	if v == nil || seen[v] || depth > 12 {
		return false
	}
	seen[v] = true
	if c, ok := v.(*ssa.Call); ok {
		for _, a := range c.Call.Args {
			if derivesFromFieldDeep(a, fld, 0) {
				return true
			}
		}
	}
	ins, ok := v.(ssa.Instruction)
	if !ok {
		return false
	}
	for _, op := range ins.Operands(nil) {
		if op != nil && *op != nil && dependsOnCallOver(*op, fld, seen, depth+1) {
			return true
		}
	}
	return false
}

// derivesFromFieldDeep: like derivesFromField but also through call results (x.Table(t) of a cache).
func derivesFromFieldDeep(v ssa.Value, fld *types.Var, depth int) bool {
	if depth > 10 || v == nil {
		return false
	}
	if derivesFromField(v, fld, 0) {
		return true
	}
	if c, ok := v.(*ssa.Call); ok {
		for _, a := range c.Call.Args {
			if derivesFromFieldDeep(a, fld, depth+1) {
				return true
			}
		}
	}
	return false
}

// ruleDELTRACK: whether a row counts as deleted by the transaction depends on the
// update itself, never on what happens to be in the transaction cache.
func ruleDELTRACK(p *Program, r *Reporter) {
	const id = "DEL-TRACK"
	del := p.Field("database/transaction", "Transaction", "DeletedRows")
	cacheF := p.Field("database/transaction", "Transaction", "Cache")
	if del == nil || cacheF == nil {
		r.Anchor(id, "transaction.Transaction.{DeletedRows,Cache}")
		return
	}
	n := 0
	for _, a := range collectAccesses(p, map[*types.Var]bool{del: true}) {
		mu, ok := a.instr.(*ssa.MapUpdate)
		if !ok || a.ctor {
			continue
		}
		// the places where a row is recorded: the store itself and, when it lives in a
		// small recording helper (markDeleted), every call of that helper
		type site struct {
			fn  *ssa.Function
			ins ssa.Instruction
		}
		sites := []site{{a.fn, mu}}
		if a.fn.Parent() == nil && !isExportedEntry(a.fn) {
			for _, cs := range p.CallSitesOf(a.fn) {
				if _, plain := cs.instr.(*ssa.Call); plain {
					sites = append(sites, site{cs.caller, cs.instr})
				}
			}
			if len(sites) > 1 {
				sites = sites[1:] // the helper's own store is unconditional bookkeeping: judged at its callers
				// unless the helper itself tests the cache
				for _, f := range factsAt(mu.Block()) {
					cond, _ := normFact(f)
					if dependsOnCallOver(cond, cacheF, map[ssa.Value]bool{}, 0) {
						sites = append(sites, site{a.fn, mu})
						break
					}
				}
			}
		}
		for _, st := range sites {
			n++
			bad := ""
			for _, f := range factsAt(st.ins.Block()) {
				cond, _ := normFact(f)
				if dependsOnCallOver(cond, cacheF, map[ssa.Value]bool{}, 0) {
					bad = p.Pos(cond.Pos())
				}
			}
			r.Ob(id, funcName(st.fn), "DeletedRows recorded", st.ins.Pos(), bad == "", true,
				ifs(bad == "", "a deleted row is recorded whatever the transaction cache holds",
					"recording a row as deleted is conditional on the contents of the transaction cache (test at "+bad+"): a row the transaction had already touched is not recorded, and the commit-time index check then treats its index values as still taken"))
		}
	}
	if n < 2 {
		r.Anchor(id, fmt.Sprintf("stores into Transaction.DeletedRows: %d, expected >= 2", n))
	}
}

// ruleX6: index values are always computed from the index's own column list, so
// that writers (Create/Update/Delete) and readers (lookups) hash the same way.
func ruleX6(p *Program, r *Reporter) {
	const id = "X6"
	vfi := p.Fn("cache", "", "valueFromIndex")
	cols := p.Field("cache", "indexSpec", "columns")
	if vfi == nil || cols == nil {
		r.Anchor(id, "cache.valueFromIndex / cache.indexSpec.columns")
		return
	}
	ci := getCallIndex(p)
	sites := ci.sites[vfi]
	if len(sites) < 4 {
		r.Anchor(id, fmt.Sprintf("valueFromIndex has %d call sites, expected >= 4", len(sites)))
	}
	for _, s := range sites {
		args := s.instr.(ssa.CallInstruction).Common().Args
		ok := len(args) == 2 && derivesFromField(args[1], cols, 0)
		r.Ob(id, funcName(s.caller), "valueFromIndex columns", s.instr.Pos(), ok, true,
			ifs(ok, "the index value is computed from indexSpec.columns", "the index value is computed from a column list other than the index's own (e.g. in the order the conditions were written): lookups hash differently from the writers and miss existing entries"))
	}
}

// ruleK5: the short (bare atomic type) encoding of a base type is only chosen when
// none of the members the long encoding would emit is set.
func ruleK5(p *Program, r *Reporter) {
	const id = "K5"
	pk := p.Pkgs["ovsdb"]
	enc, _, err := p.funcDecl("ovsdb", "BaseType", "MarshalJSON")
	sa := p.LookupFunc("ovsdb", "BaseType", "simpleAtomic")
	if err != nil || sa == nil {
		r.Anchor(id, "ovsdb.BaseType.MarshalJSON / simpleAtomic")
		return
	}
	c := newCodecCtx(p, pk, enc)
	eh := c.analyseEncoder(enc)
	read := map[string]bool{}
	c.fieldsReadByMethod(sa, 0, read)
	n := 0
	for _, slot := range sortedKeys(eh.slots) {
		if slot == "type" {
			continue
		}
		for f := range eh.slots[slot] {
			n++
			ok := read[f]
			r.Ob(id, "ovsdb.BaseType.simpleAtomic", "member "+slot, sa.Pos(), ok, true,
				ifs(ok, "the short form is refused when "+f+" is set", "simpleAtomic() does not look at "+f+": a base type whose only feature is \""+slot+"\" is encoded as the bare type name and the constraint is lost on a round trip"))
		}
	}
	if n < 8 {
		r.Anchor(id, fmt.Sprintf("BaseType encoder: %d constraint members, expected >= 8", n))
	}
	// ColumnType.MarshalJSON uses simpleAtomic together with its own three optional members
	ct, _, err := p.funcDecl("ovsdb", "ColumnType", "MarshalJSON")
	if err == nil {
		txt := p.text(ct.Body)
		for _, f := range []string{"c.Value", "c.max", "c.min", "simpleAtomic()"} {
			first := txt
			if i := strings.Index(txt, "return"); i > 0 {
				first = txt[:i]
			}
			ok := strings.Contains(first, f)
			r.Ob(id, "ovsdb.ColumnType.MarshalJSON", "short form tests "+f, ct.Pos(), ok, false, ifs(ok, "tested before choosing the bare form", "the bare type form is chosen without testing "+f))
		}
	}
}

// startsAtZero: idx is a loop induction variable whose first value is 0.
func startsAtZero(v ssa.Value) bool {
	switch x := v.(type) {
	case *ssa.BinOp: // range: phi(-1, this)+1
		if x.Op == token.ADD {
			if k, ok := constInt(x.Y); ok && k == 1 {
				if ph, ok := x.X.(*ssa.Phi); ok {
					for _, e := range ph.Edges {
						if e == ssa.Value(x) {
							continue
						}
						if c, ok := constInt(e); !ok || c != -1 {
							return false
						}
					}
					return true
				}
			}
		}
	case *ssa.Phi: // for i := 0; ...; i++
		sawZero := false
		for _, e := range x.Edges {
			if c, ok := constInt(e); ok {
				if c != 0 {
					return false
				}
				sawZero = true
				continue
			}
			bo, ok := e.(*ssa.BinOp)
			if !ok || bo.Op != token.ADD || bo.X != ssa.Value(x) {
				return false
			}
		}
		return sawZero
	}
	return false
}

// ruleNALLOPS: both passes of ExpandNamedUUIDs visit every operation.
func ruleNALLOPS(p *Program, r *Reporter) {
	const id = "N-ALLOPS"
	root := p.Fn("ovsdb", "", "ExpandNamedUUIDs")
	if root == nil || len(root.Params) == 0 {
		r.Anchor(id, "ovsdb.ExpandNamedUUIDs")
		return
	}
	n := 0
	for fn := range p.PrivateRegion(root) {
		for _, ops := range fn.Params {
			sl, ok := ops.Type().Underlying().(*types.Slice)
			if !ok || !isNamed(sl.Elem(), repoMod+"/ovsdb", "Operation") {
				continue
			}
			for _, b := range fn.Blocks {
				for _, ins := range b.Instrs {
					ia, ok := ins.(*ssa.IndexAddr)
					if !ok || ia.X != ssa.Value(ops) {
						continue
					}
					if _, isC := ia.Index.(*ssa.Const); isC {
						continue
					}
					n++
					ok2 := startsAtZero(ia.Index)
					r.Ob(id, funcName(fn), "loop over ops", ia.Pos(), ok2, true,
						ifs(ok2, "the loop visits the operations from the first one", "the loop over the operations does not start at the first operation: names used in the skipped operations stay unresolved (and their tables/columns unvalidated)"))
				}
			}
		}
	}
	if n < 2 {
		r.Anchor(id, fmt.Sprintf("ExpandNamedUUIDs and its helpers index ops in %d loops, expected 2", n))
	}
}

// ruleNITER: api.Create builds each model's insert from that model only: the only
// values carried from one iteration to the next are the loop index and the result list.
func ruleNITER(p *Program, r *Reporter) {
	const id = "N-ITER"
	fn := p.Fn("client", "api", "Create")
	if fn == nil {
		r.Anchor(id, "client.(api).Create")
		return
	}
	n := 0
	for _, b := range fn.Blocks {
		isHeader := false
		for _, pr := range b.Preds {
			if b.Dominates(pr) {
				isHeader = true
			}
		}
		if !isHeader {
			continue
		}
		for _, ins := range b.Instrs {
			ph, ok := ins.(*ssa.Phi)
			if !ok {
				continue
			}
			n++
			t := ph.Type()
			okT := false
			if bt, isB := t.Underlying().(*types.Basic); isB && bt.Info()&types.IsInteger != 0 {
				okT = true
			}
			if sl, isS := t.Underlying().(*types.Slice); isS && isNamed(sl.Elem(), repoMod+"/ovsdb", "Operation") {
				okT = true
			}
			name := ph.Comment
			if name == "" {
				name = ph.Name()
			}
			r.Ob(id, funcName(fn), "loop-carried "+typeStr(t), ph.Pos(), okT, true,
				ifs(okT, "loop index / result list", "variable "+name+" ("+typeStr(t)+") keeps its value from the previous model: a model without its own uuid / name inherits the previous model's, so two inserts claim one name or one row's uuid"))
		}
	}
	if n < 1 {
		r.Anchor(id, "api.Create has no loop over the models")
	}
}

// rulePMALL: the notification loops have no early exit.
func rulePMALL(p *Program, r *Reporter) {
	const id = "PM-ALL"
	fn := p.Fn("server", "OvsdbServer", "processMonitors")
	if fn == nil {
		r.Anchor(id, "server.(*OvsdbServer).processMonitors")
		return
	}
	n := 0
	// the loops may live in a closure handed to a locking helper, or in a private helper
	type hdr struct {
		fn *ssa.Function
		h  *ssa.BasicBlock
	}
	var hdrs []hdr
	for _, g := range sortedFuncs(p.PrivateRegion(fn)) {
		for _, h := range g.Blocks {
			for _, pr := range h.Preds {
				if h.Dominates(pr) {
					hdrs = append(hdrs, hdr{g, h})
					break
				}
			}
		}
	}
	root := fn
	for _, hd := range hdrs {
		fn, h := hd.fn, hd.h
		n++
		exits := 0
		var where token.Pos
		for _, b := range fn.Blocks {
			if !inLoopOf(h, b) || b == h {
				continue
			}
			for _, s := range b.Succs {
				if !inLoopOf(h, s) {
					exits++
					if len(b.Instrs) > 0 {
						where = b.Instrs[len(b.Instrs)-1].Pos()
					}
				}
			}
		}
		pos := fn.Pos()
		if len(h.Instrs) > 0 && h.Instrs[0].Pos().IsValid() {
			pos = h.Instrs[0].Pos()
		}
		if exits > 0 && where.IsValid() {
			pos = where
		}
		r.Ob(id, funcName(fn), "loop without early exit", pos, exits == 0, true,
			ifs(exits == 0, "the loop only ends when every connection / monitor was visited", "the notification loop can be left early (break/return inside the loop): monitors that Go's map iteration visits later miss the transaction"))
	}
	_ = root
	if n < 2 {
		r.Anchor(id, fmt.Sprintf("processMonitors has %d loops, expected 2", n))
	}
}

// ruleDWRITE: generated files are written whole (truncating), never patched in place.
func ruleDWRITE(p *Program, r *Reporter) {
	const id = "D-WRITE"
	n := 0
	for _, fn := range p.srcFuncs {
		if pkgOf(fn) != "modelgen" {
			continue
		}
		for _, b := range fn.Blocks {
			for _, ins := range b.Instrs {
				c, ok := ins.(ssa.CallInstruction)
				if !ok {
					continue
				}
				sc := c.Common().StaticCallee()
				if sc == nil || sc.Pkg == nil {
					continue
				}
				full := sc.String()
				switch {
				case full == "io/ioutil.WriteFile" || full == "os.WriteFile" || full == "os.Create":
					n++
					r.Ob(id, funcName(fn), sc.Name(), ins.Pos(), true, true, "whole-file write: previous content cannot survive")
				case full == "os.OpenFile":
					n++
					trunc := false
					if len(c.Common().Args) >= 2 {
						if k, ok := c.Common().Args[1].(*ssa.Const); ok && k.Value != nil && k.Value.Kind() == constant.Int {
							v, _ := constant.Int64Val(k.Value)
							trunc = v&0x200 != 0 // os.O_TRUNC on linux
						}
					}
					r.Ob(id, funcName(fn), "os.OpenFile", ins.Pos(), trunc, true, ifs(trunc, "opened with O_TRUNC", "output file opened without O_TRUNC: when the new content is shorter the tail of the previous file survives and the generated file no longer compiles"))
				case strings.HasPrefix(full, "(*os.File).Write"):
					n++
					// acceptable only on a file that was created/truncated in this function
					okW := false
					if recv := c.Common().Args[0]; recv != nil {
						if ex, isEx := recv.(*ssa.Extract); isEx {
							if oc, isCall := ex.Tuple.(*ssa.Call); isCall && oc.Call.StaticCallee() != nil {
								switch oc.Call.StaticCallee().String() {
								case "os.Create":
									okW = true
								case "os.OpenFile":
									if k, ok := oc.Call.Args[1].(*ssa.Const); ok && k.Value != nil {
										v, _ := constant.Int64Val(k.Value)
										okW = v&0x200 != 0
									}
								}
							}
						}
					}
					r.Ob(id, funcName(fn), sc.Name(), ins.Pos(), okW, true, ifs(okW, "written to a freshly truncated file", "the generator writes into an existing file without truncating it first"))
				}
			}
		}
	}
	if n == 0 {
		r.Anchor(id, "package modelgen writes no file")
	}
	_ = sort.Strings
}

// dynTypeKnown: on every path to `at`, interface value v has passed a successful
// comma-ok assertion (type-switch arm) to a type satisfying pred.
func (fc *flowCtx) dynTypeKnown(v ssa.Value, at ssa.Instruction, pred func(types.Type) bool) bool {
	okEdge := func(pr, succ *ssa.BasicBlock) bool {
		facts := factsAt(pr)
		if len(pr.Instrs) > 0 {
			if iff, ok := pr.Instrs[len(pr.Instrs)-1].(*ssa.If); ok && len(pr.Succs) == 2 && pr.Succs[0] != pr.Succs[1] {
				facts = append(facts, edgeFact{iff.Cond, pr.Succs[0] == succ, pr})
			}
		}
		for _, f := range facts {
			c, truth := normFact(f)
			if !truth {
				continue
			}
			ex, ok := c.(*ssa.Extract)
			if !ok || ex.Index != 1 {
				continue
			}
			ta, ok := ex.Tuple.(*ssa.TypeAssert)
			if !ok || !ta.CommaOk || !pred(ta.AssertedType) {
				continue
			}
			if fc.valEquiv(ta.X, v, ta, at, 0) {
				return true
			}
		}
		return false
	}
	for d := at.Block(); d != nil; d = d.Idom() {
		if len(d.Preds) == 0 {
			continue
		}
		all := true
		for _, pr := range d.Preds {
			if !okEdge(pr, d) {
				all = false
				break
			}
		}
		if all {
			return true
		}
	}
	return false
}

// sameObject: two result values denote the same object (same SSA value, or
// Interface() of the same reflect.Value).
func sameObject(a, b ssa.Value) bool {
	if a == b {
		return true
	}
	ca, ok1 := a.(*ssa.Call)
	cb, ok2 := b.(*ssa.Call)
	if ok1 && ok2 {
		sa, sb := ca.Call.StaticCallee(), cb.Call.StaticCallee()
		if sa != nil && sa == sb && sa.Pkg != nil && sa.Pkg.Pkg.Path() == "reflect" && sa.Name() == "Interface" && len(ca.Call.Args) == 1 {
			return sameValueLoose(ca.Call.Args[0], cb.Call.Args[0]) || ca.Call.Args[0] == cb.Call.Args[0]
		}
	}
	return false
}

// ruleA3DISTINCT: the (new value, difference) pair returned by the mutation
// helpers never is one mutable object in both positions: the first is stored
// in the model, the second is accumulated and later merged in place.
func ruleA3DISTINCT(p *Program, r *Reporter) {
	const id = "A3-DISTINCT"
	n := 0
	refFree := func(t types.Type) bool { return isRefFree(t, 0) }
	for _, fn := range p.srcFuncs {
		if pkgOf(fn) != "updates" || fn.Parent() != nil || inPlaceArgOf(fn) < 0 {
			continue
		}
		if fn.Signature.Results().Len() != 2 {
			continue
		}
		if _, isIface := fn.Signature.Results().At(1).Type().Underlying().(*types.Interface); !isIface {
			continue
		}
		fc := newFlowCtx(fn)
		for _, b := range fn.Blocks {
			ret, ok := b.Instrs[len(b.Instrs)-1].(*ssa.Return)
			if !ok || isRecoverBlock(b) {
				continue
			}
			n++
			a, d := retValue(ret, 0), retValue(ret, 1)
			if !sameObject(a, d) || isNilConst(a) {
				r.Ob(id, funcName(fn), "new value and difference", retPos(ret, fn), true, false, "two distinct values")
				continue
			}
			// only an *input* object handed back twice is in scope; results of the arithmetic
			// helpers are numbers by the ValidateMutation gate (arithmetic on a set column is
			// rejected before mutate runs — checked by reproduction, see DESIGN.md §7 #17)
			src := map[*ssa.Parameter]bool{}
			reflectSrcParams(a, map[ssa.Value]bool{}, 0, src)
			if len(src) == 0 {
				r.Ob(id, funcName(fn), "new value and difference", retPos(ret, fn), true, false, "result of a helper call, not one of the inputs")
				continue
			}
			ok2 := fc.dynTypeKnown(a, ret, refFree)
			r.Ob(id, funcName(fn), "new value and difference", retPos(ret, fn), ok2, true,
				ifs(ok2, "the same value is returned twice only where its dynamic type is a number/string/bool (immutable)",
					"the same slice/map is returned both as the column's new value (stored in the model) and as the difference (accumulated and merged in place by the next mutation of that column): a second mutation of the column corrupts both"))
		}
	}
	if n < 10 {
		r.Anchor(id, fmt.Sprintf("mutation helpers: %d returns, expected >= 10", n))
	}
}

// ruleX7: validate, then write — in Create/Update/Delete no error can be returned
// once the first index or row entry has been written (an error leaves the cache unchanged).
func ruleX7(p *Program, r *Reporter) {
	const id = "X7"
	idx := p.Field("cache", "RowCache", "indexes")
	rows := p.Field("cache", "RowCache", "cache")
	if idx == nil || rows == nil {
		r.Anchor(id, "cache.RowCache.{indexes,cache}")
		return
	}
	n := 0
	for _, name := range []string{"Create", "Update", "Delete"} {
		fn := p.Fn("cache", "RowCache", name)
		if fn == nil {
			r.Anchor(id, "cache.(*RowCache)."+name)
			continue
		}
		region := p.PrivateRegion(fn)
		writes := func(g *ssa.Function) bool {
			for _, b := range g.Blocks {
				for _, ins := range b.Instrs {
					var target ssa.Value
					switch x := ins.(type) {
					case *ssa.MapUpdate:
						target = x.Map
					case *ssa.Call:
						if bi, ok := x.Call.Value.(*ssa.Builtin); ok && bi.Name() == "delete" {
							target = x.Call.Args[0]
						}
					}
					if target != nil {
						if f := rootField(target, 0); (f == idx || f == rows) && !baseOfFieldIsLocal(target) {
							return true
						}
					}
				}
			}
			return false
		}
		// write events in the operation: direct writes, or calls to private helpers that write
		var events []ssa.Instruction
		for _, b := range fn.Blocks {
			for _, ins := range b.Instrs {
				switch x := ins.(type) {
				case *ssa.MapUpdate:
					if f := rootField(x.Map, 0); (f == idx || f == rows) && !baseOfFieldIsLocal(x.Map) {
						events = append(events, ins)
					}
				case *ssa.Call:
					if bi, ok := x.Call.Value.(*ssa.Builtin); ok && bi.Name() == "delete" {
						if f := rootField(x.Call.Args[0], 0); f == idx || f == rows {
							events = append(events, ins)
						}
						continue
					}
					if g := x.Call.StaticCallee(); g != nil && g != fn && region[g] && writes(g) {
						events = append(events, ins)
					}
				}
			}
		}
		fc := newFlowCtx(fn)
		for _, b := range fn.Blocks {
			ret, ok := b.Instrs[len(b.Instrs)-1].(*ssa.Return)
			if !ok || isRecoverBlock(b) || !returnsNonNilError(b) {
				continue
			}
			n++
			var after ssa.Instruction
			for _, w := range events {
				if fc.canFollow(w, ret) {
					after = w
				}
			}
			r.Ob(id, funcName(fn), "error return", retPos(ret, fn), after == nil, true,
				ifs(after == nil, "no index or row entry has been written when this error is returned",
					"an error can be returned after an index/row entry was already written ("+fn.Prog.Fset.Position(posOrZero(after)).String()+"): a rejected "+name+" leaves index entries behind for a row that is not in the cache"))
		}
	}
	if n < 5 {
		r.Anchor(id, fmt.Sprintf("Create/Update/Delete: %d error returns, expected >= 5", n))
	}
}

func posOrZero(i ssa.Instruction) token.Pos {
	if i == nil {
		return token.NoPos
	}
	return i.Pos()
}

// ruleSLOOP: in the monitor filter, what is selected for one table does not leak into the
// next: containers written inside the per-table loop are created inside it (only the
// result being built may be carried across iterations).
func ruleSLOOP(p *Program, r *Reporter) {
	const id = "S-LOOP"
	n := 0
	for _, name := range []string{"filter", "filter2"} {
		fn := p.Fn("server", "monitor", name)
		if fn == nil {
			r.Anchor(id, "server.(*monitor)."+name)
			continue
		}
		// outermost loop headers
		var headers []*ssa.BasicBlock
		for _, b := range fn.Blocks {
			for _, pr := range b.Preds {
				if b.Dominates(pr) {
					headers = append(headers, b)
					break
				}
			}
		}
		returned := map[ssa.Value]bool{}
		for _, b := range fn.Blocks {
			if ret, ok := b.Instrs[len(b.Instrs)-1].(*ssa.Return); ok {
				for i := range ret.Results {
					returned[retValue(ret, i)] = true
				}
			}
		}
		check := func(mu ssa.Instruction, m ssa.Value, g *ssa.Function) {
			// resolve captured containers to their creation in fn
			var mk ssa.Value = m
			if ld, ok := m.(*ssa.UnOp); ok {
				if fv, ok := ld.X.(*ssa.FreeVar); ok {
					mk = resolveFreeVarCell(fv)
				} else if al, ok := ld.X.(*ssa.Alloc); ok {
					cnt := 0
					if refs := al.Referrers(); refs != nil {
						for _, ref := range *refs {
							if st, ok := ref.(*ssa.Store); ok && st.Addr == al {
								mk = st.Val
								cnt++
							}
						}
					}
					if cnt != 1 {
						mk = nil
					}
				}
			} else if fv, ok := m.(*ssa.FreeVar); ok {
				mk = resolveFreeVarValue(fv)
			}
			mm, ok := mk.(*ssa.MakeMap)
			if !ok || mm.Parent() != fn || returned[mm] {
				return
			}
			// the write happens inside some loop of fn (directly, or in a closure created in that loop)
			var at *ssa.BasicBlock
			if g == fn {
				at = mu.Block()
			} else {
				for _, b := range fn.Blocks {
					for _, ins := range b.Instrs {
						if mc, ok := ins.(*ssa.MakeClosure); ok && mc.Fn == g {
							at = b
						}
					}
				}
			}
			if at == nil {
				return
			}
			for _, h := range headers {
				if inLoopOf(h, at) {
					n++
					inside := inLoopOf(h, mm.Block())
					r.Ob(id, funcName(fn), "per-iteration container", mu.Pos(), inside, true,
						ifs(inside, "the container written in the loop is created in the same iteration", "a container written inside the per-table loop is created outside it and is not the result: what was selected for one table is still there for the next (columns leak between tables)"))
					return
				}
			}
		}
		for _, g := range append([]*ssa.Function{fn}, fn.AnonFuncs...) {
			for _, b := range g.Blocks {
				for _, ins := range b.Instrs {
					if mu, ok := ins.(*ssa.MapUpdate); ok {
						check(mu, mu.Map, g)
					}
				}
			}
		}
		// the per-table loop may live in a helper that calls a closure of fn once per table:
		// then that closure is the iteration, and what it writes must be created inside it
		for _, b := range fn.Blocks {
			for _, ins := range b.Instrs {
				c, ok := ins.(*ssa.Call)
				if !ok {
					continue
				}
				callee := c.Call.StaticCallee()
				if callee == nil || pkgOf(callee) != "server" || len(callee.Blocks) == 0 {
					continue
				}
				for ai, a := range c.Call.Args {
					mc, ok := a.(*ssa.MakeClosure)
					if !ok || ai >= len(callee.Params) || !paramCalledInLoop(callee, ai) {
						continue
					}
					body, _ := mc.Fn.(*ssa.Function)
					if body == nil {
						continue
					}
					inBody := map[*ssa.Function]bool{body: true}
					for _, an := range body.AnonFuncs {
						inBody[an] = true
					}
					for g := range inBody {
						for _, gb := range g.Blocks {
							for _, gi := range gb.Instrs {
								mu, ok := gi.(*ssa.MapUpdate)
								if !ok {
									continue
								}
								var mk ssa.Value = mu.Map
								if ld, ok := mk.(*ssa.UnOp); ok {
									if fv, ok := ld.X.(*ssa.FreeVar); ok {
										mk = resolveFreeVarCell(fv)
										// a cell of the iteration closure captured by a nested closure
									} else if al, ok := ld.X.(*ssa.Alloc); ok {
										mk = nil
										if refs := al.Referrers(); refs != nil {
											for _, ref := range *refs {
												if st, ok := ref.(*ssa.Store); ok && st.Addr == al {
													mk = st.Val
												}
											}
										}
									}
								} else if fv, ok := mk.(*ssa.FreeVar); ok {
									mk = resolveFreeVarValue(fv)
								}
								mm, ok := mk.(*ssa.MakeMap)
								if !ok || returned[mm] {
									continue
								}
								n++
								inside := inBody[mm.Parent()]
								r.Ob(id, funcName(fn), "per-iteration container", mu.Pos(), inside, true,
									ifs(inside, "the container written by the per-table callback is created inside it", "a container written by the per-table callback is created outside it and is not the result: what was selected for one table is still there for the next (columns leak between tables)"))
							}
						}
					}
				}
			}
		}
	}
	if n < 1 {
		r.Anchor(id, fmt.Sprintf("filter/filter2: %d in-loop container writes, expected >= 1", n))
	}
}

// paramCalledInLoop: parameter idx of fn (a function value) is called inside a loop of fn.
func paramCalledInLoop(fn *ssa.Function, idx int) bool {
	if idx >= len(fn.Params) {
		return false
	}
	prm := fn.Params[idx]
	for _, b := range fn.Blocks {
		if loopHeaderOf(b) == nil {
			continue
		}
		for _, ins := range b.Instrs {
			if c, ok := ins.(*ssa.Call); ok && c.Call.Value == ssa.Value(prm) {
				return true
			}
		}
	}
	return false
}

// resolveFreeVarCell: for a captured variable (by reference), the single value stored into its cell in the parent.
func resolveFreeVarCell(fv *ssa.FreeVar) ssa.Value {
	fn := fv.Parent()
	parent := fn.Parent()
	if parent == nil {
		return nil
	}
	idx := -1
	for i, x := range fn.FreeVars {
		if x == fv {
			idx = i
		}
	}
	for _, b := range parent.Blocks {
		for _, ins := range b.Instrs {
			if mc, ok := ins.(*ssa.MakeClosure); ok && mc.Fn == fn && idx >= 0 && idx < len(mc.Bindings) {
				if al, ok := mc.Bindings[idx].(*ssa.Alloc); ok {
					var val ssa.Value
					cnt := 0
					if refs := al.Referrers(); refs != nil {
						for _, ref := range *refs {
							if st, ok := ref.(*ssa.Store); ok && st.Addr == al {
								val = st.Val
								cnt++
							}
						}
					}
					if cnt == 1 {
						return val
					}
				}
			}
		}
	}
	return nil
}

// resolveFreeVarValue: for a variable captured by value, the bound value in the parent.
func resolveFreeVarValue(fv *ssa.FreeVar) ssa.Value {
	fn := fv.Parent()
	parent := fn.Parent()
	if parent == nil {
		return nil
	}
	idx := -1
	for i, x := range fn.FreeVars {
		if x == fv {
			idx = i
		}
	}
	for _, b := range parent.Blocks {
		for _, ins := range b.Instrs {
			if mc, ok := ins.(*ssa.MakeClosure); ok && mc.Fn == fn && idx >= 0 && idx < len(mc.Bindings) {
				return mc.Bindings[idx]
			}
		}
	}
	return nil
}

// ruleTINITREFS: before a row's reference changes are applied to the tracker's index, the
// existing references of every row they touch have been loaded from the database.
func ruleTINITREFS(p *Program, r *Reporter) {
	const id = "T-INITREFS"
	fn := p.Fn("updates", "referenceTracker", "processRowUpdate")
	apply := p.Fn("updates", "", "applyReferenceModifications")
	initR := p.Fn("updates", "referenceTracker", "initReferences")
	if fn == nil || apply == nil || initR == nil {
		r.Anchor(id, "updates.(*referenceTracker).processRowUpdate / applyReferenceModifications / initReferences")
		return
	}
	n := 0
	for _, g := range p.Reach(fn) {
		for _, b := range g.Blocks {
			for _, ins := range b.Instrs {
				c, ok := ins.(*ssa.Call)
				if !ok || c.Call.StaticCallee() != apply {
					continue
				}
				if _, ok2 := c.Call.Args[0].(*ssa.UnOp); !ok2 {
					continue
				}
				n++
				// a loop calling initReferences whose header dominates this call
				ok3 := false
				for _, b2 := range g.Blocks {
					for _, i2 := range b2.Instrs {
						if c2, ok := i2.(*ssa.Call); ok && c2.Call.StaticCallee() == initR {
							// any enclosing loop of the initReferences call that is completed before the apply
							for _, h := range g.Blocks {
								isHeader := false
								for _, pr := range h.Preds {
									if h.Dominates(pr) {
										isHeader = true
									}
								}
								if isHeader && inLoopOf(h, b2) && h.Dominates(b) && !inLoopOf(h, b) {
									ok3 = true
								}
							}
						}
					}
				}
				r.Ob(id, funcName(g), "references initialised before they are modified", c.Pos(), ok3, true,
					ifs(ok3, "every path to the in-place modification of the tracker's index passes the loop that loads the rows' existing references", "reference changes are applied to the tracker's index on a path that did not load the existing references first: referrers already in the database are forgotten at commit, and a row that is still referenced is later garbage collected"))
			}
		}
	}
	if n == 0 {
		r.Anchor(id, "processRowUpdate never applies reference modifications")
	}
}

// sortedFuncs: the functions of a set in a stable order (by position).
func sortedFuncs(set map[*ssa.Function]bool) []*ssa.Function {
	var out []*ssa.Function
	for f := range set {
		out = append(out, f)
	}
	sort.Slice(out, func(i, j int) bool {
		if out[i].Pos() != out[j].Pos() {
			return out[i].Pos() < out[j].Pos()
		}
		return out[i].String() < out[j].String()
	})
	return out
}
