package main

import (
	"fmt"
	"go/ast"
	"go/constant"
	"go/token"
	"go/types"
	"sort"
	"strings"

	"golang.org/x/tools/go/ssa"
)

// E6 — exhaustiveness of sibling tables over the repository's constant groups.

type constGroup struct {
	name   string
	consts []*types.Const
	byVal  map[string]*types.Const
}

// constGroups reads the groups from their declarations in package ovsdb.
func constGroups(p *Program) map[string]*constGroup {
	pk := p.Pkgs["ovsdb"]
	groups := map[string]*constGroup{}
	add := func(g string, c *types.Const) {
		if groups[g] == nil {
			groups[g] = &constGroup{name: g, byVal: map[string]*types.Const{}}
		}
		groups[g].consts = append(groups[g].consts, c)
		groups[g].byVal[constant.StringVal(c.Val())] = c
	}
	sc := pk.Types.Scope()
	for _, n := range sc.Names() {
		c, ok := sc.Lookup(n).(*types.Const)
		if !ok || c.Val().Kind() != constant.String {
			continue
		}
		switch tn := typeStr(c.Type()); {
		case tn == "ovsdb.Mutator":
			add("mutator", c)
		case tn == "ovsdb.ConditionFunction":
			add("condition", c)
		case tn == "ovsdb.WaitCondition":
			add("waitcond", c)
		case tn == "ovsdb.ExtendedType":
			add("exttype", c)
			switch c.Name() {
			case "TypeEnum", "TypeMap", "TypeSet":
			default:
				add("atomic", c)
			}
		case strings.HasPrefix(n, "Operation") && (tn == "untyped string" || tn == "string"):
			add("operation", c)
		}
	}
	for _, g := range groups {
		sort.Slice(g.consts, func(i, j int) bool { return g.consts[i].Pos() < g.consts[j].Pos() })
	}
	return groups
}

// mentioned collects the group constants that a function handles explicitly:
// case labels, operands of == / !=, map-literal keys — by constant value for
// untyped/string literals of the right type, by object otherwise.
func mentionedConsts(info *types.Info, body ast.Node, g *constGroup) map[*types.Const]token.Pos {
	out := map[*types.Const]token.Pos{}
	match := func(e ast.Expr) {
		e = ast.Unparen(e)
		// named constant
		var id *ast.Ident
		switch x := e.(type) {
		case *ast.Ident:
			id = x
		case *ast.SelectorExpr:
			id = x.Sel
		}
		if id != nil {
			if c, ok := info.Uses[id].(*types.Const); ok {
				for _, gc := range g.consts {
					if gc == c {
						out[gc] = e.Pos()
						return
					}
				}
			}
		}
		// literal with the same value (e.g. case "select":)
		if bl, ok := e.(*ast.BasicLit); ok && bl.Kind == token.STRING {
			if tv, ok := info.Types[e]; ok && tv.Value != nil && tv.Value.Kind() == constant.String {
				if gc, ok := g.byVal[constant.StringVal(tv.Value)]; ok {
					out[gc] = e.Pos()
				}
			}
		}
	}
	ast.Inspect(body, func(n ast.Node) bool {
		switch x := n.(type) {
		case *ast.CaseClause:
			for _, e := range x.List {
				match(e)
			}
		case *ast.BinaryExpr:
			if x.Op == token.EQL || x.Op == token.NEQ {
				// a literal only stands for a constant of the group when the value it is
				// compared with can be of the group's type ("delete" == Mutator is not an operation)
				if literalCompatible(info, x.Y, g) {
					match(x.X)
				}
				if literalCompatible(info, x.X, g) {
					match(x.Y)
				}
			}
		case *ast.CompositeLit:
			for _, el := range x.Elts {
				if kv, ok := el.(*ast.KeyValueExpr); ok {
					match(kv.Key)
				}
			}
		}
		return true
	})
	return out
}

type exhaustSite struct {
	pkg, recv, name string
	group           string
	// also: additional functions whose mentions are united with this one (helper split)
	with [][3]string
	// exclude: constants deliberately not handled at this site, with reason
	exclude map[string]string
}

// frozen site table: each site was read on the pinned tree and handles every
// constant of its group except the named exclusions.
var exhaustSites = []exhaustSite{
	{pkg: "database/transaction", recv: "Transaction", name: "Transact", group: "operation"},
	{pkg: "ovsdb", recv: "DatabaseSchema", name: "ValidateOperations", group: "operation",
		exclude: map[string]string{"OperationCommit": "no table to validate", "OperationAbort": "no table to validate", "OperationComment": "no table to validate", "OperationAssert": "no table to validate"}},
	{pkg: "updates", recv: "ModelUpdates", name: "AddOperation", group: "operation",
		exclude: map[string]string{"OperationSelect": "produces no update", "OperationWait": "produces no update", "OperationCommit": "produces no update", "OperationAbort": "produces no update", "OperationComment": "produces no update", "OperationAssert": "produces no update"}},
	{pkg: "ovsdb", recv: "Mutation", name: "UnmarshalJSON", group: "mutator"},
	{pkg: "updates", recv: "", name: "mutate", group: "mutator"},
	{pkg: "ovsdb", recv: "", name: "ValidateMutation", group: "mutator", with: [][3]string{{"ovsdb", "", "validateMutationAtomic"}}},
	{pkg: "ovsdb", recv: "Condition", name: "UnmarshalJSON", group: "condition"},
	{pkg: "ovsdb", recv: "ConditionFunction", name: "Evaluate", group: "condition", with: [][3]string{{"ovsdb", "ConditionFunction", "evaluate"}}},
	{pkg: "ovsdb", recv: "", name: "ValidateCondition", group: "condition",
		exclude: map[string]string{"ConditionLessThan": "ordering functions are only accepted through the numeric catch-all arm", "ConditionLessThanOrEqual": "ordering functions are only accepted through the numeric catch-all arm", "ConditionGreaterThan": "ordering functions are only accepted through the numeric catch-all arm", "ConditionGreaterThanOrEqual": "ordering functions are only accepted through the numeric catch-all arm"}},
	{pkg: "ovsdb", recv: "", name: "ValidateCondition", group: "exttype"},
	{pkg: "database/transaction", recv: "Transaction", name: "Wait", group: "waitcond"},
	{pkg: "ovsdb", recv: "", name: "NativeType", group: "exttype"},
	{pkg: "ovsdb", recv: "", name: "OvsToNative", group: "exttype"},
	{pkg: "ovsdb", recv: "", name: "NativeToOvs", group: "exttype"},
	{pkg: "ovsdb", recv: "", name: "IsDefaultValue", group: "exttype", with: [][3]string{{"ovsdb", "", "isDefaultBaseValue"}},
		exclude: map[string]string{"TypeBoolean": "a boolean has no detectable default: false is deliberately reported as non-default by the default arm"}},
	{pkg: "ovsdb", recv: "ColumnSchema", name: "String", group: "exttype"},
	{pkg: "modelgen", recv: "", name: "fieldType", group: "exttype",
		exclude: map[string]string{"TypeInteger": "default arm delegates to AtomicType (a site of its own)", "TypeReal": "default arm delegates to AtomicType (a site of its own)", "TypeBoolean": "default arm delegates to AtomicType (a site of its own)", "TypeString": "default arm delegates to AtomicType (a site of its own)", "TypeUUID": "default arm delegates to AtomicType (a site of its own)"}},
	{pkg: "ovsdb", recv: "", name: "NativeTypeFromAtomic", group: "atomic"},
	{pkg: "ovsdb", recv: "", name: "OvsToNativeAtomic", group: "atomic"},
	{pkg: "ovsdb", recv: "", name: "isAtomicType", group: "atomic"},
	{pkg: "modelgen", recv: "", name: "AtomicType", group: "atomic"},
}

func ruleE6(p *Program, r *Reporter) {
	const id = "E6"
	groups := constGroups(p)
	want := map[string]int{"operation": 10, "mutator": 7, "condition": 8, "waitcond": 2, "exttype": 8, "atomic": 5}
	for g, n := range want {
		if groups[g] == nil || len(groups[g].consts) < n {
			got := 0
			if groups[g] != nil {
				got = len(groups[g].consts)
			}
			r.Anchor(id, fmt.Sprintf("constant group %s has %d members, expected at least %d", g, got, n))
		}
	}
	for _, s := range exhaustSites {
		g := groups[s.group]
		if g == nil {
			continue
		}
		fd, _, err := p.funcDecl(s.pkg, s.recv, s.name)
		if err != nil {
			r.Anchor(id, "site "+s.pkg+"."+s.recv+"."+s.name)
			continue
		}
		// the site is the function together with the same-package helpers it calls
		// and the package-level lookup tables it consults
		ment := map[*types.Const]token.Pos{}
		for _, nd := range p.siteNodes(s.pkg, s.recv, s.name) {
			for c, pos := range mentionedConsts(p.Pkgs[s.pkg].TypesInfo, nd, g) {
				if _, ok := ment[c]; !ok {
					ment[c] = pos
				}
			}
		}
		for _, w := range s.with {
			for _, nd := range p.siteNodes(w[0], w[1], w[2]) {
				for c, pos := range mentionedConsts(p.Pkgs[w[0]].TypesInfo, nd, g) {
					if _, ok := ment[c]; !ok {
						ment[c] = pos
					}
				}
			}
		}
		fname := typesFuncName(p.LookupFunc(s.pkg, s.recv, s.name))
		if len(ment) == 0 {
			// the site names no constant of the group at all: it may delegate the whole
			// decision to a same-package function that takes the value (a membership
			// predicate such as v.Valid()); that function is then the site
			for _, d := range p.delegates(s.pkg, s.recv, s.name, g) {
				for _, nd := range p.siteNodesOf(s.pkg, d) {
					for c, pos := range mentionedConsts(p.Pkgs[s.pkg].TypesInfo, nd, g) {
						if _, ok := ment[c]; !ok {
							ment[c] = pos
						}
					}
				}
			}
		}
		for _, c := range g.consts {
			if why, ex := s.exclude[c.Name()]; ex {
				if _, handled := ment[c]; handled {
					r.Ob(id, fname, s.group+" "+c.Name(), ment[c], true, false, "handled although listed as not required ("+why+")")
				}
				continue
			}
			pos, ok := ment[c]
			if !ok {
				pos = fd.Pos()
			}
			why := fmt.Sprintf("%s (%s) has an explicit case", c.Name(), c.Val().String())
			if !ok {
				why = fmt.Sprintf("%s (%s) of group %s has no case label / comparison / table entry in %s while its siblings do: this value falls into the default path", c.Name(), c.Val().String(), s.group, fname)
			}
			r.Ob(id, fname, s.group+" "+c.Name(), pos, ok, true, why)
		}
	}
}

// discoverExhaust prints, for development, the functions that mention at least half of a group.
func discoverExhaust(p *Program) {
	groups := constGroups(p)
	for _, rel := range analysedPkgs {
		pk := p.Pkgs[rel]
		for _, f := range pk.Syntax {
			for _, d := range f.Decls {
				fd, ok := d.(*ast.FuncDecl)
				if !ok || fd.Body == nil {
					continue
				}
				for _, gn := range sortedKeys(groups) {
					g := groups[gn]
					m := mentionedConsts(pk.TypesInfo, fd.Body, g)
					if len(m)*2 >= len(g.consts) && len(m) >= 2 {
						var miss []string
						for _, c := range g.consts {
							if _, ok := m[c]; !ok {
								miss = append(miss, c.Name())
							}
						}
						fn, _ := pk.TypesInfo.Defs[fd.Name].(*types.Func)
						fmt.Printf("%-12s %d/%d %s  missing=%v\n", gn, len(m), len(g.consts), typesFuncName(fn), miss)
					}
				}
			}
		}
	}
}

// siteNodes: syntax of the function, of the same-package functions it reaches by
// static calls, and of the package-level map/slice literals those bodies refer to.
func (p *Program) siteNodes(pkgrel, recv, name string) []ast.Node {
	return p.siteNodesOf(pkgrel, p.Fn(pkgrel, recv, name))
}

// delegates: same-package functions called from the site with a receiver or
// argument of the group's own (named) type.
func (p *Program) delegates(pkgrel, recv, name string, g *constGroup) []*ssa.Function {
	root := p.Fn(pkgrel, recv, name)
	if root == nil || len(g.consts) == 0 {
		return nil
	}
	gt, ok := g.consts[0].Type().(*types.Named)
	if !ok {
		return nil // untyped string groups: any string parameter would qualify
	}
	seen := map[*ssa.Function]bool{}
	var out []*ssa.Function
	for fn := range p.PrivateRegion(root) {
		for _, b := range fn.Blocks {
			for _, ins := range b.Instrs {
				c, ok := ins.(ssa.CallInstruction)
				if !ok {
					continue
				}
				callee := c.Common().StaticCallee()
				if callee == nil || seen[callee] || pkgOf(callee) != pkgrel || len(callee.Blocks) == 0 {
					continue
				}
				for _, a := range c.Common().Args {
					if types.Identical(a.Type(), gt) {
						seen[callee] = true
						out = append(out, callee)
						break
					}
				}
			}
		}
	}
	sort.Slice(out, func(i, j int) bool { return out[i].Pos() < out[j].Pos() })
	return out
}

func (p *Program) siteNodesOf(pkgrel string, root *ssa.Function) []ast.Node {
	if root == nil {
		return nil
	}
	pk := p.Pkgs[pkgrel]
	info := pk.TypesInfo
	// the function and its private helpers (unexported functions called only from it)
	var bodies []ast.Node
	var fns []*ssa.Function
	for fn := range p.PrivateRegion(root) {
		fns = append(fns, fn)
	}
	sort.Slice(fns, func(i, j int) bool { return fns[i].Pos() < fns[j].Pos() })
	for _, fn := range fns {
		if fn.Parent() != nil {
			continue
		}
		if b, _ := bodyOf(fn); b != nil {
			bodies = append(bodies, b)
		}
	}
	out := append([]ast.Node{}, bodies...)
	seen := map[types.Object]bool{}
	for _, b := range bodies {
		ast.Inspect(b, func(n ast.Node) bool {
			id, ok := n.(*ast.Ident)
			if !ok {
				return true
			}
			v, ok := info.Uses[id].(*types.Var)
			if !ok || v.Parent() != pk.Types.Scope() || seen[v] {
				return true
			}
			seen[v] = true
			switch v.Type().Underlying().(type) {
			case *types.Map, *types.Slice, *types.Array:
			default:
				return true
			}
			for _, f := range pk.Syntax {
				for _, d := range f.Decls {
					gd, ok := d.(*ast.GenDecl)
					if !ok || gd.Tok != token.VAR {
						continue
					}
					for _, sp := range gd.Specs {
						vs := sp.(*ast.ValueSpec)
						for i, nm := range vs.Names {
							if info.Defs[nm] == v && i < len(vs.Values) {
								out = append(out, vs.Values[i])
							}
						}
					}
				}
			}
			return true
		})
	}
	return out
}

// literalCompatible: can a comparison with `other` be about a constant of group g?
// False when other has a named type different from the type of the group's constants.
func literalCompatible(info *types.Info, other ast.Expr, g *constGroup) bool {
	tv, ok := info.Types[other]
	if !ok || tv.Type == nil || len(g.consts) == 0 {
		return true
	}
	nt, isNamed := tv.Type.(*types.Named)
	if !isNamed {
		return true
	}
	gt, gNamed := g.consts[0].Type().(*types.Named)
	if gNamed {
		return types.Identical(nt, gt)
	}
	// the group's constants are plain strings: a value of a defined string type
	// (Mutator, ConditionFunction, ...) belongs to another group
	return false
}
