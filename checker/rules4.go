package main

import (
	"fmt"
	"go/constant"
	"go/token"
	"go/types"
	"sort"

	"golang.org/x/tools/go/ssa"
)

// Rules added after the second wave of independently seeded changes (DESIGN.md §8b):
// K6, G-CLONE, V-RECV, V-WHO, X8, L-WAIT, G-ARGS, P-NIL-TYPEOBJ, GEN-ENUM.

// ruleK6: inside a map, the only notation tag that may not nest is "map".
func ruleK6(p *Program, r *Reporter) {
	const id = "K6"
	fn := p.Fn("ovsdb", "OvsMap", "UnmarshalJSON")
	if fn == nil {
		r.Anchor(id, "ovsdb.(*OvsMap).UnmarshalJSON")
		return
	}
	n := 0
	for g := range p.PrivateRegion(fn) {
		for _, b := range g.Blocks {
			for _, ins := range b.Instrs {
				bo, ok := ins.(*ssa.BinOp)
				if !ok || (bo.Op != token.EQL && bo.Op != token.NEQ) {
					continue
				}
				// comparison of a decoded element (interface) with a string constant
				var cst *ssa.Const
				if mi, ok := bo.Y.(*ssa.MakeInterface); ok {
					cst, _ = mi.X.(*ssa.Const)
				}
				if cst == nil {
					if mi, ok := bo.X.(*ssa.MakeInterface); ok {
						cst, _ = mi.X.(*ssa.Const)
					}
				}
				if cst == nil || cst.Value == nil || cst.Value.Kind() != constant.String {
					continue
				}
				n++
				tag := constant.StringVal(cst.Value)
				ok2 := tag == "map"
				r.Ob(id, funcName(g), "nested tag test "+tag, bo.Pos(), ok2, true,
					ifs(ok2, "only a nested map is refused inside a map; every other notation value is handed to the generic converter", "the map decoder singles out the tag \""+tag+"\": keys/values that the encoder legitimately produces (sets of uuids, named uuids) are no longer accepted or are treated differently from what the encoder wrote"))
			}
		}
	}
	if n < 1 {
		r.Anchor(id, fmt.Sprintf("OvsMap decoder: %d tag tests, expected >= 1", n))
	}
}

// ruleGCLONE: model.Clone / CloneInto copy either through the model's own CloneModel
// or through a JSON round trip into a new object — never by shallow reflective assignment.
func ruleGCLONE(p *Program, r *Reporter) {
	const id = "G-CLONE"
	n := 0
	for _, name := range []string{"Clone", "CloneInto"} {
		fn := p.Fn("model", "", name)
		if fn == nil {
			r.Anchor(id, "model."+name)
			continue
		}
		shallow := ""
		jsonRoundTrip, cloner := false, false
		for g := range p.PrivateRegion(fn) {
			for _, b := range g.Blocks {
				for _, ins := range b.Instrs {
					c, ok := ins.(*ssa.Call)
					if !ok {
						continue
					}
					if c.Call.IsInvoke() {
						if c.Call.Method.Name() == "CloneModel" || c.Call.Method.Name() == "CloneModelInto" {
							cloner = true
						}
						continue
					}
					sc := c.Call.StaticCallee()
					if sc == nil || sc.Pkg == nil {
						continue
					}
					switch sc.Pkg.Pkg.Path() {
					case "reflect":
						switch sc.Name() {
						case "Set", "Copy", "SetMapIndex", "AppendSlice":
							shallow = p.Pos(c.Pos())
						}
					case "encoding/json":
						if sc.Name() == "Unmarshal" {
							jsonRoundTrip = true
						}
					}
				}
			}
		}
		n++
		ok := shallow == "" && jsonRoundTrip && cloner
		why := "copies through CloneModel or a JSON round trip into a new object"
		switch {
		case shallow != "":
			why = "model." + name + " copies by reflective assignment (" + shallow + "): slices, maps and pointers of the copy share memory with the original, so cached rows can be changed through returned models"
		case !jsonRoundTrip || !cloner:
			why = "model." + name + " no longer has both copy paths (CloneableModel and JSON round trip)"
		}
		r.Ob(id, "model."+name, "deep copy paths", fn.Pos(), ok, true, why)
	}
	if n < 2 {
		r.Anchor(id, "model.Clone / model.CloneInto")
	}
}

// ruleVRECV: every event taken from the channel is dispatched; ruleVWHO: the cache's rows are
// only changed where the matching event is emitted.
func ruleVRECV(p *Program, r *Reporter) {
	const id = "V-RECV"
	evCh := p.Field("cache", "eventProcessor", "events")
	run := p.Fn("cache", "eventProcessor", "Run")
	if evCh == nil || run == nil {
		r.Anchor(id, "cache.eventProcessor.events / Run")
		return
	}
	isEvCh := func(v ssa.Value) bool { return loadOfField(v, evCh) }
	n := 0
	for _, fn := range p.srcFuncs {
		if pkgOf(fn) != "cache" {
			continue
		}
		for _, b := range fn.Blocks {
			for _, ins := range b.Instrs {
				switch x := ins.(type) {
				case *ssa.Select:
					recvIdx := 0
					for _, st := range x.States {
						if st.Dir != types.RecvOnly {
							continue
						}
						if isEvCh(st.Chan) {
							n++
							// the received value is tuple element 2+recvIdx
							used := false
							if refs := x.Referrers(); refs != nil {
								for _, ref := range *refs {
									if ex, ok := ref.(*ssa.Extract); ok && ex.Index == 2+recvIdx {
										if er := ex.Referrers(); er != nil {
											for _, u := range *er {
												if _, dbg := u.(*ssa.DebugRef); !dbg {
													used = true
												}
											}
										}
									}
								}
							}
							r.Ob(id, funcName(fn), "received event is dispatched", x.Pos(), used, true,
								ifs(used, "the event taken from the channel is used (handed to the handlers)", "an event is received from the channel and thrown away: handlers miss changes although the buffer never overflowed"))
						}
						recvIdx++
					}
				case *ssa.UnOp:
					if x.Op == token.ARROW && isEvCh(x.X) {
						n++
						used := false
						if refs := x.Referrers(); refs != nil {
							for _, u := range *refs {
								if _, dbg := u.(*ssa.DebugRef); !dbg {
									used = true
								}
							}
						}
						r.Ob(id, funcName(fn), "received event is dispatched", x.Pos(), used, true,
							ifs(used, "the received event is used", "an event is received from the channel and thrown away"))
					}
				}
			}
		}
	}
	if n < 1 {
		r.Anchor(id, "no receive from the event channel")
	}
	// V-WHO
	apply := p.Fn("cache", "TableCache", "ApplyCacheUpdate")
	ntc := p.Fn("cache", "", "NewTableCache")
	if apply == nil || ntc == nil {
		r.Anchor("V-WHO", "cache.(*TableCache).ApplyCacheUpdate / NewTableCache")
		return
	}
	allowed := map[*ssa.Function]bool{}
	for _, g := range p.Reach(apply) {
		allowed[g] = true
	}
	for _, g := range p.Reach(ntc) {
		allowed[g] = true
	}
	m := 0
	for _, fn := range p.srcFuncs {
		if pkgOf(fn) != "cache" {
			continue
		}
		// the RowCache's own methods may call each other
		top := fn
		for top.Parent() != nil {
			top = top.Parent()
		}
		if top.Signature.Recv() != nil && isNamed(top.Signature.Recv().Type(), repoMod+"/cache", "RowCache") {
			continue
		}
		for _, b := range fn.Blocks {
			for _, ins := range b.Instrs {
				c, ok := ins.(*ssa.Call)
				if !ok {
					continue
				}
				sc := c.Call.StaticCallee()
				if sc == nil || sc.Signature.Recv() == nil || !isNamed(sc.Signature.Recv().Type(), repoMod+"/cache", "RowCache") {
					continue
				}
				switch sc.Name() {
				case "Create", "Update", "Delete":
				default:
					continue
				}
				m++
				ok2 := allowed[fn] || allowed[top]
				r.Ob("V-WHO", funcName(fn), "RowCache."+sc.Name(), c.Pos(), ok2, true,
					ifs(ok2, "rows are changed where the matching event is emitted (ApplyCacheUpdate) or while pre-loading a new cache", "a row is created/updated/deleted outside ApplyCacheUpdate: the change is applied to the cache without any event, so the event log no longer reproduces the cache"))
			}
		}
	}
	if m < 4 {
		r.Anchor("V-WHO", fmt.Sprintf("package cache: %d RowCache mutation calls outside RowCache, expected >= 4", m))
	}
}

// ruleX8: the commit-time index check looks at every row of the transaction cache.
func ruleX8(p *Program, r *Reporter) {
	const id = "X8"
	fn := p.Fn("database/transaction", "Transaction", "checkIndexes")
	if fn == nil {
		r.Anchor(id, "transaction.(*Transaction).checkIndexes")
		return
	}
	n := 0
	for _, g := range p.Reach(fn) {
		for _, b := range g.Blocks {
			for _, ins := range b.Instrs {
				c, ok := ins.(*ssa.Call)
				if !ok {
					continue
				}
				sc := c.Call.StaticCallee()
				if sc == nil || sc.Name() != "IndexExists" {
					continue
				}
				h := loopHeaderOf(b)
				chk := b // the block that stands for the check inside the loop
				lg := g  // the function holding the loop
				if h == nil && g != fn && g.Parent() == nil {
					// the per-row body lives in a helper: the loop is at its call site, and
					// inside the helper no return can be reached without the check
					fcg := newFlowCtx(g)
					inner := false
					for _, rb := range g.Blocks {
						if _, isRet := rb.Instrs[len(rb.Instrs)-1].(*ssa.Return); isRet && rb != b && fcg.reachAvoid2(g.Blocks[0], rb, b) && g.Blocks[0] != b {
							inner = true
						}
					}
					for _, cs := range p.CallSitesOf(g) {
						if hh := loopHeaderOf(cs.instr.Block()); hh != nil && !inner {
							h, chk, lg = hh, cs.instr.Block(), cs.caller
						}
					}
					if inner {
						n++
						r.Ob(id, funcName(g), "IndexExists on every transaction row", c.Pos(), false, true, "the per-row helper can return without calling IndexExists: some rows of the transaction cache skip the index check")
						continue
					}
				}
				if h == nil {
					continue
				}
				n++
				// from the loop body entry, the next iteration cannot be reached without the check
				fc := newFlowCtx(lg)
				b := chk
				skipped := false
				for _, s := range h.Succs {
					if !inLoopOf(h, s) || s == h {
						continue
					}
					// body entry: can we get back to h avoiding b?
					if s != b && fc.reachAvoid2(s, h, b) {
						skipped = true
					}
				}
				r.Ob(id, funcName(g), "IndexExists on every transaction row", c.Pos(), !skipped, true,
					ifs(!skipped, "every row of the transaction cache is checked against the indexes", "some rows of the transaction cache skip the index check (a 'continue' before IndexExists): a row that was only read still excuses database conflicts, so a duplicate is committed"))
			}
		}
	}
	if n < 1 {
		r.Anchor(id, "checkIndexes does not call IndexExists in a loop")
	}
}

// reachAvoid2: path from a (inclusive) to b never entering avoid.
func (fc *flowCtx) reachAvoid2(a, b, avoid *ssa.BasicBlock) bool {
	if a == avoid {
		return false
	}
	if a == b {
		return true
	}
	return fc.reachAvoid(a, b, avoid)
}

// ruleLWAIT: no blocking wait on the handler WaitGroup while a client lock may be held.
func ruleLWAIT(p *Program, r *Reporter) {
	const id = "L-WAIT"
	la := getLockAnalysis(p)
	n := 0
	for _, fn := range p.srcFuncs {
		if pkgOf(fn) != "client" {
			continue
		}
		f := la.facts[fn]
		for _, b := range fn.Blocks {
			for _, ins := range b.Instrs {
				c, ok := ins.(*ssa.Call)
				if !ok {
					continue
				}
				sc := c.Call.StaticCallee()
				if sc == nil || sc.String() != "(*sync.WaitGroup).Wait" {
					continue
				}
				n++
				var held []string
				for k, v := range f.before[c] {
					_ = v
					if f.before[c].mayHeld(k) {
						held = append(held, k.String())
					}
				}
				r.Ob(id, funcName(fn), "WaitGroup.Wait", c.Pos(), len(held) == 0, true,
					ifs(len(held) == 0, "waits for the handler goroutines without holding a lock they may need", fmt.Sprintf("waits for the handler goroutines while holding %v: a handler that is about to take that lock (e.g. to disconnect) never finishes, and every later API call hangs", held)))
			}
		}
	}
	if n < 1 {
		r.Anchor(id, "no WaitGroup.Wait in package client")
	}
}

// ruleGARGS: the transact handler refuses requests without at least one operation
// before anything indexes the per-operation results.
func ruleGARGS(p *Program, r *Reporter) {
	const id = "G-ARGS"
	fn := p.Fn("server", "OvsdbServer", "Transact")
	if fn == nil || len(fn.Params) < 3 {
		r.Anchor(id, "server.(*OvsdbServer).Transact")
		return
	}
	args := fn.Params[2]
	// the whole handler body, argument checks included, may live in a private helper
	// that still receives the raw argument list
	if body, via := serverTransactBody(p); via != nil {
		for _, prm := range body.Params {
			if types.Identical(prm.Type(), args.Type()) {
				fn, args = body, prm
				break
			}
		}
	}
	var call *ssa.Call
	for _, b := range fn.Blocks {
		for _, ins := range b.Instrs {
			if c, ok := ins.(*ssa.Call); ok {
				if sc := c.Call.StaticCallee(); sc != nil && sc.Name() == "transact" {
					call = c
				}
			}
		}
	}
	if call == nil {
		// the body of the handler lives in a private helper: its call stands for the call of transact
		if _, via := serverTransactBody(p); via != nil {
			call = via
		}
	}
	if call == nil {
		r.Anchor(id, "OvsdbServer.Transact does not call transact")
		return
	}
	fc := newFlowCtx(fn)
	ok, why := fc.lenAtLeast(args, 2, call)
	if !ok {
		// the test may live in a decoding helper: g(args) whose every successful
		// return has established the length, and whose failure stops Transact
		for _, b := range fn.Blocks {
			for _, ins := range b.Instrs {
				c2, isCall := ins.(*ssa.Call)
				if !isCall || c2 == call || !b.Dominates(call.Block()) {
					continue
				}
				g := c2.Call.StaticCallee()
				if g == nil || pkgOf(g) != "server" || len(g.Blocks) == 0 {
					continue
				}
				pi := -1
				for i, a := range c2.Call.Args {
					if a == args {
						pi = i
					}
					// the list under a type of its own (params(args).atLeast(2))
					if ct, isCT := a.(*ssa.ChangeType); isCT && ct.X == args {
						pi = i
					}
				}
				if pi < 0 || pi >= len(g.Params) {
					continue
				}
				if !errorStops(c2, call.Block()) {
					continue
				}
				fg := newFlowCtx(g)
				fg.constBind = map[*ssa.Parameter]int64{}
				for i, a := range c2.Call.Args {
					if k, isC := constInt(a); isC && i < len(g.Params) {
						fg.constBind[g.Params[i]] = k
					}
				}
				all, nret := true, 0
				for _, gb := range g.Blocks {
					ret, isRet := gb.Instrs[len(gb.Instrs)-1].(*ssa.Return)
					if !isRet || len(ret.Results) == 0 {
						continue
					}
					if c, isC := ret.Results[len(ret.Results)-1].(*ssa.Const); !isC || !c.IsNil() {
						continue // failure return
					}
					nret++
					if okr, _ := fg.lenAtLeast(g.Params[pi], 2, ret); !okr {
						all = false
					}
				}
				if all && nret > 0 {
					ok, why = true, "established by "+funcName(g)+": every successful return follows a test implying len >= 2, and its failure ends the handler"
				}
			}
		}
	}
	if !ok {
		why = "the transact handler runs a transaction without having established len(args) >= 2 (database name plus at least one operation): an empty operation list reaches code that stores into results[0] and the server panics"
	}
	r.Ob(id, funcName(fn), "at least one operation", call.Pos(), ok, true, why)
}

// rulePNILTYPEOBJ: on the transaction path a column's TypeObj is only dereferenced where
// the column is known to be a map/set/enum (or TypeObj was tested): the implicit _uuid column has none.
func rulePNILTYPEOBJ(p *Program, r *Reporter) {
	const id = "P-NIL-TYPEOBJ"
	typeObj := p.Field("ovsdb", "ColumnSchema", "TypeObj")
	typeF := p.Field("ovsdb", "ColumnSchema", "Type")
	if typeObj == nil || typeF == nil {
		r.Anchor(id, "ovsdb.ColumnSchema.{TypeObj,Type}")
		return
	}
	n := 0
	for _, fn := range p.srcFuncs {
		pk := pkgOf(fn)
		if pk != "updates" && pk != "database/transaction" {
			continue
		}
		fc := newFlowCtx(fn)
		derefSites(fn, func(v ssa.Value) string {
			if loadOfField(v, typeObj) {
				return "ColumnSchema.TypeObj"
			}
			return ""
		}, func(at ssa.Instruction, ptr ssa.Value, label string) {
			n++
			ok, why := fc.nonNilAt(ptr, at)
			if !ok {
				// or: the column type is known to be one that always has a type object
				for _, f := range factsAt(at.Block()) {
					cond, truth := normFact(f)
					bo, isBo := cond.(*ssa.BinOp)
					if !isBo || bo.Op != token.EQL || !truth {
						continue
					}
					for _, pair := range [][2]ssa.Value{{bo.X, bo.Y}, {bo.Y, bo.X}} {
						if s, isS := stringConstOf(pair[1]); isS && (s == "map" || s == "set" || s == "enum") && loadOfField(pair[0], typeF) {
							ok, why = true, "the column is known to be a "+s+" here, which always has a type object"
						}
					}
				}
			}
			if !ok {
				// schema lookups by name (TableSchema.Column) of a declared column other than _uuid always carry a type object;
				// that is a value-level fact, so only sites fed by the static _uuid column are in question: accept when the
				// column comes from a range over the schema's Columns map
				if derivesFromRangeOverColumns(ptr) {
					ok, why = true, "the column comes from a range over the declared columns, which all have a type object"
				}
			}
			if !ok {
				why = "TypeObj of a column is dereferenced without a nil test or a test that the column is a map/set/enum: the implicit _uuid column has no type object, so an operation naming _uuid here makes the server panic"
			}
			r.Ob(id, funcName(fn), "deref "+label, at.Pos(), ok, true, why)
		})
	}
	if n < 3 {
		r.Anchor(id, fmt.Sprintf("transaction path: %d dereferences of ColumnSchema.TypeObj, expected >= 3", n))
	}
}

func derivesFromRangeOverColumns(v ssa.Value) bool {
	for i := 0; i < 8 && v != nil; i++ {
		switch x := v.(type) {
		case *ssa.UnOp:
			v = x.X
		case *ssa.FieldAddr:
			v = x.X
		case *ssa.Extract:
			if nx, ok := x.Tuple.(*ssa.Next); ok {
				if rg, ok := nx.Iter.(*ssa.Range); ok {
					if _, isMap := rg.X.Type().Underlying().(*types.Map); isMap {
						return true
					}
				}
				return false
			}
			v = x.Tuple
		default:
			return false
		}
	}
	return false
}

// ruleGENENUM: the generator only refers to an enum type alias when enum types are switched on.
func ruleGENENUM(p *Program, r *Reporter) {
	const id = "GEN-ENUM"
	fn := p.Fn("modelgen", "", "fieldType")
	en := p.Fn("modelgen", "", "enumName")
	if fn == nil || en == nil || len(fn.Params) < 4 {
		r.Anchor(id, "modelgen.fieldType / enumName")
		return
	}
	aliasFld := p.Field("modelgen", "Enum", "Alias")
	// the flag and its copies in private helpers: a helper parameter that receives the flag at every call site
	flags := map[*ssa.Function]map[ssa.Value]bool{fn: {fn.Params[3]: true}}
	region := p.PrivateRegion(fn)
	ci := getCallIndex(p)
	for changed := true; changed; {
		changed = false
		for g := range region {
			if g == fn || g.Parent() != nil {
				continue
			}
			for i, prm := range g.Params {
				if flags[g][prm] || !types.Identical(prm.Type(), types.Typ[types.Bool]) {
					continue
				}
				all, any := true, false
				for _, s := range ci.sites[g] {
					c, ok := s.instr.(ssa.CallInstruction)
					if !ok || i >= len(c.Common().Args) || !flags[s.caller][c.Common().Args[i]] {
						all = false
					}
					any = true
				}
				if all && any {
					if flags[g] == nil {
						flags[g] = map[ssa.Value]bool{}
					}
					flags[g][prm] = true
					changed = true
				}
			}
		}
	}
	n := 0
	var fns []*ssa.Function
	for g := range region {
		fns = append(fns, g)
	}
	sort.Slice(fns, func(i, j int) bool { return fns[i].Pos() < fns[j].Pos() })
	for _, g := range fns {
		for _, b := range g.Blocks {
			for _, ins := range b.Instrs {
				isSource := false
				switch x := ins.(type) {
				case *ssa.Call:
					isSource = x.Call.StaticCallee() == en
				case *ssa.FieldAddr:
					isSource = aliasFld != nil && fieldOfAddr(x) == aliasFld
				case *ssa.Field:
					if st, ok := x.X.Type().Underlying().(*types.Struct); ok && aliasFld != nil {
						isSource = st.Field(x.Field) == aliasFld
					}
				}
				if !isSource {
					continue
				}
				n++
				ok2 := false
				for _, f := range factsAt(b) {
					cond, truth := normFact(f)
					if flags[g][cond] && truth {
						ok2 = true
					}
				}
				r.Ob(id, funcName(g), "enum alias only with enum types on", ins.Pos(), ok2, true,
					ifs(ok2, "the alias name is only used where enumTypes is true", "fieldType names the enum alias although enum types are switched off: the generated struct refers to a type that is never emitted and does not compile"))
			}
		}
	}
	if n < 1 {
		r.Anchor(id, fmt.Sprintf("fieldType: %d uses of enumName, expected >= 1", n))
	}
}

// errorStops: the error result of call c is tested against nil and the branch
// taken when it is non-nil cannot reach block target.
func errorStops(c *ssa.Call, target *ssa.BasicBlock) bool {
	refs := c.Referrers()
	if refs == nil {
		return false
	}
	var errVals []ssa.Value
	if _, isTuple := c.Type().(*types.Tuple); isTuple {
		n := c.Type().(*types.Tuple).Len()
		for _, r := range *refs {
			if ex, ok := r.(*ssa.Extract); ok && ex.Index == n-1 {
				errVals = append(errVals, ex)
			}
		}
	} else {
		errVals = append(errVals, c)
	}
	for _, ev := range errVals {
		er := ev.Referrers()
		if er == nil {
			continue
		}
		for _, u := range *er {
			bo, ok := u.(*ssa.BinOp)
			if !ok || (bo.Op != token.NEQ && bo.Op != token.EQL) {
				continue
			}
			br := bo.Referrers()
			if br == nil {
				continue
			}
			for _, u2 := range *br {
				iff, ok := u2.(*ssa.If)
				if !ok {
					continue
				}
				bad := iff.Block().Succs[0]
				if bo.Op == token.EQL {
					bad = iff.Block().Succs[1]
				}
				if !blockReaches(bad, target) {
					return true
				}
			}
		}
	}
	return false
}

func blockReaches(from, to *ssa.BasicBlock) bool {
	seen := map[*ssa.BasicBlock]bool{}
	work := []*ssa.BasicBlock{from}
	for len(work) > 0 {
		b := work[len(work)-1]
		work = work[:len(work)-1]
		if seen[b] {
			continue
		}
		seen[b] = true
		if b == to {
			return true
		}
		work = append(work, b.Succs...)
	}
	return false
}
