package main

import (
	"fmt"
	"go/ast"
	"strings"
)

// Positive controls: seeded variants of the tree under analysis. Each is an
// edit located inside a named function by node kind and source text of the
// node (never by line); the named rule must then report a new violation whose
// key contains Expect. A control whose site no longer exists is reported as
// "unavailable" and does not affect the verdict.

type nodeKind int

const (
	kStmt nodeKind = iota // smallest statement whose text contains the pattern
	kExpr                 // expression whose text equals the pattern
	kCase                 // case clause whose header contains the pattern
)

// locate finds the nth (0-based) matching node inside function pkg.(recv).name.
func locate(p *Program, pkg, recv, name string, kind nodeKind, pattern string, nth int) (ast.Node, error) {
	fd, _, err := p.funcDecl(pkg, recv, name)
	if err != nil {
		return nil, err
	}
	var matches []ast.Node
	ast.Inspect(fd.Body, func(n ast.Node) bool {
		if n == nil {
			return false
		}
		switch kind {
		case kStmt:
			if st, ok := n.(ast.Stmt); ok {
				if _, isBlock := st.(*ast.BlockStmt); isBlock {
					return true
				}
				if strings.Contains(p.text(st), pattern) {
					// keep only the smallest: drop any previously matched ancestor
					var kept []ast.Node
					for _, m := range matches {
						if !(m.Pos() <= st.Pos() && st.End() <= m.End()) {
							kept = append(kept, m)
						}
					}
					matches = append(kept, st)
				}
			}
		case kExpr:
			if e, ok := n.(ast.Expr); ok && strings.TrimSpace(p.text(e)) == pattern {
				matches = append(matches, e)
				return false
			}
		case kCase:
			if cc, ok := n.(*ast.CaseClause); ok {
				hdr := p.text(cc)
				if i := strings.Index(hdr, ":"); i >= 0 {
					hdr = hdr[:i]
				}
				if strings.Contains(hdr, pattern) {
					matches = append(matches, cc)
				}
			}
		}
		return true
	})
	if nth >= len(matches) {
		return nil, fmt.Errorf("%s.%s.%s: pattern %q (kind %d) matched %d nodes, need #%d", pkg, recv, name, pattern, kind, len(matches), nth)
	}
	return matches[nth], nil
}

// ctl registers a single-edit control.
func ctl(name, rule, expect, pkg, recv, fn string, kind nodeKind, pattern string, nth int, repl func(orig string) string) {
	registerControl(&ControlDef{Name: name, Rule: rule, Expect: expect, Edit: func(p *Program) ([]TextEdit, error) {
		n, err := locate(p, pkg, recv, fn, kind, pattern, nth)
		if err != nil {
			return nil, err
		}
		return []TextEdit{p.editReplace(n, repl(p.text(n)))}, nil
	}})
}

func del(string) string { return "" }

func to(s string) func(string) string { return func(string) string { return s } }

func sub(old, new string) func(string) string {
	return func(orig string) string { return strings.Replace(orig, old, new, 1) }
}

func before(stmt string) func(string) string {
	return func(orig string) string { return stmt + "\n" + orig }
}

func init() {
	// ---- E1 locks
	ctl("drop defer RUnlock in (*RowCache).Row", "L1", "(*cache.RowCache).Row|cache.RowCache.mutex/R", "cache", "RowCache", "Row", kStmt, "defer r.mutex.RUnlock()", 0, del)
	ctl("drop the RUnlock before an error return of monitor()", "L1", "(*client.ovsdbClient).monitor|client.database.modelMutex/R", "client", "ovsdbClient", "monitor", kStmt, "db.modelMutex.RUnlock()", 0, del)
	ctl("take no lock in (*RowCache).Len", "L2", "(*cache.RowCache).Len|cache.RowCache.cache read", "cache", "RowCache", "Len", kStmt, "r.mutex.RLock()", 0, del)
	registerControl(&ControlDef{Name: "processMonitors without monitorMutex", Rule: "L2", Expect: "processMonitors|server.OvsdbServer.monitors read", Edit: func(p *Program) ([]TextEdit, error) {
		a, err := locate(p, "server", "OvsdbServer", "processMonitors", kStmt, "o.monitorMutex.RLock()", 0)
		if err != nil {
			return nil, err
		}
		b, err := locate(p, "server", "OvsdbServer", "processMonitors", kStmt, "o.monitorMutex.RUnlock()", 0)
		if err != nil {
			return nil, err
		}
		return []TextEdit{p.editReplace(a, ""), p.editReplace(b, "")}, nil
	}})
	registerControl(&ControlDef{Name: "Monitor() takes monitorsMutex before rpcMutex", Rule: "L3", Expect: "(*client.ovsdbClient).Monitor|client.ovsdbClient.rpcMutex acquired", Edit: func(p *Program) ([]TextEdit, error) {
		a, err := locate(p, "client", "ovsdbClient", "Monitor", kStmt, "o.rpcMutex.RLock()", 0)
		if err != nil {
			return nil, err
		}
		b, err := locate(p, "client", "ovsdbClient", "Monitor", kStmt, "db.monitorsMutex.Lock()", 0)
		if err != nil {
			return nil, err
		}
		return []TextEdit{p.editReplace(a, "db.monitorsMutex.Lock()"), p.editReplace(b, "o.rpcMutex.RLock()")}, nil
	}})
	ctl("go o.processMonitors(...)", "L4", "Transact|processMonitors", "server", "OvsdbServer", "Transact", kStmt, "o.processMonitors(transactionID, updates)", 0, to("go o.processMonitors(transactionID, updates)"))
	registerControl(&ControlDef{Name: "MonitorCond without txnMutex", Rule: "L5", Expect: "(*server.OvsdbServer).MonitorCond|", Edit: func(p *Program) ([]TextEdit, error) {
		a, err := locate(p, "server", "OvsdbServer", "MonitorCond", kStmt, "o.txnMutex.Lock()", 0)
		if err != nil {
			return nil, err
		}
		b, err := locate(p, "server", "OvsdbServer", "MonitorCond", kStmt, "defer o.txnMutex.Unlock()", 0)
		if err != nil {
			return nil, err
		}
		return []TextEdit{p.editReplace(a, ""), p.editReplace(b, "")}, nil
	}})
	// ---- E2 aliasing
	ctl("rowByUUID returns the cached row itself", "A1", "(*cache.RowCache).Row|result", "cache", "RowCache", "rowByUUID", kExpr, "model.Clone(row)", 0, to("row"))
	ctl("Create stores the caller's model", "A2", "(*cache.RowCache).Create|store into RowCache.cache", "cache", "RowCache", "Create", kExpr, "model.Clone(m)", 0, to("m"))
	ctl("AddRowUpdate2 modifies the current model in place", "A3", "updateOrModifyModel|in-place arg of applyDifference", "updates", "ModelUpdates", "AddRowUpdate2", kExpr, "model.Clone(current)", 0, to("current"))
	ctl("GetReferences hands out the stored list", "A1", "GetReferences|result", "database", "References", "GetReferences", kExpr, "append([]string(nil), values[uuid]...)", 0, to("values[uuid]"))
	ctl("CheckIndexes purges the committed cache", "A4", "CheckIndexes|committed rows Purge", "database/inmemory", "inMemoryDatabase", "CheckIndexes", kStmt, "targetTable := targetDb.Table(table)", 0, before("targetDb.Purge(targetDb.DatabaseModel())"))
	ctl("error of applyReferenceUpdates discarded", "A5", "error of applyReferenceUpdates", "database/transaction", "Transaction", "Transact", kStmt, "err = t.applyReferenceUpdates(refUpdates)", 0, to("_ = t.applyReferenceUpdates(refUpdates)"))
	ctl("error scan does not stop the commit", "T-SCAN", "after error scan", "server", "OvsdbServer", "Transact", kStmt, "return nil", 0, to("break"))
	// ---- E3 codecs
	ctl("BaseType decoder reads maxInteger into minInteger", "K1", "BaseType codec|", "ovsdb", "BaseType", "UnmarshalJSON", kExpr, "bt.MinInteger", 0, to("bt.MaxInteger"))
	ctl("ColumnSchema encoder drops mutable", "K1", "ColumnSchema codec|member mutable", "ovsdb", "ColumnSchema", "MarshalJSON", kExpr, "c.mutable", 0, to("nil"))
	ctl("Condition encoded as [function, column, value]", "K2", "Condition codec|member #0", "ovsdb", "Condition", "MarshalJSON", kExpr, "[]interface{}{c.Column, c.Function, c.Value}", 0, to("[]interface{}{c.Function, c.Column, c.Value}"))
	ctl("RangeError encoded as domain error", "K3", "K3|", "ovsdb", "", "ResultFromError", kExpr, "rangeError", 0, to("domainError"))
	// ---- E4 totality
	ctl("Mutation decoder without the length test", "P-IDX", "(*ovsdb.Mutation).UnmarshalJSON|index", "ovsdb", "Mutation", "UnmarshalJSON", kExpr, "len(v) != 3", 0, to("false"))
	ctl("Mutation decoder asserts unchecked", "P-ASSERT", "(*ovsdb.Mutation).UnmarshalJSON|assert", "ovsdb", "Mutation", "UnmarshalJSON", kStmt, "m.Column, ok = v[0].(string)", 0, to("m.Column = v[0].(string)"))
	ctl("ColumnSchema decoder without the type/key test", "P-NIL", "(*ovsdb.ColumnSchema).UnmarshalJSON|deref", "ovsdb", "ColumnSchema", "UnmarshalJSON", kExpr, "c.TypeObj == nil || c.TypeObj.Key == nil", 0, to("false"))
	ctl("OvsMap decoder accepts arrays as keys", "P-HASH", "(*ovsdb.OvsMap).UnmarshalJSON|interface map key", "ovsdb", "OvsMap", "UnmarshalJSON", kCase, "string, float64, bool, UUID", 0, sub("UUID", "UUID, []interface{}"))
	ctl("commit without the durable test", "P-NIL-TXN", "deref Operation.Durable", "database/transaction", "Transaction", "Transact", kExpr, "durable == nil", 0, to("false"))
	ctl("requestFor without the nil test", "P-NIL-MON", "requestFor|deref", "server", "monitor", "requestFor", kExpr, "request == nil", 0, to("false"))
	ctl("mutate without ValidateMutation", "P-DIV", "P-DIV|updates.mutate", "updates", "ModelUpdates", "addMutateOperation", kExpr, "ovsdb.ValidateMutation(column, mutation.Mutator, nativeValue)", 0, to("error(nil)"))
	ctl("ExpandNamedUUIDs error ignored", "G-GATE", "Transact|dispatch Insert", "database/transaction", "Transaction", "Transact", kStmt, "operations, err = ovsdb.ExpandNamedUUIDs(operations, &t.Model.Schema)", 0, to("operations, _ = ovsdb.ExpandNamedUUIDs(operations, &t.Model.Schema)"))
	// ---- E5 wiring
	ctl("Send2 notifies with update", "W1", "(*server.monitor).Send2|rpc monitor_cond method", "server", "monitor", "Send2", kExpr, `"update2"`, 0, to(`"update"`))
	ctl("monitor_cond_since created with the monitor_cond kind", "W2", "MonitorCondSince|rpc monitor_cond_since kind", "server", "", "newConditionalSinceMonitor", kExpr, "monitorKindConditionalSince", 0, to("monitorKindConditional"))
	ctl("client not in blocking mode", "W4", "createRPC2Client|SetBlocking", "client", "ovsdbClient", "createRPC2Client", kExpr, "o.rpcClient.SetBlocking(true)", 0, to("o.rpcClient.SetBlocking(false)"))
	// ---- E6 and friends
	ctl("Transact has no mutate arm", "E6", "Transact|operation OperationMutate", "database/transaction", "Transaction", "Transact", kCase, "ovsdb.OperationMutate", 0, sub("ovsdb.OperationMutate", `"zz-never"`))
	ctl("mutate has no modulo arm", "E6", "updates.mutate|mutator MutateOperationModulo", "updates", "", "mutate", kCase, "ovsdb.MutateOperationModulo", 0, sub("ovsdb.MutateOperationModulo", `"zz-never"`))
	ctl("Evaluate has no excludes arm", "E6", "Evaluate|condition ConditionExcludes", "ovsdb", "ConditionFunction", "Evaluate", kCase, "ConditionExcludes", 0, sub("ConditionExcludes", `"zz-never"`))
	ctl("WhereAll matches any", "T-WIRE", "(client.api).WhereAll|", "client", "api", "WhereAll", kExpr, "true", 0, to("false"))
	ctl("ApplyCacheUpdate checks indexes on create", "T-WIRE", "ApplyCacheUpdate|Create", "cache", "TableCache", "ApplyCacheUpdate", kExpr, "tCache.Create(uuid, new, false)", 0, to("tCache.Create(uuid, new, true)"))
	ctl("modify path ignores Mutable()", "T-GUARD", "updateOrModifyModel|Mutable() before SetField", "updates", "", "updateOrModifyModel", kExpr, "isDifferent && !colSchema.Mutable()", 0, to("false"))
	ctl("NativeToOvsAtomic without the type test", "T-GUARD", "NativeToOvsAtomic|Go type test", "ovsdb", "", "NativeToOvsAtomic", kExpr, "reflect.TypeOf(nativeElem) != naType", 0, to("false"))
	ctl("references in maps not extracted", "T-REFPOS", "carrier ovsdb.OvsMap", "updates", "", "getReferenceModificationsFromColumn", kCase, "ovsdb.OvsMap", 0, del)
	ctl("index candidates returned unfiltered", "Q-PRE", "RowsByCondition|", "cache", "RowCache", "RowsByCondition", kStmt, "for i, condition := range conditions", 0, before("if len(matching) == 1 {\nfor uuid := range matching {\nresults[uuid] = r.rowByUUID(uuid)\n}\nreturn results, nil\n}"))
	ctl("filter2 pairs modify with select.delete", "F-PAIR", "filter2|kind Modify", "server", "monitor", "filter2", kExpr, "ru2.Modify != nil && sel.Modify()", 0, to("ru2.Modify != nil && sel.Delete()"))
	ctl("two notification rounds", "PM-ONCE", "processMonitors called once", "server", "OvsdbServer", "Transact", kStmt, "o.processMonitors(transactionID, updates)", 0, to("o.processMonitors(transactionID, updates)\no.processMonitors(transactionID, updates)"))
	ctl("deferred updates prepended", "DEFER-APPEND", "update2|assign deferredUpdates", "client", "ovsdbClient", "update2", kExpr, `append(db.deferredUpdates, &bufferedUpdate{nil, &updates, ""})`, 0, to(`append([]*bufferedUpdate{{nil, &updates, ""}}, db.deferredUpdates...)`))
	ctl("fields not sorted", "D-ORDER", "GetTableTemplateData|range over map", "modelgen", "", "GetTableTemplateData", kStmt, "order.Sort()", 0, del)
	ctl("DeepCopyInto shares Sid", "G-COPY", "DeepCopyInto|field Sid", "ovsdb/serverdb", "Database", "DeepCopyInto", kStmt, "b.Sid = copyDatabaseSid(a.Sid)", 0, del)
	ctl("generator emits int64 for integer", "GEN-ATOM", "AtomicType|atomic TypeInteger", "modelgen", "", "AtomicType", kExpr, `"int"`, 0, to(`"int64"`))
	// ---- E7
	ctl("every restarted monitor purges the cache", "E7", "monitor|purge-after-populate", "client", "ovsdbClient", "monitor", kExpr, "reconnecting && len(db.monitors) == 1 && !lastTransactionFound", 0, to("reconnecting && (len(db.monitors) > 1 || !lastTransactionFound)"))
	ctl("reconnect attempt does not re-arm deferral", "R-DEFER", "deferUpdates re-armed", "client", "ovsdbClient", "handleDisconnectNotification", kStmt, "db.deferUpdates = true", 0, del)
	// ---- E8
	ctl("schema index entries removed unconditionally", "X1", "(*cache.RowCache).Update|delete", "cache", "RowCache", "Update", kExpr, "substractUUIDSet(r.indexes[index][k], v).empty()", 0, to("indexSpec.isSchemaIndex() || substractUUIDSet(r.indexes[index][k], v).empty()"))
	ctl("HasRow drops a row", "X2", "HasRow|delete in RowCache.cache", "cache", "RowCache", "HasRow", kStmt, "_, found := r.cache[uuid]", 0, before(`delete(r.cache, "")`))
	ctl("index check result ignored", "X4", "checkIndexes", "database/transaction", "Transaction", "Transact", kStmt, "err := t.checkIndexes()", 0, func(orig string) string {
		if !strings.HasPrefix(strings.TrimSpace(orig), "err := t.checkIndexes()") || strings.Contains(orig, "{") {
			return orig
		}
		return "err := func() error { _ = t.checkIndexes(); return nil }()"
	})
	// ---- E9
	ctl("update event carries (new, old)", "V1", "event after RowCache.Update", "cache", "TableCache", "ApplyCacheUpdate", kExpr, "t.eventProcessor.AddEvent(updateEvent, table, old, new)", 0, to("t.eventProcessor.AddEvent(updateEvent, table, new, old)"))
	ctl("OnDelete receives event.new", "V2", "dispatch OnDelete", "cache", "eventProcessor", "Run", kExpr, "handler.OnDelete(event.table, event.old)", 0, to("handler.OnDelete(event.table, event.new)"))
	// ---- named uuids
	ctl("Rows are not expanded", "N-COVER", "member Rows", "ovsdb", "", "ExpandNamedUUIDs", kStmt, "for _, row := range op.Rows", 0, del)
	ctl("map keys expanded only for uuid values", "N-POS", "expandNamedUUID|expansion guard", "ovsdb", "", "expandNamedUUID", kExpr, "column.Type == TypeMap", 0, to("valType == TypeUUID"))
}

func init() {
	// ---- rules added after the seeded-change rounds
	ctl("unchanged columns skip the write-back", "A3-REPAIR", "updateOrModifyModel|write-back after difference", "updates", "", "updateOrModifyModel", kStmt, "err = info.SetField(column, updateNative)", 0, before("if !isDifferent {\ncontinue\n}"))
	ctl("setDifference works in the larger operand", "A3-TABLE", "setDifference|in-place parameter b", "updates", "", "setDifference", kStmt, "difference := make(map[interface{}]struct{}, bv.Len())", 0, before("if bv.IsValid() && av.IsValid() && bv.Len() > av.Len() {\nav, bv = bv, av\n}"))
	ctl("filterColumns edits the shared row", "S-PURE", "filterColumns|map delete", "server", "", "filterColumns", kStmt, "new := make(ovsdb.Row, len(*row))", 0, before("for k := range *row {\nif _, ok := columns[k]; !ok {\ndelete(*row, k)\n}\n}"))
	ctl("intersectUUIDSets trims in place", "X5", "intersectUUIDSets arg", "cache", "", "intersectUUIDSets", kStmt, "f := uuidset{}", 0, to("f := small"))
	ctl("late failure not reported", "R-REPORT", "result assignment reaches results[i]", "database/transaction", "Transaction", "Transact", kStmt, "result := r", 0, func(orig string) string {
		return orig + "\nresults[i] = &result\nif u != nil {\nr = ovsdb.ResultFromError(fmt.Errorf(\"late\"))\n}"
	})
	ctl("deleted rows not filtered", "T-DELROWS", "Database.List overlaid", "database/transaction", "Transaction", "rowsFromTransactionCacheAndDatabase", kStmt, "delete(rows, rowUUID)", 0, to("_ = rowUUID"))
	ctl("deletion tracked only for rows not yet cached", "DEL-TRACK", "applyReferenceUpdates", "database/transaction", "Transaction", "applyReferenceUpdates", kExpr, "old != nil && new == nil", 0, to("old != nil && new == nil && !t.Cache.Table(table).HasRow(uuid)"))
	ctl("lookup hashes a local column list", "X6", "valueFromIndex columns", "cache", "RowCache", "IndexExists", kExpr, "indexSpec.columns", 0, to("append([]model.ColumnKey{}, indexSpec.columns...)[:len(indexSpec.columns)]"))
	ctl("simpleAtomic ignores minLength", "K5", "simpleAtomic|member minLength", "ovsdb", "BaseType", "simpleAtomic", kExpr, "b.minLength == nil", 0, to("true"))
	ctl("pass 2 starts at the second operation", "N-ALLOPS", "ExpandNamedUUIDs|loop over ops", "ovsdb", "", "ExpandNamedUUIDs", kStmt, "for i := range ops", 1, sub("for i := range ops", "for i := 1; i < len(ops); i++"))
	registerControl(&ControlDef{Name: "Create keeps the previous model's uuid", Rule: "N-ITER", Expect: "(client.api).Create|loop-carried", Edit: func(p *Program) ([]TextEdit, error) {
		decl, err := locate(p, "client", "api", "Create", kStmt, "var realUUID, namedUUID string", 0)
		if err != nil {
			return nil, err
		}
		loop, err := locate(p, "client", "api", "Create", kStmt, "var operations []ovsdb.Operation", 0)
		if err != nil {
			return nil, err
		}
		return []TextEdit{p.editReplace(decl, ""), p.editReplace(loop, p.text(loop)+"\nvar realUUID, namedUUID string")}, nil
	}})
	ctl("notification loop stops at the first idle connection", "PM-ALL", "processMonitors|loop without early exit", "server", "OvsdbServer", "processMonitors", kStmt, "for _, m := range c.monitors", 0, before("if len(c.monitors) == 0 {\nbreak\n}"))
	ctl("cond_since always resumes from the last id", "E7", "resume-after-purge", "client", "ovsdbClient", "monitor", kExpr, "reconnecting && len(db.monitors) == 1", 0, to("reconnecting"))
}

func init() {
	ctl("mutateInsert returns the value twice", "A3-DISTINCT", "mutateInsert|new value and difference", "updates", "", "mutateInsert", kExpr, "copyValue(value)", 0, to("value"))
}

func init() {
	// ---- rules added after the second wave of seeded changes
	ctl("Create writes indexes while validating", "X7", "(*cache.RowCache).Create|error return", "cache", "RowCache", "Create", kStmt, "addIndexes[index][val] = uuidset", 0, before("r.indexes[index][val] = uuidset"))
	registerControl(&ControlDef{Name: "table update kept across tables", Rule: "S-LOOP", Expect: "filter2|per-iteration container", Edit: func(p *Program) ([]TextEdit, error) {
		decl, err := locate(p, "server", "monitor", "filter2", kStmt, "tu2 := ovsdb.TableUpdate2{}", 0)
		if err != nil {
			return nil, err
		}
		pre, err := locate(p, "server", "monitor", "filter2", kStmt, "tus2 := make(ovsdb.TableUpdates2, len(tables))", 0)
		if err != nil {
			return nil, err
		}
		return []TextEdit{p.editReplace(decl, ""), p.editReplace(pre, p.text(pre)+"\ntu2 := ovsdb.TableUpdate2{}")}, nil
	}})
	ctl("inserted rows skip reference initialisation", "T-INITREFS", "processRowUpdate|references initialised", "updates", "referenceTracker", "processRowUpdate", kStmt, "updateRefs = getReferenceModificationsFromRow(&rt.dbModel, table, uuid, row.Insert, nil)", 0, func(orig string) string {
		return orig + "\napplyReferenceModifications(rt.references, updateRefs)\nreturn nil"
	})
	ctl("map decoder only accepts uuid arrays as values", "K6", "nested tag test", "ovsdb", "OvsMap", "UnmarshalJSON", kExpr, `len(vSet) != 2 || vSet[0] == "map"`, 1, to(`len(vSet) != 2 || (vSet[0] != "uuid" && vSet[0] != "named-uuid")`))
	ctl("Clone takes a shallow fast path", "G-CLONE", "model.Clone|deep copy paths", "model", "", "Clone", kStmt, "aBytes, _ := json.Marshal(a)", 0, before("if val.NumField() == 0 {\nreflect.ValueOf(b).Elem().Set(val)\nreturn b\n}"))
	ctl("stop drains the event queue", "V-RECV", "received event is dispatched", "cache", "eventProcessor", "Run", kStmt, "return", 0, to("for {\nselect {\ncase <-e.events:\ndefault:\nreturn\n}\n}"))
	ctl("Populate2 deletes a row directly", "V-WHO", "Populate2|RowCache.Delete", "cache", "TableCache", "Populate2", kStmt, "update := updates.ModelUpdates{}", 0, before("if row.Insert != nil && tCache.cache[uuid] != nil {\n_ = tCache.Delete(uuid)\n}"))
	ctl("index check skips rows", "X8", "IndexExists on every transaction row", "database/transaction", "Transaction", "checkIndexes", kStmt, "err := tc.IndexExists(row)", 0, before("if row == nil {\ncontinue\n}"))
	ctl("Delete drops and re-takes the lock after looking the row up", "L-ATOM", "(*cache.RowCache).Delete|cache.RowCache.mutex", "cache", "RowCache", "Delete", kStmt, "oldRow := r.cache[uuid]", 0, to("oldRow := r.cache[uuid]\nr.mutex.Unlock()\nr.mutex.Lock()"))
	ctl("references into root tables are not checked", "T-DANGLE", "processStrongReferences|rowExists", "updates", "referenceTracker", "processStrongReferences", kStmt, "exists, err := rt.rowExists(spec.ToTable, to)", 0, before("if isRoot(&rt.dbModel, spec.ToTable) {\ncontinue\n}"))
	registerControl(&ControlDef{Name: "probe timeout created once, outside the loop", Rule: "T-PROBE", Expect: "handleInactivityProbes|probe timeout re-armed", Edit: func(p *Program) ([]TextEdit, error) {
		a, err := locate(p, "client", "ovsdbClient", "handleInactivityProbes", kExpr, "time.After(o.options.inactivityTimeout)", 0)
		if err != nil {
			return nil, err
		}
		b, err := locate(p, "client", "ovsdbClient", "handleInactivityProbes", kStmt, "trafficSeen := o.trafficSeen", 0)
		if err != nil {
			return nil, err
		}
		return []TextEdit{p.editReplace(a, "probeTimeout"), p.editReplace(b, "trafficSeen := o.trafficSeen\nprobeTimeout := time.After(o.options.inactivityTimeout)")}, nil
	}})
	registerControl(&ControlDef{Name: "uuid pattern loses its end anchor", Rule: "K-REGEX", Expect: "regexp anchored", Edit: func(p *Program) ([]TextEdit, error) {
		for _, pk := range p.Pkgs {
			if !strings.HasSuffix(pk.PkgPath, "/ovsdb") {
				continue
			}
			for _, f := range pk.Syntax {
				var hit ast.Node
				ast.Inspect(f, func(n ast.Node) bool {
					if bl, ok := n.(*ast.BasicLit); ok && strings.Contains(bl.Value, "[0-9a-f]{12}$") {
						hit = bl
					}
					return true
				})
				if hit != nil {
					return []TextEdit{p.editReplace(hit, strings.Replace(p.text(hit), "{12}$", "{12}", 1))}, nil
				}
			}
		}
		return nil, fmt.Errorf("uuid pattern literal not found")
	}})
	registerControl(&ControlDef{Name: "decoder declares its own integer type for maxLength", Rule: "K-WIRETYPE", Expect: "ovsdb.BaseType|member maxLength", Edit: func(p *Program) ([]TextEdit, error) {
		fd, _, err := p.funcDecl("ovsdb", "BaseType", "UnmarshalJSON")
		if err != nil {
			return nil, err
		}
		var fld ast.Node
		ast.Inspect(fd.Body, func(n ast.Node) bool {
			if f, ok := n.(*ast.Field); ok && len(f.Names) == 1 && f.Names[0].Name == "MaxLength" {
				fld = f.Type
			}
			return true
		})
		asg, err := locate(p, "ovsdb", "BaseType", "UnmarshalJSON", kStmt, "b.maxLength = bt.MaxLength", 0)
		if fld == nil || err != nil {
			return nil, fmt.Errorf("MaxLength member / assignment not found")
		}
		return []TextEdit{p.editReplace(fld, "*wireInt"), p.editReplace(asg, "b.maxLength = (*int)(bt.MaxLength)"), p.editRange(fd.End(), fd.End(), "\n\ntype wireInt int\n")}, nil
	}})
	registerControl(&ControlDef{Name: "transact blocks on the probe's traffic channel again", Rule: "L-CHAN", Expect: "(*client.ovsdbClient).transact|send on client.ovsdbClient.trafficSeen", Edit: func(p *Program) ([]TextEdit, error) {
		fd, _, err := p.funcDecl("client", "ovsdbClient", "transact")
		if err != nil {
			return nil, err
		}
		var sel ast.Node
		ast.Inspect(fd.Body, func(n ast.Node) bool {
			if ss, ok := n.(*ast.SelectStmt); ok && strings.Contains(p.text(ss), "o.trafficSeen <-") {
				sel = ss
			}
			return true
		})
		if sel == nil {
			return nil, fmt.Errorf("select on trafficSeen not found in transact")
		}
		return []TextEdit{p.editReplace(sel, "o.trafficSeen <- struct{}{}")}, nil
	}})
	ctl("update2 handler takes rpcMutex", "L-RPC", "holding client.ovsdbClient.rpcMutex/R needed by handler update2", "client", "ovsdbClient", "update2", kStmt, "db.cacheMutex.Lock()", 0, before("o.rpcMutex.Lock()\no.rpcMutex.Unlock()"))
	ctl("Delete skips a row whose update cannot be built", "ERR-USE", "Transaction).Delete|error of AddOperation", "database/transaction", "Transaction", "Delete", kStmt, "return ovsdb.ResultFromError(err), nil", 1, to("continue"))
	registerControl(&ControlDef{Name: "set decoder keeps going after a bad element", Rule: "ERR-LOOP", Expect: "(*ovsdb.OvsSet).UnmarshalJSON|error of", Edit: func(p *Program) ([]TextEdit, error) {
		fd, _, err := p.funcDecl("ovsdb", "OvsSet", "UnmarshalJSON")
		if err != nil {
			return nil, err
		}
		var loop ast.Node
		ast.Inspect(fd.Body, func(n ast.Node) bool {
			if rs, ok := n.(*ast.RangeStmt); ok && strings.Contains(p.text(rs.X), "innerSet") {
				loop = rs
			}
			return true
		})
		if loop == nil {
			return nil, fmt.Errorf("range over innerSet not found")
		}
		return []TextEdit{p.editReplace(loop, "for _, val := range innerSet {\nerr = addToSet(o, val)\n}")}, nil
	}})
	registerControl(&ControlDef{Name: "Populate takes the table lock shared", Rule: "L2", Expect: "(*cache.TableCache).Populate|cache.RowCache.cache read", Edit: func(p *Program) ([]TextEdit, error) {
		a, err := locate(p, "cache", "TableCache", "Populate", kStmt, "t.mutex.Lock()", 0)
		if err != nil {
			return nil, err
		}
		b, err := locate(p, "cache", "TableCache", "Populate", kStmt, "defer t.mutex.Unlock()", 0)
		if err != nil {
			return nil, err
		}
		return []TextEdit{p.editReplace(a, "t.mutex.RLock()"), p.editReplace(b, "defer t.mutex.RUnlock()")}, nil
	}})
	registerControl(&ControlDef{Name: "Delete stages one shared set for all indexes", Rule: "X9", Expect: "(*cache.RowCache).Delete|set stored per index", Edit: func(p *Program) ([]TextEdit, error) {
		a, err := locate(p, "cache", "RowCache", "Delete", kStmt, "removeIndexes := r.newIndexes()", 0)
		if err != nil {
			return nil, err
		}
		b, err := locate(p, "cache", "RowCache", "Delete", kExpr, "newUUIDSet(uuid)", 0)
		if err != nil {
			return nil, err
		}
		return []TextEdit{p.editReplace(a, "removeIndexes := r.newIndexes()\nshared := newUUIDSet(uuid)"), p.editReplace(b, "shared")}, nil
	}})
	ctl("substitution pass skips wait operations", "N-SKIP", "table of wait validated", "ovsdb", "", "ExpandNamedUUIDs", kStmt, "tableSchema := schema.Table(op.Table)", 0, before("if op.Op == OperationWait {\ncontinue\n}"))
	registerControl(&ControlDef{Name: "non-clustered verdict taken before the database name is compared", Rule: "R-LEADER", Expect: "isEndpointLeader|verdict from our database's row", Edit: func(p *Program) ([]TextEdit, error) {
		a, err := locate(p, "client", "ovsdbClient", "isEndpointLeader", kStmt, "dbName != o.primaryDBName", 0)
		if err != nil {
			return nil, err
		}
		b, err := locate(p, "client", "ovsdbClient", "isEndpointLeader", kStmt, "sid, ok := row[\"sid\"].(ovsdb.UUID)", 0)
		if err != nil {
			return nil, err
		}
		return []TextEdit{p.editReplace(a, ""), p.editReplace(b, "if dbName != o.primaryDBName {\ncontinue\n}\n"+p.text(b))}, nil
	}})
	registerControl(&ControlDef{Name: "generated slice equality forgets the length test", Rule: "GEN-TMPL", Expect: "slice columns, func equalXX|lengths compared first", Edit: func(p *Program) ([]TextEdit, error) {
		pk := p.Pkgs["modelgen"]
		for _, f := range pk.Syntax {
			var hit *ast.BasicLit
			ast.Inspect(f, func(n ast.Node) bool {
				if bl, ok := n.(*ast.BasicLit); ok && strings.Contains(bl.Value, "for i, v := range a {") {
					hit = bl
				}
				return true
			})
			if hit != nil {
				old := "\"[]\" }}\n\tif len(a) != len(b) {\n\t\treturn false\n\t}\n\tfor i, v := range a {"
				txt := p.text(hit)
				if !strings.Contains(txt, old) {
					return nil, fmt.Errorf("slice branch of the equality helper not found in the template")
				}
				return []TextEdit{p.editReplace(hit, strings.Replace(txt, old, "\"[]\" }}\n\tfor i, v := range a {", 1))}, nil
			}
		}
		return nil, fmt.Errorf("template literal not found")
	}})
	ctl("commit ignores a failed row update", "T-COMMIT", "Commit|reference index after rows", "database/inmemory", "inMemoryDatabase", "Commit", kStmt, "err := targetDb.ApplyCacheUpdate(update)", 0, to("err := targetDb.ApplyCacheUpdate(update)\n_ = err\nerr = nil"))
	ctl("map decoder keeps the destination's map", "K-FRESH", "(*ovsdb.OvsMap).UnmarshalJSON|field GoMap", "ovsdb", "OvsMap", "UnmarshalJSON", kStmt, "o.GoMap = make(map[interface{}]interface{})", 0, to("if o.GoMap == nil {\no.GoMap = make(map[interface{}]interface{})\n}"))
	ctl("default test looks through the pointer", "P-OPT", "isDefaultBaseValue|IsZero receiver", "ovsdb", "", "isDefaultBaseValue", kExpr, "reflect.ValueOf(elem).IsZero()", 0, to("(reflect.ValueOf(elem).IsNil() || reflect.ValueOf(elem).Elem().IsZero())"))
	registerControl(&ControlDef{Name: "uuidset.equals compares entries with single-value lookups", Rule: "MAP-EQ", Expect: "uuidset).equals|entrywise map comparison", Edit: func(p *Program) ([]TextEdit, error) {
		fd, _, err := p.funcDecl("cache", "uuidset", "equals")
		if err != nil {
			return nil, err
		}
		var loop ast.Node
		ast.Inspect(fd.Body, func(n ast.Node) bool {
			if rs, ok := n.(*ast.RangeStmt); ok {
				loop = rs
			}
			return true
		})
		if loop == nil {
			return nil, fmt.Errorf("loop of uuidset.equals not found")
		}
		return []TextEdit{p.editReplace(loop, "for uuid, v := range s {\nif o[uuid] != v {\nreturn false\n}\n}")}, nil
	}})
	ctl("integer conversion trusts the wire value to be non-nil", "P-NIL-REFLECT", "OvsToNativeAtomic|method on reflect.TypeOf", "ovsdb", "", "OvsToNativeAtomic", kExpr, "ovsElem == nil || !reflect.TypeOf(ovsElem).ConvertibleTo(naType)", 0, to("!reflect.TypeOf(ovsElem).ConvertibleTo(naType)"))
	ctl("insert no longer refuses a uuid in use", "T-UUIDFREE", "Transaction).Insert|uuid checked to be free", "database/transaction", "Transaction", "Insert", kExpr, "inUse", 3, to("false"))
	ctl("merge error overwritten by the next step", "ERR-DEAD", "Transaction).Transact|error of Merge", "database/transaction", "Transaction", "Transact", kStmt, "err := update.Merge(t.Model, *u)", 0, to("err := update.Merge(t.Model, *u)\nerr = nil"))
	ctl("addUpdate stores empty updates", "M-DROP", "addUpdate|entry stored only when not empty", "updates", "ModelUpdates", "addUpdate", kExpr, "!update.isEmpty()", 0, to("true"))
	ctl("rows already in the transaction cache are not warmed and stay as listed", "T-WARM", "rowsFromTransactionCacheAndDatabase|database row reconciled", "database/transaction", "Transaction", "rowsFromTransactionCacheAndDatabase", kStmt, "if err := t.Cache.Table(table).Create(rowUUID, row, false); err != nil", 0, func(orig string) string { return "if !t.Cache.Table(table).HasRow(rowUUID) {\n" + orig + "\n}" })
	ctl("updateRow computes its update from the unmutated row again", "T-STALE", "updateRow|current row of AddOperation", "updates", "referenceTracker", "updateRow", kStmt, "model = mutated", 0, to("_ = mutated"))
	ctl("getModel forgets the updates of earlier rounds", "T-SEEALL", "getModel|row state includes earlier rounds", "updates", "referenceTracker", "getModel", kExpr, "rt.referenceUpdates.GetModel(table, uuid)", 0, to("rt.updates.GetModel(table, uuid)"))
	ctl("generator skips the write when the lengths agree", "GEN-SKIP", "Generate|write skipped only for identical content", "modelgen", "generator", "Generate", kExpr, "bytes.Equal(content, src)", 0, to("len(content) == len(src)"))
	ctl("merge treats every bounded set as an atomic value", "MAX-ONE", "mergeModifyRow|Max() compared with 1", "updates", "", "mergeModifyRow", kExpr, "ts.Column(k).TypeObj.Max() != 1", 0, to("ts.Column(k).TypeObj.Max() == ovsdb.Unlimited"))
	registerControl(&ControlDef{Name: "expansion returns early when no name was declared", Rule: "N-SKIP", Expect: "ExpandNamedUUIDs|successful return after the validation pass", Edit: func(p *Program) ([]TextEdit, error) {
		fd, _, err := p.funcDecl("ovsdb", "", "ExpandNamedUUIDs")
		if err != nil {
			return nil, err
		}
		var loop ast.Node
		ast.Inspect(fd.Body, func(n ast.Node) bool {
			if rs, ok := n.(*ast.RangeStmt); ok && strings.Contains(p.text(rs), "schema.Table(op.Table)") {
				if loop == nil {
					loop = rs
				}
			}
			return true
		})
		if loop == nil {
			return nil, fmt.Errorf("substitution loop not found")
		}
		return []TextEdit{p.editReplace(loop, "if len(uuidMap) == 0 {\nreturn ops, nil\n}\n"+p.text(loop))}, nil
	}})
	ctl("error scan bounded by the operations, not the results", "T-SCAN", "Transact|Commit after error scan", "server", "OvsdbServer", "Transact", kStmt, "for _, operResult := range response {", 0, sub("for _, operResult := range response {", "for i := range ops {\noperResult := response[i]"))
	registerControl(&ControlDef{Name: "set encoder builds its output in a package-level buffer", Rule: "G-GLOBAL", Expect: "OvsSet).MarshalJSON|write to package-level", Edit: func(p *Program) ([]TextEdit, error) {
		fd, _, err := p.funcDecl("ovsdb", "OvsSet", "MarshalJSON")
		if err != nil {
			return nil, err
		}
		decl, err := locate(p, "ovsdb", "OvsSet", "MarshalJSON", kStmt, "var oSet []interface{}", 0)
		if err != nil {
			return nil, err
		}
		return []TextEdit{p.editReplace(decl, "setScratch = setScratch[:0]\noSet := setScratch"), p.editRange(fd.End(), fd.End(), "\n\nvar setScratch = make([]interface{}, 0, 2)\n")}, nil
	}})
	registerControl(&ControlDef{Name: "cache runner goroutine captures the loop variable", Rule: "G-LOOPVAR", Expect: "connect|goroutine started in a loop", Edit: func(p *Program) ([]TextEdit, error) {
		fd, _, err := p.funcDecl("client", "ovsdbClient", "connect")
		if err != nil {
			return nil, err
		}
		var gs *ast.GoStmt
		ast.Inspect(fd.Body, func(n ast.Node) bool {
			if g, ok := n.(*ast.GoStmt); ok && strings.Contains(p.text(g), "func(db *database)") {
				gs = g
			}
			return true
		})
		if gs == nil {
			return nil, fmt.Errorf("go func(db *database) not found in connect")
		}
		txt := p.text(gs)
		txt = strings.Replace(txt, "func(db *database)", "func()", 1)
		if i := strings.LastIndex(txt, "}(db)"); i >= 0 {
			txt = txt[:i] + "}()" + txt[i+len("}(db)"):]
		}
		return []TextEdit{p.editReplace(gs, txt)}, nil
	}})
	registerControl(&ControlDef{Name: "per-operation update variable lives across iterations", Rule: "R-ITER", Expect: "Transact|update of Merge produced in this iteration", Edit: func(p *Program) ([]TextEdit, error) {
		a, err := locate(p, "database/transaction", "Transaction", "Transact", kStmt, "var u *updates.ModelUpdates", 0)
		if err != nil {
			return nil, err
		}
		b, err := locate(p, "database/transaction", "Transaction", "Transact", kStmt, "var r ovsdb.OperationResult", 0)
		if err != nil {
			return nil, err
		}
		eds := []TextEdit{p.editReplace(a, ""), p.editReplace(b, "var r ovsdb.OperationResult\nvar u *updates.ModelUpdates")}
		if c, err := locate(p, "database/transaction", "Transaction", "Transact", kStmt, "u = nil", 0); err == nil {
			eds = append(eds, p.editReplace(c, "_ = u"))
		}
		return eds, nil
	}})
	ctl("Update rewrites the cached row in place", "A2-INPLACE", "RowCache).Update|destination of CloneInto", "cache", "RowCache", "Update", kStmt, "r.cache[uuid] = model.Clone(m)", 0, to("model.CloneInto(m, r.cache[uuid])"))
	ctl("lock taken before waiting for the handlers", "L-WAIT", "handleDisconnectNotification|WaitGroup.Wait", "client", "ovsdbClient", "handleDisconnectNotification", kStmt, "o.handlerShutdown.Wait()", 0, to("o.shutdownMutex.Lock()\no.handlerShutdown.Wait()\no.shutdownMutex.Unlock()"))
	ctl("transact accepts an empty operation list", "G-ARGS", "at least one operation", "server", "OvsdbServer", "Transact", kExpr, "len(args) < 2", 0, to("len(args) < 1"))
	ctl("delete-by-keys special case for every column", "P-NIL-TYPEOBJ", "addMutateOperation|deref", "updates", "ModelUpdates", "addMutateOperation", kExpr, `mutation.Mutator == "delete" && column.Type == ovsdb.TypeMap && reflect.TypeOf(mutation.Value) != reflect.TypeOf(ovsdb.OvsMap{})`, 0, to(`mutation.Mutator == "delete" && reflect.TypeOf(mutation.Value) != reflect.TypeOf(ovsdb.OvsMap{})`))
	ctl("leader check signals traffic", "T-WIRE", "isEndpointLeader|transact", "client", "ovsdbClient", "isEndpointLeader", kExpr, "o.transact(ctx, serverDB, true, op)", 0, to("o.transact(ctx, serverDB, false, op)"))
}

func init() {
	// ---- rules added after the sixth wave
	ctl("substitution pass skipped while no name is known", "N-FIELDS", "ExpandNamedUUIDs|select member Where", "ovsdb", "", "ExpandNamedUUIDs", kStmt, "range op.Where", 0, before("if len(uuidMap) == 0 {\ncontinue\n}"))
	ctl("traffic signalled before the RPC's error is looked at", "T-TRAFFIC", "transact|traffic signalled", "client", "ovsdbClient", "transact", kStmt, "err := o.rpcClient.CallWithContext(ctx, \"transact\", args, &reply)", 0, func(orig string) string {
		return orig + "\nif o.trafficSeen != nil {\nselect {\ncase o.trafficSeen <- struct{}{}:\ndefault:\n}\n}"
	})
	ctl("OvsSet encoder quotes with %q", "K-JSONQUOTE", "(ovsdb.OvsSet).MarshalJSON|no Go-syntax quoting", "ovsdb", "OvsSet", "MarshalJSON", kStmt, "return json.Marshal(o.GoSet[0])", 0, to("if s, ok := o.GoSet[0].(string); ok {\nreturn []byte(fmt.Sprintf(\"%q\", s)), nil\n}\nreturn json.Marshal(o.GoSet[0])"))
	ctl("OvsMap decoder refuses boolean keys", "K-ATOMKEYS", "UnmarshalJSON|bool key admitted", "ovsdb", "OvsMap", "UnmarshalJSON", kCase, "string, float64, bool, UUID", 0, sub("float64, bool", "float64"))
	ctl("Row decoder keeps going after a column that cannot be decoded", "ERR-USE-CODEC", "(*ovsdb.Row).UnmarshalJSON|error of", "ovsdb", "Row", "UnmarshalJSON", kStmt, "return err", 0, to("continue"))
	ctl("event processor not counted in handlerShutdown", "R-WG", "connect|go ", "client", "ovsdbClient", "connect", kStmt, "defer o.handlerShutdown.Done()", 0, del)
}

func init() {
	ctl("omitted columns treated like an empty list", "S-ALLCOLS", "filter|omitted columns", "server", "", "columnSet", kExpr, "columns == nil", 0, to("false"))
	ctl("empty table update stored", "S-NOEMPTY", "filter2|table added only", "server", "monitor", "filter2", kExpr, "len(tu2) > 0", 0, to("true"))
}

func init() {
	ctl("Row decoder answers a bad column with success", "ERR-NILRET", "(*ovsdb.Row).UnmarshalJSON|tested error", "ovsdb", "Row", "UnmarshalJSON", kStmt, "return err", 0, to("return nil"))
	ctl("Commit answers a failed cache update with success", "ERR-NILRET", "Commit|tested error", "database/inmemory", "inMemoryDatabase", "Commit", kStmt, "return err", 0, to("return nil"))
}

func init() {
	ctl("generic error loses its arm in ResultFromError", "K3", "ResultFromError|generic type", "ovsdb", "", "ResultFromError", kCase, "*Error", 0, del)
}

func init() {
	ctl("monitor request sent without arming the deferral", "DEFER-ARM", "monitor|monitor request sent with deferral armed", "client", "ovsdbClient", "monitor", kStmt, "db.deferUpdates = true", 0, del)
}

func init() {
	// ---- rules added after the seventh wave
	ctl("event processor looks at the stop channel again after a receive", "V-RECV-PATH", "Run|no exit between", "cache", "eventProcessor", "Run", kStmt, "e.handlersMutex.Lock()", 0, before("select {\ncase <-stopCh:\nreturn\ndefault:\n}"))
	ctl("mapper skips the store for default values", "M-STORE", "getData|converted column value", "mapper", "Mapper", "getData", kStmt, "if err := result.SetField(name, nativeElem); err != nil", 0, before("if ovsdb.IsDefaultValue(column, nativeElem) {\ncontinue\n}"))
	ctl("connect can fail after starting its handlers", "R-STARTLAST", "connect|handlers started", "client", "ovsdbClient", "connect", kStmt, "o.connected = true", 0, before("if o.rpcClient == nil {\nreturn ErrNotConnected\n}"))
	ctl("generator logs a formatting failure and reports success", "ERR-NILRET", "Format|tested error", "modelgen", "generator", "Format", kStmt, "return nil, err", 1, to("log.Printf(\"%v\", err)\nreturn buffer.Bytes(), nil"))
}

func init() {
	registerControl(&ControlDef{Name: "table list built in a slice taken from a package-level pool", Rule: "G-GLOBAL", Expect: "TableCache).Tables|write to package-level", Edit: func(p *Program) ([]TextEdit, error) {
		fd, _, err := p.funcDecl("cache", "TableCache", "Tables")
		if err != nil {
			return nil, err
		}
		decl, err := locate(p, "cache", "TableCache", "Tables", kStmt, "var result []string", 0)
		if err != nil {
			return nil, err
		}
		return []TextEdit{p.editReplace(decl, "result := tableNames.Get().([]string)\ndefer tableNames.Put(result)"), p.editRange(fd.End(), fd.End(), "\n\nvar tableNames = sync.Pool{New: func() interface{} { return []string(nil) }}\n")}, nil
	}})
}

func init() {
	ctl("failed initial contents leave the deferral armed", "DEFER-DISARM", "monitor|no return leaves", "client", "ovsdbClient", "monitor", kStmt, "if rerr := db.applyDeferredUpdates(cookie); rerr != nil", 0, del)
}

func init() {
	ctl("traffic channel closed on disconnect", "CH-CLOSE", "handleDisconnectNotification|close of", "client", "ovsdbClient", "handleDisconnectNotification", kStmt, "close(o.stopCh)", 0, func(orig string) string {
		return orig + "\nif o.trafficSeen != nil {\nclose(o.trafficSeen)\n}"
	})
}

func init() {
	ctl("TableCache.Run returns without waiting for the dispatcher", "V-JOIN", "Run|returns only after", "cache", "TableCache", "Run", kStmt, "wg.Wait()", 0, to("<-stopCh"))
}

func init() {
	ctl("update2 trusts the database name it is sent", "P-NIL-LOOKUP", "update2|deref map element", "client", "ovsdbClient", "update2", kExpr, "db == nil", 0, to("false"))
}

func init() {
	ctl("MonitorAll reads the model without its lock", "L2", "MonitorAll|client.database.model read", "client", "ovsdbClient", "MonitorAll", kStmt, "db.modelMutex.RLock()", 0, del)
}

func init() {
	ctl("monitors looked at while the cache lock is held", "L-ORDER", "order client.database.cacheMutex -> client.database.monitorsMutex", "client", "", "waitForCacheConsistent", kStmt, "if isCacheConsistent(db) {", 0, before("_ = hasMonitors(db)"))
}

func init() {
	ctl("the API of a database read without its lock", "L2", "lockedAPI|client.database.api read", "client", "database", "lockedAPI", kStmt, "db.cacheMutex.RLock()", 0, del)
}

func init() {
	ctl("connection lost but still reported connected", "S-CONNFLAG", "handleDisconnectNotification|rpcClient = nil", "client", "ovsdbClient", "handleDisconnectNotification", kStmt, "o.connected = false", 0, del)
}

func init() {
	ctl("getRow looks at the transaction's updates first", "T-SEEALL", "getRow|most recent version first", "updates", "referenceTracker", "getRow", kStmt, "row := rt.referenceUpdates.GetRow(table, uuid)", 0, to("row := rt.updates.GetRow(table, uuid)\nif row != nil {\nreturn row, nil\n}\nrow = rt.referenceUpdates.GetRow(table, uuid)"))
}

func init() {
	ctl("an empty projection becomes no row", "S-KEEPKIND", "filterColumns|returns nil", "server", "", "filterColumns", kStmt, "return &new", 0, to("if len(new) == 0 {\nreturn nil\n}\nreturn &new"))
}

func init() {
	ctl("monitor handler trusts the length of the parameter list", "P-IDX-RPC", "(*server.OvsdbServer).Monitor|request parameter args[2]", "server", "OvsdbServer", "Monitor", kExpr, "len(args) < 3", 0, to("len(args) < 2"))
}

func init() {
	ctl("wait without a limit polls for ever", "P-POLL", "Wait|polling loop", "database/transaction", "Transaction", "Wait", kStmt, "if timeout == nil {", 0, to("if timeout == nil {\ntime.Sleep(200 * time.Millisecond)\ncontinue\n}"))
}

func init() {
	ctl("snapshot loop trusts every per-table request", "P-NIL-MON", "(*server.OvsdbServer).MonitorCond|deref request of a ranged table", "server", "OvsdbServer", "MonitorCond", kExpr, "request == nil", 0, to("false"))
}

func init() {
	ctl("insert exempt for any table's deleted row", "T-UUIDFREE", "Insert|exemption from the lookup keyed by table and uuid", "database/transaction", "Transaction", "Insert", kExpr, "t.deletedRowTables[op.UUID][op.Table]", 0, to("t.DeletedRows[op.UUID]"))
}
