package main

import (
	"fmt"
	"go/constant"
	"go/token"
	"go/types"
	"sort"
	"strings"

	"golang.org/x/tools/go/ssa"
)

// E2 — ownership and aliasing: SSA value provenance.
//
// Fresh(v): v is (deeply) a value created for the current caller — it shares
// no mutable memory with long-lived storage (cache rows, committed reference
// index). See DESIGN.md §4 E2 for the closure rules.

type freshness struct {
	p        *Program
	results  map[*ssa.Function][]bool // per result index: every returned value is fresh
	memo     map[ssa.Value]int        // 0 unknown, 1 in progress, 2 fresh, 3 not fresh
	whyNot   map[ssa.Value]string
	assumeOK map[*ssa.Parameter]bool // parameters assumed fresh for the current query (A3)
	usedPrm  map[*ssa.Parameter]bool
	inCW     map[ssa.Value]bool // containers/cells whose writes are being examined (cycle cut)
	// bind: function-typed parameters bound to the function passed at the call
	// being examined (copyRows(model.Clone)): the callee is re-evaluated for that call
	bind      map[*ssa.Parameter]*ssa.Function
	specDepth int
}

// funcOperand: the function a call argument denotes (a named function or a closure).
func funcOperand(v ssa.Value) *ssa.Function {
	switch x := v.(type) {
	case *ssa.Function:
		return x
	case *ssa.MakeClosure:
		fn, _ := x.Fn.(*ssa.Function)
		return fn
	case *ssa.ChangeType:
		return funcOperand(x.X)
	}
	return nil
}

// specialisedFresh re-evaluates result idx of g for the call c, with g's
// function-typed parameters bound to the functions passed at c.
func (f *freshness) specialisedFresh(c *ssa.Call, g *ssa.Function, idx int) bool {
	if f.specDepth >= 2 || g.Blocks == nil {
		return false
	}
	args := c.Common().Args
	off := 0
	if c.Common().IsInvoke() {
		off = 1
	}
	bind := map[*ssa.Parameter]*ssa.Function{}
	for i, a := range args {
		if i+off >= len(g.Params) {
			break
		}
		if _, isSig := g.Params[i+off].Type().Underlying().(*types.Signature); !isSig {
			continue
		}
		if fn := funcOperand(a); fn != nil {
			bind[g.Params[i+off]] = fn
		}
	}
	if len(bind) == 0 {
		return false
	}
	savedMemo, savedWhy, savedBind, savedCW := f.memo, f.whyNot, f.bind, f.inCW
	f.memo, f.whyNot, f.bind, f.inCW = map[ssa.Value]int{}, map[ssa.Value]string{}, bind, nil
	f.specDepth++
	ok := true
	for _, b := range g.Blocks {
		if isRecoverBlock(b) {
			continue
		}
		for _, ins := range b.Instrs {
			if ret, isRet := ins.(*ssa.Return); isRet && idx < len(ret.Results) {
				if !f.fresh(retValue(ret, idx), 0) {
					ok = false
				}
			}
		}
	}
	f.specDepth--
	f.memo, f.whyNot, f.bind, f.inCW = savedMemo, savedWhy, savedBind, savedCW
	return ok
}

// axiomFresh: functions whose result is a new deep copy / new object by
// contract (their bodies go through reflect and cannot be analysed).
var axiomFresh = map[string]bool{
	"github.com/ovn-org/libovsdb/model.Clone":                           true,
	"(github.com/ovn-org/libovsdb/model.DatabaseModel).NewModel":        true,
	"github.com/ovn-org/libovsdb/model.CreateModel":                     true,
	"(*github.com/ovn-org/libovsdb/ovsdb/serverdb.Database).CloneModel": true,
}

func isRefFree(t types.Type, depth int) bool {
	if depth > 6 {
		return false
	}
	switch u := t.Underlying().(type) {
	case *types.Basic:
		return true
	case *types.Struct:
		for i := 0; i < u.NumFields(); i++ {
			if !isRefFree(u.Field(i).Type(), depth+1) {
				return false
			}
		}
		return true
	case *types.Array:
		return isRefFree(u.Elem(), depth+1)
	}
	return false
}

var freshCache = map[*Program]*freshness{}

func getFreshness(p *Program) *freshness {
	if f, ok := freshCache[p]; ok {
		return f
	}
	f := &freshness{p: p, results: map[*ssa.Function][]bool{}}
	// optimistic start, iterate down to the greatest fixpoint
	for _, fn := range p.srcFuncs {
		n := fn.Signature.Results().Len()
		rs := make([]bool, n)
		for i := range rs {
			rs[i] = true
		}
		f.results[fn] = rs
	}
	for iter := 0; iter < 10; iter++ {
		changed := false
		for _, fn := range p.srcFuncs {
			rs := f.results[fn]
			if len(rs) == 0 {
				continue
			}
			f.memo = map[ssa.Value]int{}
			f.whyNot = map[ssa.Value]string{}
			for _, b := range fn.Blocks {
				for _, ins := range b.Instrs {
					ret, ok := ins.(*ssa.Return)
					if !ok {
						continue
					}
					if isRecoverBlock(b) {
						continue
					}
					for i := range ret.Results {
						v := retValue(ret, i)
						if rs[i] && !f.fresh(v, 0) {
							rs[i] = false
							changed = true
						}
					}
				}
			}
		}
		if !changed {
			break
		}
	}
	f.memo = map[ssa.Value]int{}
	f.whyNot = map[ssa.Value]string{}
	freshCache = map[*Program]*freshness{p: f}
	return f
}

func (f *freshness) no(v ssa.Value, why string) bool {
	f.memo[v] = 3
	f.whyNot[v] = why
	return false
}

func (f *freshness) reason(v ssa.Value) string {
	// follow to the innermost recorded reason
	seen := map[ssa.Value]bool{}
	for {
		w, ok := f.whyNot[v]
		if !ok {
			return "value of unknown provenance"
		}
		if seen[v] {
			return w
		}
		seen[v] = true
		return w
	}
}

func (f *freshness) calleeFresh(c *ssa.Call, idx int) (bool, string) {
	cc := c.Common()
	if prm, ok := cc.Value.(*ssa.Parameter); ok && !cc.IsInvoke() && f.bind != nil {
		if g := f.bind[prm]; g != nil {
			name := g.String()
			if o := g.Origin(); o != nil {
				name = o.String()
			}
			if axiomFresh[name] {
				return true, ""
			}
			if rs := f.results[g]; f.p.inRepo(g) && g.Blocks != nil && idx < len(rs) && rs[idx] {
				return true, ""
			}
			return false, "result of " + funcName(g) + " (passed as " + prm.Name() + ") is not always a fresh copy"
		}
	}
	if !cc.IsInvoke() {
		if sc := cc.StaticCallee(); sc != nil {
			name := sc.String()
			if o := sc.Origin(); o != nil {
				name = o.String()
			}
			if axiomFresh[name] {
				return true, ""
			}
		}
	} else {
		// interface method declared fresh by axiom? (DatabaseModel is a struct; nothing here)
	}
	callees, ok := f.p.Callees(c)
	if !ok {
		return false, "result of a dynamic call"
	}
	if len(callees) == 0 {
		return false, "result of a call with no resolvable callee"
	}
	for _, g := range callees {
		if axiomFresh[g.String()] {
			continue
		}
		if !f.p.inRepo(g) || g.Blocks == nil {
			return false, "result of external " + g.String()
		}
		rs := f.results[g]
		if (idx >= len(rs) || !rs[idx]) && f.specialisedFresh(c, g, idx) {
			continue
		}
		if idx >= len(rs) || !rs[idx] {
			return false, "result #" + fmt.Sprint(idx) + " of " + funcName(g) + " is not always a fresh copy"
		}
	}
	return true, ""
}

// fresh decides Fresh(v).
func (f *freshness) fresh(v ssa.Value, depth int) bool {
	if v == nil {
		return true
	}
	switch f.memo[v] {
	case 1:
		return true // cycle through a phi: optimistic
	case 2:
		return true
	case 3:
		return false
	}
	if depth > 40 {
		return f.no(v, "provenance chain too long")
	}
	if isRefFree(v.Type(), 0) {
		f.memo[v] = 2
		return true
	}
	f.memo[v] = 1
	ok := f.fresh1(v, depth)
	if ok {
		f.memo[v] = 2
	} else if f.memo[v] != 3 {
		f.memo[v] = 3
	}
	return ok
}

func (f *freshness) fresh1(v ssa.Value, depth int) bool {
	switch x := v.(type) {
	case *ssa.Const:
		return true
	case *ssa.Alloc:
		// a new object; what is stored into it must be fresh too
		return f.storesFresh(x, depth)
	case *ssa.MakeMap:
		return f.containerWritesFresh(x, depth)
	case *ssa.MakeSlice:
		return f.containerWritesFresh(x, depth)
	case *ssa.MakeInterface:
		return f.pass(v, x.X, depth)
	case *ssa.ChangeInterface:
		return f.pass(v, x.X, depth)
	case *ssa.ChangeType:
		return f.pass(v, x.X, depth)
	case *ssa.Convert:
		return f.pass(v, x.X, depth)
	case *ssa.TypeAssert:
		return f.pass(v, x.X, depth)
	case *ssa.Slice:
		return f.pass(v, x.X, depth)
	case *ssa.Phi:
		for _, e := range x.Edges {
			if !f.fresh(e, depth+1) {
				return f.no(v, f.reason(e))
			}
		}
		return true
	case *ssa.Extract:
		switch t := x.Tuple.(type) {
		case *ssa.Call:
			if ok, why := f.calleeFresh(t, x.Index); !ok {
				return f.no(v, why)
			}
			return true
		case *ssa.TypeAssert:
			if x.Index == 0 {
				return f.pass(v, t.X, depth)
			}
			return true
		case *ssa.Lookup:
			if x.Index == 0 {
				return f.pass(v, t.X, depth)
			}
			return true
		case *ssa.Next:
			// range over map/slice: key and value come from the ranged collection
			if rg, ok := t.Iter.(*ssa.Range); ok {
				return f.pass(v, rg.X, depth)
			}
			return f.no(v, "range over unknown iterator")
		}
		return f.no(v, "tuple element of unknown provenance")
	case *ssa.Call:
		if bi, ok := x.Call.Value.(*ssa.Builtin); ok {
			switch bi.Name() {
			case "append":
				if !f.fresh(x.Call.Args[0], depth+1) {
					return f.no(v, "append to a slice that is not owned: "+f.reason(x.Call.Args[0]))
				}
				if len(x.Call.Args) > 1 {
					// appended elements: only matters when elements hold references
					if sl, ok := x.Type().Underlying().(*types.Slice); ok && !isRefFree(sl.Elem(), 0) {
						if !f.fresh(x.Call.Args[1], depth+1) {
							return f.no(v, "appended elements are not fresh: "+f.reason(x.Call.Args[1]))
						}
					}
				}
				return true
			}
			return f.no(v, "result of builtin "+bi.Name())
		}
		if ok, why := f.calleeFresh(x, 0); !ok {
			return f.no(v, why)
		}
		return true
	case *ssa.Lookup:
		if !f.fresh(x.X, depth+1) {
			return f.no(v, "element read from storage that is not a private copy: "+f.reason(x.X))
		}
		return true
	case *ssa.UnOp:
		if x.Op != token.MUL {
			return f.pass(v, x.X, depth)
		}
		switch a := x.X.(type) {
		case *ssa.Alloc:
			return f.cellFresh(v, a, depth)
		case *ssa.IndexAddr:
			// element of a slice/array
			if !f.fresh(a.X, depth+1) {
				return f.no(v, "element of a slice that is not a private copy: "+f.reason(a.X))
			}
			return true
		case *ssa.FieldAddr:
			if baseIsLocalAlloc(a.X) {
				// field of a struct being built locally
				if al := rootAlloc(a); al != nil {
					return f.fieldCellFresh(v, al, a, depth)
				}
			}
			st, _ := deref(a.X.Type()).Underlying().(*types.Struct)
			name := "?"
			if st != nil {
				name = st.Field(a.Field).Name()
			}
			return f.no(v, "read from field "+name+" (shared storage)")
		case *ssa.FreeVar:
			return f.freeVarFresh(v, a, depth)
		case *ssa.Global:
			return f.no(v, "read from package variable "+a.Name())
		}
		return f.no(v, "load through a pointer of unknown provenance")
	case *ssa.Parameter:
		if f.assumeOK != nil {
			f.usedPrm[x] = true
			return true
		}
		return f.no(v, "parameter "+x.Name()+" (caller-owned, may alias shared storage)")
	case *ssa.FreeVar:
		return f.no(v, "captured variable "+x.Name())
	case *ssa.Field:
		return f.pass(v, x.X, depth)
	case *ssa.MakeClosure, *ssa.Function:
		return true
	}
	return f.no(v, fmt.Sprintf("value of kind %T", v))
}

func (f *freshness) pass(v, x ssa.Value, depth int) bool {
	if f.fresh(x, depth+1) {
		return true
	}
	return f.no(v, f.reason(x))
}

// storesFresh: every value stored into the object allocated by al (directly or
// into its fields/elements) is fresh.
func (f *freshness) storesFresh(al *ssa.Alloc, depth int) bool {
	ok := true
	var visit func(addr ssa.Value)
	visit = func(addr ssa.Value) {
		refs := addr.Referrers()
		if refs == nil {
			return
		}
		for _, ref := range *refs {
			switch u := ref.(type) {
			case *ssa.Store:
				if u.Addr == addr && !f.fresh(u.Val, depth+1) {
					ok = false
					f.whyNot[al] = "object initialised with " + f.reason(u.Val)
				}
			case *ssa.FieldAddr:
				if u.X == addr {
					visit(u)
				}
			case *ssa.IndexAddr:
				if u.X == addr {
					visit(u)
				}
			}
		}
	}
	visit(al)
	if !ok {
		f.memo[al] = 3
	}
	return ok
}

// containerWritesFresh: every element stored into a locally made map/slice is fresh.
func (f *freshness) containerWritesFresh(c ssa.Value, depth int) bool {
	refs := c.Referrers()
	if refs == nil {
		return true
	}
	if f.inCW == nil {
		f.inCW = map[ssa.Value]bool{}
	}
	if f.inCW[c] {
		return true // already being examined higher up: a load stored back into its own cell
	}
	f.inCW[c] = true
	defer delete(f.inCW, c)
	for _, ref := range *refs {
		switch u := ref.(type) {
		case *ssa.MapUpdate:
			if u.Map == c {
				if !f.fresh(u.Value, depth+1) {
					return f.no(c, "map element is "+f.reason(u.Value))
				}
				if !f.fresh(u.Key, depth+1) {
					return f.no(c, "map key is "+f.reason(u.Key))
				}
			}
		case *ssa.IndexAddr:
			if u.X == c {
				if ir := u.Referrers(); ir != nil {
					for _, r2 := range *ir {
						if st, ok := r2.(*ssa.Store); ok && st.Addr == u && !f.fresh(st.Val, depth+1) {
							return f.no(c, "slice element is "+f.reason(st.Val))
						}
					}
				}
			}
		case *ssa.Store:
			// the container is stored into a local cell: writes through later loads of that cell
			if u.Val == c {
				if al, ok := u.Addr.(*ssa.Alloc); ok {
					if !f.cellContainerWritesFresh(al, depth) {
						return f.no(c, f.reason(al))
					}
				}
			}
		case *ssa.MakeClosure:
			// captured by value: writes inside the closure
			for i, b := range u.Bindings {
				if b == c {
					g := u.Fn.(*ssa.Function)
					if !f.containerWritesFresh(g.FreeVars[i], depth+1) {
						return f.no(c, f.reason(g.FreeVars[i]))
					}
				}
			}
		}
	}
	return true
}

// cellContainerWritesFresh: a map/slice kept in a local variable: all element
// writes through any load of that variable (including in closures) are fresh.
func (f *freshness) cellContainerWritesFresh(cell ssa.Value, depth int) bool {
	refs := cell.Referrers()
	if refs == nil {
		return true
	}
	if f.inCW == nil {
		f.inCW = map[ssa.Value]bool{}
	}
	if f.inCW[cell] {
		return true
	}
	f.inCW[cell] = true
	defer delete(f.inCW, cell)
	for _, ref := range *refs {
		switch u := ref.(type) {
		case *ssa.UnOp:
			if u.Op == token.MUL && u.X == cell {
				if !f.containerWritesFresh(u, depth+1) {
					return f.no(cell, f.reason(u))
				}
			}
		case *ssa.MakeClosure:
			for i, b := range u.Bindings {
				if b == cell {
					g := u.Fn.(*ssa.Function)
					if !f.cellContainerWritesFresh(g.FreeVars[i], depth+1) {
						return f.no(cell, f.reason(g.FreeVars[i]))
					}
				}
			}
		}
	}
	return true
}

// cellFresh: a load of local variable al is fresh when every store to it stores a fresh value
// and containers kept in it only receive fresh elements.
func (f *freshness) cellFresh(v ssa.Value, al *ssa.Alloc, depth int) bool {
	if !f.cellStoresFresh(al, depth) {
		return f.no(v, f.reason(al))
	}
	if !f.cellContainerWritesFresh(al, depth) {
		return f.no(v, f.reason(al))
	}
	return true
}

func (f *freshness) cellStoresFresh(cell ssa.Value, depth int) bool {
	refs := cell.Referrers()
	if refs == nil {
		return true
	}
	for _, ref := range *refs {
		switch u := ref.(type) {
		case *ssa.Store:
			if u.Addr == cell && !f.fresh(u.Val, depth+1) {
				return f.no(cell, "variable assigned "+f.reason(u.Val))
			}
		case *ssa.MakeClosure:
			for i, b := range u.Bindings {
				if b == cell {
					g := u.Fn.(*ssa.Function)
					if !f.cellStoresFresh(g.FreeVars[i], depth+1) {
						return f.no(cell, f.reason(g.FreeVars[i]))
					}
				}
			}
		case ssa.CallInstruction:
			// &local passed to a call (e.g. json.Unmarshal(b, &x)): filled by the callee with new data
		}
	}
	return true
}

func (f *freshness) fieldCellFresh(v ssa.Value, al *ssa.Alloc, fa *ssa.FieldAddr, depth int) bool {
	// all stores to the same field of the same local object
	ok := true
	var visit func(addr ssa.Value)
	visit = func(addr ssa.Value) {
		refs := addr.Referrers()
		if refs == nil {
			return
		}
		for _, ref := range *refs {
			if u, isFA := ref.(*ssa.FieldAddr); isFA && u.X == addr {
				if u.Field == fa.Field {
					if r2 := u.Referrers(); r2 != nil {
						for _, s := range *r2 {
							if st, isSt := s.(*ssa.Store); isSt && st.Addr == u && !f.fresh(st.Val, depth+1) {
								ok = false
								f.whyNot[v] = f.reason(st.Val)
							}
						}
					}
				}
			}
		}
	}
	visit(fa.X)
	// whole-object stores into the local (x = y) also define the field
	var whole func(addr ssa.Value)
	whole = func(addr ssa.Value) {
		if refs := addr.Referrers(); refs != nil {
			for _, ref := range *refs {
				if st, isSt := ref.(*ssa.Store); isSt && st.Addr == addr && !f.fresh(st.Val, depth+1) {
					ok = false
					f.whyNot[v] = f.reason(st.Val)
				}
			}
		}
		if inner, isFA := addr.(*ssa.FieldAddr); isFA {
			whole(inner.X)
		}
	}
	whole(fa.X)
	if !ok {
		f.memo[v] = 3
	}
	return ok
}

// freeVarFresh: a load of a captured variable: resolve to the parent's cell.
func (f *freshness) freeVarFresh(v ssa.Value, fv *ssa.FreeVar, depth int) bool {
	fn := fv.Parent()
	parent := fn.Parent()
	if parent == nil {
		return f.no(v, "captured variable "+fv.Name())
	}
	idx := -1
	for i, x := range fn.FreeVars {
		if x == fv {
			idx = i
		}
	}
	for _, b := range parent.Blocks {
		for _, ins := range b.Instrs {
			if mc, ok := ins.(*ssa.MakeClosure); ok && mc.Fn == fn && idx >= 0 && idx < len(mc.Bindings) {
				switch cell := mc.Bindings[idx].(type) {
				case *ssa.Alloc:
					if f.cellStoresFresh(cell, depth+1) && f.cellContainerWritesFresh(cell, depth+1) {
						return true
					}
					return f.no(v, f.reason(cell))
				case *ssa.FreeVar:
					return f.freeVarFresh(v, cell, depth+1)
				}
			}
		}
	}
	return f.no(v, "captured variable "+fv.Name()+" of unknown provenance")
}

// ---------------------------------------------------------------------------

func typeMentions(t types.Type, pred func(*types.Named) bool, depth int) bool {
	if depth > 5 {
		return false
	}
	switch u := t.(type) {
	case *types.Named:
		if pred(u) {
			return true
		}
		if _, isStruct := u.Underlying().(*types.Struct); isStruct {
			return false
		}
		return typeMentions(u.Underlying(), pred, depth+1)
	case *types.Pointer:
		return typeMentions(u.Elem(), pred, depth+1)
	case *types.Map:
		return typeMentions(u.Elem(), pred, depth+1) || typeMentions(u.Key(), pred, depth+1)
	case *types.Slice:
		return typeMentions(u.Elem(), pred, depth+1)
	}
	return false
}

// guardedResult: does a result type carry models or reference indexes?
func guardedResult(t types.Type) bool {
	return typeMentions(t, func(n *types.Named) bool {
		pk := ""
		if n.Obj().Pkg() != nil {
			pk = n.Obj().Pkg().Path()
		}
		switch {
		case pk == repoMod+"/model" && n.Obj().Name() == "Model":
			return true
		case pk == repoMod+"/database" && (n.Obj().Name() == "References" || n.Obj().Name() == "Reference"):
			return true
		}
		return false
	}, 0)
}

// a1Exceptions: read-only-by-contract accessors, checked by A1' instead.
var a1Exceptions = map[string]string{
	"(*cache.RowCache).RowsShallow": "documented read-only view; callers are frozen by A1'",
}

var a1Packages = map[string]bool{"cache": true, "client": true, "database": true, "database/inmemory": true}

func ruleA1(p *Program, r *Reporter) {
	const id = "A1"
	f := getFreshness(p)
	cond := p.LookupType("client", "Conditional")
	for _, fn := range p.srcFuncs {
		if fn.Parent() != nil || !a1Packages[pkgOf(fn)] || fn.Object() == nil {
			continue
		}
		isAPI := fn.Object().Exported()
		if !isAPI && cond != nil && fn.Name() == "Matches" && fn.Signature.Recv() != nil {
			if iface, ok := cond.Underlying().(*types.Interface); ok && types.Implements(fn.Signature.Recv().Type(), iface) {
				isAPI = true
			}
		}
		if !isAPI {
			continue
		}
		res := fn.Signature.Results()
		var idxs []int
		for i := 0; i < res.Len(); i++ {
			if guardedResult(res.At(i).Type()) {
				idxs = append(idxs, i)
			}
		}
		if len(idxs) == 0 {
			continue
		}
		name := funcName(fn)
		if why, ex := a1Exceptions[name]; ex {
			r.Ob(id, name, "result", fn.Pos(), true, false, "exception: "+why)
			continue
		}
		f.memo = map[ssa.Value]int{}
		f.whyNot = map[ssa.Value]string{}
		for _, b := range fn.Blocks {
			for _, ins := range b.Instrs {
				ret, ok := ins.(*ssa.Return)
				if !ok {
					continue
				}
				if isRecoverBlock(b) {
					continue
				}
				for _, i := range idxs {
					v := retValue(ret, i)
					ok := f.fresh(v, 0)
					why := "returned value is a fresh copy / newly built container of fresh copies"
					nontrivial := !isNilConst(v)
					if !ok {
						why = "returns a value that is not a private copy: " + f.reason(v) + " — the caller can modify shared storage through it"
					}
					r.Ob(id, name, fmt.Sprintf("result #%d %s", i, typeStr(res.At(i).Type())), retPos(ret, fn), ok, nontrivial, why)
				}
			}
		}
	}
}

// ruleA1p: RowsShallow hands out the cached models themselves; its callers are
// frozen and must not let them reach a return value or a store uncopied.
func ruleA1p(p *Program, r *Reporter) {
	const id = "A1p"
	rs := p.Fn("cache", "RowCache", "RowsShallow")
	if rs == nil {
		r.Anchor(id, "cache.(*RowCache).RowsShallow")
		return
	}
	allowed := map[string]string{
		"(*database/transaction.Transaction).checkIndexes": "only passes rows to the read-only IndexExists/CheckIndexes",
		"(*client.predicateConditional).Matches":           "clones every row it returns",
	}
	ci := getCallIndex(p)
	f := getFreshness(p)
	sites := ci.sites[rs]
	if len(sites) == 0 {
		r.Anchor(id, "no caller of RowsShallow")
		return
	}
	for _, s := range sites {
		name := funcName(s.caller)
		_, ok := allowed[name]
		why := "frozen caller: " + allowed[name]
		if !ok {
			why = name + " is not one of the reviewed callers of RowsShallow (which returns the cached models without copying)"
		}
		r.Ob(id, name, "calls RowsShallow", s.instr.Pos(), ok, true, why)
		// in the caller, returned guarded values must be fresh
		f.memo = map[ssa.Value]int{}
		f.whyNot = map[ssa.Value]string{}
		res := s.caller.Signature.Results()
		for _, b := range s.caller.Blocks {
			for _, ins := range b.Instrs {
				ret, isRet := ins.(*ssa.Return)
				if !isRet {
					continue
				}
				if isRecoverBlock(b) {
					continue
				}
				for i := range ret.Results {
					v := retValue(ret, i)
					if guardedResult(res.At(i).Type()) {
						ok := f.fresh(v, 0)
						why := "shallow rows only leave through model.Clone"
						if !ok {
							why = "a shallow (uncopied) row can reach this return: " + f.reason(v)
						}
						r.Ob(id, name, fmt.Sprintf("result #%d", i), retPos(ret, s.caller), ok, !isNilConst(v), why)
					}
				}
			}
		}
	}
}

// ruleA2: what is stored in RowCache.cache is a fresh copy of the caller's model.
func ruleA2(p *Program, r *Reporter) {
	const id = "A2"
	fld := p.Field("cache", "RowCache", "cache")
	if fld == nil {
		r.Anchor(id, "cache.RowCache.cache")
		return
	}
	f := getFreshness(p)
	for _, a := range collectAccesses(p, map[*types.Var]bool{fld: true}) {
		mu, ok := a.instr.(*ssa.MapUpdate)
		if !ok {
			continue
		}
		f.memo = map[ssa.Value]int{}
		f.whyNot = map[ssa.Value]string{}
		okk := f.fresh(mu.Value, 0)
		why := "the cache stores a private copy"
		if !okk {
			why = "the cache stores " + f.reason(mu.Value) + ": the caller keeps a reference to the cached row and can change it behind the cache's back"
		}
		r.Ob(id, funcName(a.fn), "store into RowCache.cache", mu.Pos(), okk, true, why)
	}
}

// ---------------------------------------------------------------------------
// A3 — owned argument of in-place algorithms

// inPlaceArg: functions of package updates that modify an argument in place
// through reflect (confirmed by reading; reflect stores are invisible to SSA).
var inPlaceArg = map[string]int{
	"updates.difference":         0,
	"updates.applyDifference":    0,
	"updates.mergeDifference":    1,
	"updates.setDifference":      0,
	"updates.mergeMapDifference": 1,
	"updates.mutate":             0,
	"updates.mutateInsert":       0,
	"updates.mutateDelete":       0,
	"updates.mutateAdd":          0,
	"updates.mutateSubtract":     0,
	"updates.mutateMultiply":     0,
	"updates.mutateDivide":       0,
	"updates.mutateModulo":       0,
	"updates.mergeModifyRow":     2,
	"updates.mergeRowUpdate":     1,
	"updates.merge":              1,
}

// infoWrapsFresh: v is a *mapper.Info built from a fresh model in the same
// function; or a parameter (returns the parameter).
func (f *freshness) infoOwned(v ssa.Value, depth int) (ok bool, prm *ssa.Parameter, why string) {
	if depth > 6 {
		return false, nil, "info provenance too deep"
	}
	switch x := v.(type) {
	case *ssa.Parameter:
		return true, x, ""
	case *ssa.Extract:
		if c, isCall := x.Tuple.(*ssa.Call); isCall && x.Index == 0 {
			return f.infoFromCall(c, depth)
		}
	case *ssa.Call:
		return f.infoFromCall(x, depth)
	case *ssa.Phi:
		for _, e := range x.Edges {
			if ok, prm, why := f.infoOwned(e, depth+1); !ok || prm != nil {
				return ok, prm, why
			}
		}
		return true, nil, ""
	case *ssa.UnOp:
		if al, isAl := x.X.(*ssa.Alloc); isAl && x.Op == token.MUL {
			if refs := al.Referrers(); refs != nil {
				for _, ref := range *refs {
					if st, isSt := ref.(*ssa.Store); isSt && st.Addr == al {
						if ok, prm, why := f.infoOwned(st.Val, depth+1); !ok || prm != nil {
							return ok, prm, why
						}
					}
				}
				return true, nil, ""
			}
		}
	}
	return false, nil, "Info of unknown provenance"
}

func (f *freshness) infoFromCall(c *ssa.Call, depth int) (bool, *ssa.Parameter, string) {
	sc := c.Call.StaticCallee()
	if sc == nil {
		return false, nil, "Info from a dynamic call"
	}
	switch sc.Name() {
	case "NewModelInfo", "NewInfo":
		// model argument is the last argument
		m := c.Call.Args[len(c.Call.Args)-1]
		if f.fresh(m, 0) {
			return true, nil, ""
		}
		return false, nil, "Info wraps a model that is not a private copy: " + f.reason(m)
	}
	return false, nil, "Info returned by " + funcName(sc)
}

// ownedArg decides whether the in-place argument v at a call inside fn is owned.
func (f *freshness) ownedArg(fn *ssa.Function, v ssa.Value, visiting map[*ssa.Function]bool, depth int) (bool, string) {
	if depth > 6 {
		return false, "ownership chain too deep"
	}
	if isNilConst(v) {
		return true, "nil"
	}
	// strip interface conversions
	for {
		switch x := v.(type) {
		case *ssa.MakeInterface:
			v = x.X
			continue
		case *ssa.ChangeInterface:
			v = x.X
			continue
		case *ssa.TypeAssert:
			v = x.X
			continue
		}
		break
	}
	// (a) FieldByColumn on an owned Info
	var call *ssa.Call
	switch x := v.(type) {
	case *ssa.Extract:
		call, _ = x.Tuple.(*ssa.Call)
		if x.Index != 0 {
			call = nil
		}
	case *ssa.Call:
		call = x
	}
	if call != nil {
		if sc := call.Call.StaticCallee(); sc != nil {
			switch {
			case sc.Name() == "FieldByColumn" && pkgOf(sc) == "mapper":
				ok, prm, why := f.infoOwned(call.Call.Args[0], 0)
				if !ok {
					return false, why
				}
				if prm == nil {
					return true, "field of a model cloned in " + funcName(fn)
				}
				var check func(caller *ssa.Function, arg ssa.Value) (bool, string)
				check = func(caller *ssa.Function, arg ssa.Value) (bool, string) {
					ok, p2, why := f.infoOwned(arg, 0)
					if !ok {
						return false, why
					}
					if p2 != nil {
						return f.paramOwnedByCallers(caller, p2, visiting, depth+1, check)
					}
					return true, ""
				}
				return f.paramOwnedByCallers(fn, prm, visiting, depth, check)
			case inPlaceArgOf(sc) >= 0:
				return true, "result of a previous difference/mutation step (owned by construction)"
			}
		}
	}
	// (b) element of a local accumulator map
	if lk, ok := v.(*ssa.Lookup); ok {
		if _, isMake := lk.X.(*ssa.MakeMap); isMake {
			return true, "element of a local accumulator"
		}
		// element of an element of a parameter (References): obligation on callers
		if inner, ok := lk.X.(*ssa.Lookup); ok {
			if prm, ok := inner.X.(*ssa.Parameter); ok {
				return f.paramOwnedByCallers(fn, prm, visiting, depth, nil)
			}
		}
		if ex, ok := lk.X.(*ssa.Extract); ok {
			if inner, ok := ex.Tuple.(*ssa.Lookup); ok {
				if prm, ok := inner.X.(*ssa.Parameter); ok {
					return f.paramOwnedByCallers(fn, prm, visiting, depth, nil)
				}
			}
		}
	}
	if ex, ok := v.(*ssa.Extract); ok {
		if lk, ok := ex.Tuple.(*ssa.Lookup); ok && ex.Index == 0 {
			return f.ownedArg(fn, lk, visiting, depth+1)
		}
	}
	if prm, ok := v.(*ssa.Parameter); ok {
		return f.paramOwnedByCallers(fn, prm, visiting, depth, nil)
	}
	if fromOwnAccumulator(v, 0) {
		return true, "element of the receiver's own accumulator (ModelUpdates.updates)"
	}
	f.memo = map[ssa.Value]int{}
	f.whyNot = map[ssa.Value]string{}
	if f.fresh(v, 0) {
		return true, "fresh value"
	}
	return false, f.reason(v)
}

// derivesFrom: v is prm or is reached from prm through loads, fields, lookups,
// assertions and local temporaries (a part of the object prm designates).
func derivesFrom(v ssa.Value, prm *ssa.Parameter, depth int) bool {
	if v == ssa.Value(prm) {
		return true
	}
	if depth > 10 {
		return false
	}
	switch x := v.(type) {
	case *ssa.Alloc:
		if refs := x.Referrers(); refs != nil {
			for _, ref := range *refs {
				if st, ok := ref.(*ssa.Store); ok && st.Addr == x && derivesFrom(st.Val, prm, depth+1) {
					return true
				}
			}
		}
		return false
	case *ssa.UnOp:
		return derivesFrom(x.X, prm, depth+1)
	case *ssa.FieldAddr:
		return derivesFrom(x.X, prm, depth+1)
	case *ssa.Field:
		return derivesFrom(x.X, prm, depth+1)
	case *ssa.IndexAddr:
		return derivesFrom(x.X, prm, depth+1)
	case *ssa.Lookup:
		return derivesFrom(x.X, prm, depth+1)
	case *ssa.Extract:
		switch t := x.Tuple.(type) {
		case *ssa.Lookup:
			return derivesFrom(t.X, prm, depth+1)
		case *ssa.TypeAssert:
			return derivesFrom(t.X, prm, depth+1)
		}
	case *ssa.TypeAssert:
		return derivesFrom(x.X, prm, depth+1)
	case *ssa.MakeInterface:
		return derivesFrom(x.X, prm, depth+1)
	case *ssa.ChangeType:
		return derivesFrom(x.X, prm, depth+1)
	}
	return false
}

// fromOwnAccumulator: v is an element of ModelUpdates.updates, the private
// accumulator of the update being built.
func fromOwnAccumulator(v ssa.Value, depth int) bool {
	if depth > 8 {
		return false
	}
	switch x := v.(type) {
	case *ssa.Lookup:
		return fromOwnAccumulator(x.X, depth+1)
	case *ssa.Extract:
		if lk, ok := x.Tuple.(*ssa.Lookup); ok {
			return fromOwnAccumulator(lk.X, depth+1)
		}
	case *ssa.Phi:
		// every incoming value is either an element of the accumulator or a container
		// that is stored into it (the "create the inner map on first use" idiom)
		for _, e := range x.Edges {
			if _, isMake := e.(*ssa.MakeMap); isMake && storedIntoOwnAccumulator(e) {
				continue
			}
			if !fromOwnAccumulator(e, depth+1) {
				return false
			}
		}
		return true
	case *ssa.MakeMap:
		return storedIntoOwnAccumulator(x)
	case *ssa.UnOp:
		if x.Op != token.MUL {
			return false
		}
		if fa, ok := x.X.(*ssa.FieldAddr); ok {
			if fld := fieldOfAddr(fa); fld != nil && fieldOwner[fld] == "ModelUpdates" && fld.Name() == "updates" {
				return true
			}
		}
		if al, ok := x.X.(*ssa.Alloc); ok {
			any := false
			if refs := al.Referrers(); refs != nil {
				for _, ref := range *refs {
					if st, ok := ref.(*ssa.Store); ok && st.Addr == al {
						any = true
						if _, isMake := st.Val.(*ssa.MakeMap); isMake && storedIntoOwnAccumulator(st.Val) {
							continue
						}
						if !fromOwnAccumulator(st.Val, depth+1) {
							return false
						}
					}
				}
			}
			return any
		}
	}
	return false
}

// storedIntoOwnAccumulator: the freshly made container is put into ModelUpdates.updates.
func storedIntoOwnAccumulator(v ssa.Value) bool {
	refs := v.Referrers()
	if refs == nil {
		return false
	}
	for _, ref := range *refs {
		if mu, ok := ref.(*ssa.MapUpdate); ok && mu.Value == v && fromOwnAccumulator(mu.Map, 0) {
			return true
		}
	}
	return false
}

func inPlaceArgOf(fn *ssa.Function) int {
	if i, ok := inPlaceArg[pkgOf(fn)+"."+fn.Name()]; ok && fn.Parent() == nil && fn.Signature.Recv() == nil {
		return i
	}
	return -1
}

// paramOwnedByCallers: every static call site of fn passes an owned value for prm.
func (f *freshness) paramOwnedByCallers(fn *ssa.Function, prm *ssa.Parameter, visiting map[*ssa.Function]bool, depth int, check func(caller *ssa.Function, arg ssa.Value) (bool, string)) (bool, string) {
	if visiting[fn] {
		return true, "recursive"
	}
	visiting[fn] = true
	defer delete(visiting, fn)
	idx := -1
	for i, q := range fn.Params {
		if q == prm {
			idx = i
		}
	}
	if idx < 0 {
		return false, "parameter not found"
	}
	ci := getCallIndex(f.p)
	if ci.usedAsVal[fn] {
		return false, funcName(fn) + " is used as a function value"
	}
	sites := ci.sites[fn]
	if len(sites) == 0 {
		return false, "no static caller of " + funcName(fn)
	}
	if fn.Object() != nil && fn.Object().Exported() {
		return false, "argument " + prm.Name() + " of exported " + funcName(fn) + " comes from outside the library"
	}
	for _, s := range sites {
		args := s.instr.(ssa.CallInstruction).Common().Args
		if idx >= len(args) {
			return false, "call shape"
		}
		var ok bool
		var why string
		if check != nil {
			ok, why = check(s.caller, args[idx])
		} else {
			ok, why = f.ownedRefs(s.caller, args[idx], visiting, depth+1)
		}
		if !ok {
			return false, why + " (call at " + f.p.Pos(s.instr.Pos()) + ")"
		}
	}
	return true, fmt.Sprintf("owned at all %d call sites of %s", len(sites), funcName(fn))
}

// ownedRefs: a database.References argument that will be modified in place is
// either built locally or the tracker's private index.
func (f *freshness) ownedRefs(fn *ssa.Function, v ssa.Value, visiting map[*ssa.Function]bool, depth int) (bool, string) {
	switch x := v.(type) {
	case *ssa.MakeMap:
		return true, "local map"
	case *ssa.UnOp:
		if fa, ok := x.X.(*ssa.FieldAddr); ok && x.Op == token.MUL {
			if fld := fieldOfAddr(fa); fld != nil && fieldOwner[fld] == "referenceTracker" && fld.Name() == "references" {
				return true, "the reference tracker's private index (filled only from GetReferences copies, see A3-REFS)"
			}
		}
	case *ssa.Parameter:
		return f.paramOwnedByCallers(fn, x, visiting, depth, nil)
	}
	return f.ownedArg(fn, v, visiting, depth)
}

func ruleA3(p *Program, r *Reporter) {
	const id = "A3"
	f := getFreshness(p)
	for _, fn := range p.srcFuncs {
		if pkgOf(fn) != "updates" {
			continue
		}
		// calls from one in-place function to another pass the argument along
		selfIdx := -1
		if fn.Parent() == nil {
			selfIdx = inPlaceArgOf(fn)
		}
		for _, b := range fn.Blocks {
			for _, ins := range b.Instrs {
				c, ok := ins.(*ssa.Call)
				if !ok {
					continue
				}
				sc := c.Call.StaticCallee()
				if sc == nil {
					continue
				}
				idx := inPlaceArgOf(sc)
				if idx < 0 || idx >= len(c.Call.Args) {
					continue
				}
				arg := c.Call.Args[idx]
				construct := "in-place arg of " + sc.Name()
				if selfIdx >= 0 && selfIdx < len(fn.Params) && derivesFrom(arg, fn.Params[selfIdx], 0) {
					r.Ob(id, funcName(fn), construct, c.Pos(), true, false, "passes on its own in-place argument (obligation is on the caller)")
					continue
				}
				ok2, why := f.ownedArg(fn, arg, map[*ssa.Function]bool{}, 0)
				if !ok2 {
					why = sc.Name() + " rewrites its argument #" + fmt.Sprint(idx) + " in place, but the value passed here is not owned: " + why
				}
				r.Ob(id, funcName(fn), construct, c.Pos(), ok2, true, why)
			}
		}
	}
	// A3-REFS: the tracker's private index only ever receives copies
	upd := p.LookupFunc("database", "References", "UpdateReferences")
	if upd == nil {
		r.Anchor(id, "database.References.UpdateReferences")
		return
	}
	n := 0
	for _, fn := range p.srcFuncs {
		if pkgOf(fn) != "updates" {
			continue
		}
		for _, b := range fn.Blocks {
			for _, ins := range b.Instrs {
				c, ok := ins.(*ssa.Call)
				if !ok || c.Call.StaticCallee() == nil || c.Call.StaticCallee().Object() != upd {
					continue
				}
				n++
				arg := c.Call.Args[1]
				okk := false
				why := "argument of unknown provenance is merged into the tracker's index"
				if ex, isEx := arg.(*ssa.Extract); isEx {
					if cc, isCall := ex.Tuple.(*ssa.Call); isCall && cc.Call.IsInvoke() && cc.Call.Method.Name() == "GetReferences" {
						okk = true
						why = "merged value comes from ReferenceProvider.GetReferences, whose implementations must return copies (A1)"
					}
				}
				f.memo = map[ssa.Value]int{}
				if !okk && f.fresh(arg, 0) {
					okk, why = true, "fresh value"
				}
				r.Ob(id, funcName(fn), "A3-REFS UpdateReferences", c.Pos(), okk, true, why)
			}
		}
	}
	if n == 0 {
		r.Anchor(id, "no UpdateReferences call in package updates")
	}
}

// ---------------------------------------------------------------------------
// A4 — who may write committed state

func ruleA4(p *Program, r *Reporter) {
	const id = "A4"
	dbs := p.Field("database/inmemory", "inMemoryDatabase", "databases")
	refs := p.Field("database/inmemory", "inMemoryDatabase", "references")
	if dbs == nil || refs == nil {
		r.Anchor(id, "inMemoryDatabase.databases / references")
		return
	}
	// the commit path: Commit, CreateDatabase, the constructor, their closures and the
	// unexported helpers called from nowhere else
	allowed := map[string]bool{}
	for g := range p.PrivateRegion(p.Fn("database/inmemory", "inMemoryDatabase", "Commit"), p.Fn("database/inmemory", "inMemoryDatabase", "CreateDatabase"), p.Fn("database/inmemory", "", "NewDatabase")) {
		allowed[funcName(g)] = true
	}
	if len(allowed) < 3 {
		r.Anchor(id, "inmemory Commit / CreateDatabase / NewDatabase")
		return
	}
	// cache mutators: methods of package cache that (transitively) write RowCache.cache/indexes or TableCache.cache
	mut := cacheMutators(p)
	var mnames []string
	for fn := range mut {
		mnames = append(mnames, funcName(fn))
	}
	sort.Strings(mnames)
	r.Info("%s: cache mutators = %s", id, strings.Join(mnames, ", "))
	depthGuard := 0
	var derivedFromRec func(v ssa.Value, fld *types.Var) bool
	derivedFrom := func(v ssa.Value, fld *types.Var) bool {
		// v is (a load of) an element of the map kept in field fld
		for i := 0; i < 6; i++ {
			switch x := v.(type) {
			case *ssa.Lookup:
				v = x.X
			case *ssa.Extract:
				v = x.Tuple
			case *ssa.UnOp:
				if fa, ok := x.X.(*ssa.FieldAddr); ok && fieldOfAddr(fa) == fld {
					return true
				}
				if al, ok := x.X.(*ssa.Alloc); ok {
					// local variable: any store
					if rr := al.Referrers(); rr != nil {
						for _, ref := range *rr {
							if st, ok := ref.(*ssa.Store); ok && st.Addr == al {
								v = st.Val
							}
						}
					}
					continue
				}
				return false
			case *ssa.Phi:
				if len(x.Edges) > 0 {
					v = x.Edges[0]
				}
			case *ssa.Call:
				// an unexported helper of the package that returns an element of the field
				g := x.Call.StaticCallee()
				if g == nil || pkgOf(g) != "database/inmemory" || g.Blocks == nil || depthGuard > 3 {
					return false
				}
				depthGuard++
				for _, b := range g.Blocks {
					if ret, ok := b.Instrs[len(b.Instrs)-1].(*ssa.Return); ok && !isRecoverBlock(b) {
						for i := range ret.Results {
							if derivedFromRec(retValue(ret, i), fld) {
								return true
							}
						}
					}
				}
				return false
			default:
				return false
			}
		}
		return false
	}
	derivedFromRec = derivedFrom
	for _, fn := range p.srcFuncs {
		if pkgOf(fn) != "database/inmemory" {
			continue
		}
		name := funcName(fn)
		for _, b := range fn.Blocks {
			for _, ins := range b.Instrs {
				switch x := ins.(type) {
				case ssa.CallInstruction:
					cc := x.Common()
					sc := cc.StaticCallee()
					if sc == nil || len(cc.Args) == 0 {
						continue
					}
					if mut[sc] && derivedFrom(cc.Args[0], dbs) {
						ok := allowed[name]
						r.Ob(id, name, "committed rows "+sc.Name(), ins.Pos(), ok, true,
							ifs(ok, "committed rows are modified in the commit path only", name+" modifies the committed rows ("+sc.Name()+") outside Commit/CreateDatabase: a transaction that later fails has already changed the database"))
					}
					if sc.Name() == "UpdateReferences" && derivedFrom(cc.Args[0], refs) {
						ok := allowed[name]
						r.Ob(id, name, "committed references UpdateReferences", ins.Pos(), ok, true,
							ifs(ok, "the reference index is modified in the commit path only", name+" modifies the committed reference index outside Commit"))
					}
				case *ssa.MapUpdate:
					for _, fld := range []*types.Var{dbs, refs} {
						if derivedFrom(x.Map, fld) {
							ok := allowed[name]
							r.Ob(id, name, "store into "+fld.Name(), ins.Pos(), ok, true,
								ifs(ok, "database table set is written at creation/commit only", name+" writes "+fld.Name()+" outside Commit/CreateDatabase"))
						}
					}
				case *ssa.Return:
					// only the package's API can leak the committed cache; unexported helpers are
					// followed by derivedFrom at their call sites
					if !isExportedEntry(fn) {
						continue
					}
					for _, v := range x.Results {
						if isNamed(v.Type(), repoMod+"/cache", "TableCache") || isNamed(v.Type(), repoMod+"/cache", "RowCache") {
							r.Ob(id, name, "returns committed cache", ins.Pos(), false, true, name+" hands out the committed cache object itself")
						}
					}
				}
			}
		}
	}
	// callers of Commit
	n := 0
	for _, fn := range p.srcFuncs {
		for _, b := range fn.Blocks {
			for _, ins := range b.Instrs {
				ci, ok := ins.(ssa.CallInstruction)
				if !ok {
					continue
				}
				cc := ci.Common()
				isCommit := false
				if cc.IsInvoke() {
					isCommit = cc.Method.Name() == "Commit" && isNamed(cc.Value.Type(), repoMod+"/database", "Database")
				} else if sc := cc.StaticCallee(); sc != nil {
					isCommit = sc.Name() == "Commit" && pkgOf(sc) == "database/inmemory" && sc.Signature.Recv() != nil
				}
				if !isCommit {
					continue
				}
				n++
				ok2 := funcName(fn) == "(*server.OvsdbServer).Transact"
				if body, via := serverTransactBody(p); via != nil && body == fn {
					ok2 = true // the private helper holding the body of Transact (T-SCAN and L4 look at it)
				}
				r.Ob(id, funcName(fn), "calls Database.Commit", ins.Pos(), ok2, true,
					ifs(ok2, "the only commit point of the library", funcName(fn)+" commits outside OvsdbServer.Transact (no error scan, no transaction lock)"))
			}
		}
	}
	if n == 0 {
		r.Anchor(id, "no call to Database.Commit found")
	}
}

// cacheMutators: functions of package cache that may write the row/index/table maps.
func cacheMutators(p *Program) map[*ssa.Function]bool {
	flds := map[*types.Var]bool{}
	for _, s := range [][3]string{{"cache", "RowCache", "cache"}, {"cache", "RowCache", "indexes"}, {"cache", "TableCache", "cache"}} {
		if f := p.Field(s[0], s[1], s[2]); f != nil {
			flds[f] = true
		}
	}
	mut := map[*ssa.Function]bool{}
	for _, a := range collectAccesses(p, flds) {
		if a.write && !a.ctor {
			top := a.fn
			for top.Parent() != nil {
				top = top.Parent()
			}
			mut[top] = true
			mut[a.fn] = true
		}
	}
	la := getLockAnalysis(p)
	for changed := true; changed; {
		changed = false
		for _, fn := range p.srcFuncs {
			if mut[fn] || pkgOf(fn) != "cache" {
				continue
			}
			for _, b := range fn.Blocks {
				for _, ins := range b.Instrs {
					if c, ok := ins.(ssa.CallInstruction); ok {
						for _, g := range la.calleesOf(c) {
							if mut[g] && pkgOf(g) == "cache" {
								mut[fn] = true
								changed = true
							}
						}
					}
				}
			}
			for _, an := range fn.AnonFuncs {
				if mut[an] && !mut[fn] {
					mut[fn] = true
					changed = true
				}
			}
		}
	}
	return mut
}

// ---------------------------------------------------------------------------
// A5 — no error dropped on the commit path

var a5Funcs = [][3]string{
	{"database/transaction", "Transaction", "Transact"},
	{"database/transaction", "Transaction", "applyReferenceUpdates"},
	{"database/transaction", "Transaction", "checkIndexes"},
	{"database/transaction", "Transaction", "rowsFromTransactionCacheAndDatabase"},
	{"database/inmemory", "inMemoryDatabase", "Commit"},
	{"server", "OvsdbServer", "Transact"},
	{"server", "OvsdbServer", "transact"},
}

func ruleA5(p *Program, r *Reporter) {
	const id = "A5"
	errT := types.Universe.Lookup("error").Type()
	for _, s := range a5Funcs {
		root := p.Fn(s[0], s[1], s[2])
		if root == nil {
			r.Anchor(id, s[0]+"."+s[1]+"."+s[2])
			continue
		}
		fns := append([]*ssa.Function{root}, root.AnonFuncs...)
		for _, fn := range fns {
			for _, b := range fn.Blocks {
				for _, ins := range b.Instrs {
					c, ok := ins.(*ssa.Call)
					if !ok {
						continue
					}
					var errVals []ssa.Value
					hasErr := false
					if types.Identical(c.Type(), errT) {
						hasErr = true
						errVals = append(errVals, c)
					} else if tup, ok := c.Type().(*types.Tuple); ok {
						for i := 0; i < tup.Len(); i++ {
							if types.Identical(tup.At(i).Type(), errT) {
								hasErr = true
								if refs := c.Referrers(); refs != nil {
									for _, ref := range *refs {
										if ex, ok := ref.(*ssa.Extract); ok && ex.Index == i {
											errVals = append(errVals, ex)
										}
									}
								}
							}
						}
					}
					if !hasErr {
						continue
					}
					callee := "dynamic"
					if c.Call.IsInvoke() {
						callee = c.Call.Method.Name()
					} else if sc := c.Call.StaticCallee(); sc != nil {
						callee = sc.Name()
						if sc.Pkg != nil && (sc.Pkg.Pkg.Path() == "fmt" || sc.Pkg.Pkg.Path() == "errors") {
							continue // constructors of errors
						}
					}
					used := false
					for _, ev := range errVals {
						if refs := ev.Referrers(); refs != nil {
							for _, ref := range *refs {
								if _, dbg := ref.(*ssa.DebugRef); !dbg {
									used = true
								}
							}
						}
					}
					why := "error result is consumed (compared, returned or converted to an error result)"
					if !used {
						why = "the error returned by " + callee + " is discarded on the commit path: a failed step would still be committed / notified"
					}
					r.Ob(id, funcName(fn), "error of "+callee, c.Pos(), used, true, why)
				}
			}
		}
	}
}

// ---------------------------------------------------------------------------
// T-SCAN — commit and notification happen only after every result was scanned for errors

func ruleTSCAN(p *Program, r *Reporter) {
	const id = "T-SCAN"
	fn, _ := serverTransactBody(p)
	errFld := p.Field("ovsdb", "OperationResult", "Error")
	if fn == nil || errFld == nil {
		r.Anchor(id, "server.(*OvsdbServer).Transact / ovsdb.OperationResult.Error")
		return
	}
	var targets []*ssa.Call
	for _, b := range fn.Blocks {
		for _, ins := range b.Instrs {
			c, ok := ins.(*ssa.Call)
			if !ok {
				continue
			}
			name := ""
			if c.Call.IsInvoke() {
				name = c.Call.Method.Name()
			} else if sc := c.Call.StaticCallee(); sc != nil {
				name = sc.Name()
			}
			if name == "processMonitors" || (name == "Commit" && c.Call.IsInvoke()) {
				targets = append(targets, c)
			}
		}
	}
	if len(targets) < 2 {
		r.Anchor(id, "calls to processMonitors and Commit in OvsdbServer.Transact")
		return
	}
	reaches := func(from *ssa.BasicBlock, target *ssa.BasicBlock) bool {
		seen := map[int]bool{}
		st := []*ssa.BasicBlock{from}
		for len(st) > 0 {
			x := st[len(st)-1]
			st = st[:len(st)-1]
			if seen[x.Index] {
				continue
			}
			seen[x.Index] = true
			if x == target {
				return true
			}
			st = append(st, x.Succs...)
		}
		return false
	}
	// find the scan: if <elem>.Error != "" { return } inside a loop whose header dominates the targets
	type scan struct {
		iff     *ssa.If
		bad, ok *ssa.BasicBlock
		header  *ssa.BasicBlock
	}
	var scans []scan
	var partial []string
	for _, b := range fn.Blocks {
		iff, ok := b.Instrs[len(b.Instrs)-1].(*ssa.If)
		if !ok {
			continue
		}
		bo, ok := iff.Cond.(*ssa.BinOp)
		if !ok || (bo.Op != token.NEQ && bo.Op != token.EQL) {
			continue
		}
		var other ssa.Value
		if c, ok := bo.Y.(*ssa.Const); ok && c.Value != nil && c.Value.ExactString() == `""` {
			other = bo.X
		} else if c, ok := bo.X.(*ssa.Const); ok && c.Value != nil && c.Value.ExactString() == `""` {
			other = bo.Y
		} else {
			continue
		}
		ld, ok := other.(*ssa.UnOp)
		if !ok {
			continue
		}
		fa, ok := ld.X.(*ssa.FieldAddr)
		if !ok || fieldOfAddr(fa) != errFld {
			continue
		}
		bad, good := b.Succs[0], b.Succs[1]
		if bo.Op == token.EQL {
			bad, good = good, bad
		}
		// loop header: a block dominating b that is reachable from `good`
		var header *ssa.BasicBlock
		for d := b.Idom(); d != nil; d = d.Idom() {
			if reaches(good, d) {
				header = d
				break
			}
		}
		// the scan must run over the results themselves: when the scanned element is
		// results[i], the loop is bounded by len(results), not by another collection
		// (the commit-time checks append one more result than there are operations)
		if header != nil && !scanCoversSlice(fa, header) {
			partial = append(partial, p.Pos(iff.Cond.Pos()))
			continue
		}
		scans = append(scans, scan{iff, bad, good, header})
	}
	// a scan delegated to a helper: g(results) returns a non-zero value exactly when
	// it found a result whose Error is non-empty; the caller branches on that value
	for _, b := range fn.Blocks {
		iff, ok := b.Instrs[len(b.Instrs)-1].(*ssa.If)
		if !ok {
			continue
		}
		cond := iff.Cond
		neg := false
		for {
			if u, ok := cond.(*ssa.UnOp); ok && u.Op == token.NOT {
				cond = u.X
				neg = !neg
				continue
			}
			break
		}
		var call *ssa.Call
		resIdx := 0
		if bo, ok := cond.(*ssa.BinOp); ok && (bo.Op == token.NEQ || bo.Op == token.EQL) {
			isZeroConst := func(v ssa.Value) bool {
				c, ok := v.(*ssa.Const)
				if !ok {
					return false
				}
				// nil, or the empty string (a helper that hands back the first error text)
				return c.IsNil() || c.Value != nil && c.Value.Kind() == constant.String && constant.StringVal(c.Value) == ""
			}
			var subj ssa.Value
			if isZeroConst(bo.Y) {
				subj = bo.X
			} else if isZeroConst(bo.X) {
				subj = bo.Y
			}
			call, _ = subj.(*ssa.Call)
			if ex, isEx := subj.(*ssa.Extract); isEx {
				call, _ = ex.Tuple.(*ssa.Call)
				resIdx = ex.Index
			}
			if bo.Op == token.EQL {
				neg = !neg
			}
		} else if c, ok := cond.(*ssa.Call); ok {
			call = c
		} else if ex, ok := cond.(*ssa.Extract); ok {
			// text, failed := firstError(results); if failed {...}
			call, _ = ex.Tuple.(*ssa.Call)
			resIdx = ex.Index
		}
		if call == nil {
			continue
		}
		g := call.Call.StaticCallee()
		if g == nil || pkgOf(g) != "server" {
			continue
		}
		pol, isScan := errorScanHelper(g, errFld, resIdx)
		if !isScan {
			continue
		}
		// pol: true = helper returns non-zero when an error was found
		bad, good := b.Succs[0], b.Succs[1]
		if neg != !pol {
			bad, good = good, bad
		}
		scans = append(scans, scan{iff, bad, good, b})
	}
	for _, t := range targets {
		name := "processMonitors"
		if t.Call.IsInvoke() {
			name = "Commit"
		}
		okk := false
		why := "no scan of the operation results for a non-empty Error dominates this call: a failed transaction would be notified / committed"
		if len(partial) > 0 {
			why = "the scan for a non-empty Error at " + strings.Join(partial, ", ") + " is bounded by another collection than the results it reads: the extra result appended by the commit-time checks (index/referential violation) is never looked at and the transaction is committed"
		}
		for _, s := range scans {
			if s.header == nil || !s.header.Dominates(t.Block()) {
				continue
			}
			if reaches(s.bad, t.Block()) {
				why = "the error branch of the result scan can still reach " + name
				continue
			}
			okk = true
			why = "dominated by the loop that returns on the first result whose Error is non-empty (" + p.Pos(s.iff.Cond.Pos()) + ")"
		}
		r.Ob(id, funcName(fn), name+" after error scan", t.Pos(), okk, true, why)
	}
}

// errorScanHelper: g loops over a parameter and tests <elem>.Error != ""; every
// return reached from the "found" branch before the next iteration yields a
// non-zero value and every other return the zero value (polarity true), or the
// reverse (polarity false).
func errorScanHelper(g *ssa.Function, errFld *types.Var, idx int) (polarity bool, ok bool) {
	if g == nil || len(g.Blocks) == 0 || g.Signature.Results().Len() <= idx {
		return false, false
	}
	nres := g.Signature.Results().Len()
	isZero := func(v ssa.Value) (bool, bool) {
		c, isC := v.(*ssa.Const)
		if !isC {
			return false, true // not a constant: treat as non-zero (a found element, an error value)
		}
		if c.IsNil() || c.Value == nil {
			return true, true
		}
		if c.Value.Kind() == constant.Bool {
			return !constant.BoolVal(c.Value), true
		}
		if c.Value.Kind() == constant.String {
			return constant.StringVal(c.Value) == "", true
		}
		return false, false
	}
	for _, b := range g.Blocks {
		iff, isIf := b.Instrs[len(b.Instrs)-1].(*ssa.If)
		if !isIf {
			continue
		}
		bo, isBo := iff.Cond.(*ssa.BinOp)
		if !isBo || (bo.Op != token.NEQ && bo.Op != token.EQL) {
			continue
		}
		var other ssa.Value
		if c, ok := bo.Y.(*ssa.Const); ok && c.Value != nil && c.Value.ExactString() == `""` {
			other = bo.X
		} else if c, ok := bo.X.(*ssa.Const); ok && c.Value != nil && c.Value.ExactString() == `""` {
			other = bo.Y
		} else {
			continue
		}
		ld, isLd := other.(*ssa.UnOp)
		if !isLd {
			continue
		}
		fa, isFA := ld.X.(*ssa.FieldAddr)
		if !isFA || fieldOfAddr(fa) != errFld {
			continue
		}
		bad := b.Succs[0]
		if bo.Op == token.EQL {
			bad = b.Succs[1]
		}
		// the found branch must return directly
		ret, isRet := bad.Instrs[len(bad.Instrs)-1].(*ssa.Return)
		if !isRet || len(ret.Results) != nres {
			continue
		}
		badZero, known := isZero(ret.Results[idx])
		if !known {
			continue
		}
		// every other return yields the opposite
		consistent := true
		n := 0
		for _, b2 := range g.Blocks {
			r2, isRet := b2.Instrs[len(b2.Instrs)-1].(*ssa.Return)
			if !isRet || b2 == bad {
				continue
			}
			n++
			z, known := isZero(r2.Results[idx])
			if !known || z == badZero {
				consistent = false
			}
		}
		if consistent && n > 0 {
			return !badZero, true
		}
	}
	return false, false
}

// scanCoversSlice: fa is &elem.Error with elem loaded from S[i]; the loop whose
// header is h must be bounded by len(S) (a range over S), or elem must come
// from a range over S directly.
func scanCoversSlice(fa *ssa.FieldAddr, h *ssa.BasicBlock) bool {
	// elem pointer: load of &S[i]
	ld, ok := fa.X.(*ssa.UnOp)
	if !ok {
		return true
	}
	ia, ok := ld.X.(*ssa.IndexAddr)
	if !ok {
		return true
	}
	S := ia.X
	// every comparison `i < len(X)` that controls the loop must use X == S
	found := false
	for _, b := range append([]*ssa.BasicBlock{h}, h.Preds...) {
		for _, ins := range b.Instrs {
			bo, ok := ins.(*ssa.BinOp)
			if !ok || bo.Op != token.LSS {
				continue
			}
			c, ok := bo.Y.(*ssa.Call)
			if !ok {
				continue
			}
			bi, ok := c.Call.Value.(*ssa.Builtin)
			if !ok || bi.Name() != "len" || len(c.Call.Args) != 1 {
				continue
			}
			found = true
			if c.Call.Args[0] != S {
				return false
			}
		}
	}
	if !found {
		// the bound is computed once before the loop: look for len(...) feeding the header's comparison
		for _, ins := range h.Instrs {
			bo, ok := ins.(*ssa.BinOp)
			if !ok || bo.Op != token.LSS {
				continue
			}
			if c, ok := bo.Y.(*ssa.Call); ok {
				if bi, ok := c.Call.Value.(*ssa.Builtin); ok && bi.Name() == "len" && len(c.Call.Args) == 1 && c.Call.Args[0] != S {
					return false
				}
			}
		}
	}
	return true
}
