// Reproducer for defect 36 (C19, C17): a valid transact request whose `wait`
// operation has no "timeout" member (it is optional in RFC 7047) and whose
// condition does not hold is never answered: Transaction.Wait sleeps and
// retries for ever while the server holds its transaction lock, so every later
// transact or monitor request of every client blocks behind it.
// Place in server/ and run: go test -vet=off -count=1 -run TestZZWaitWithoutTimeout ./server
package server

import (
	"encoding/json"
	"testing"
	"time"

	"github.com/ovn-org/libovsdb/database/inmemory"
	"github.com/ovn-org/libovsdb/model"
	"github.com/ovn-org/libovsdb/ovsdb"
	. "github.com/ovn-org/libovsdb/test"
	"github.com/stretchr/testify/require"
)

func TestZZWaitWithoutTimeout(t *testing.T) {
	dbModel, err := GetModel()
	require.NoError(t, err)
	db := inmemory.NewDatabase(map[string]model.ClientDBModel{"Open_vSwitch": dbModel.Client()})
	o, err := NewOvsdbServer(db, dbModel)
	require.NoError(t, err)

	transact := func(ops ...ovsdb.Operation) ([]*ovsdb.OperationResult, error) {
		args := []json.RawMessage{json.RawMessage(`"Open_vSwitch"`)}
		for _, op := range ops {
			b, err := json.Marshal(op)
			require.NoError(t, err)
			args = append(args, b)
		}
		var reply []*ovsdb.OperationResult
		err := o.Transact(nil, args, &reply)
		return reply, err
	}
	_, err = transact(ovsdb.Operation{Op: ovsdb.OperationInsert, Table: "Bridge", Row: ovsdb.Row{"name": "br0"}})
	require.NoError(t, err)

	// wait until Bridge br0 has datapath_type "netdev" - it has not, and nothing can
	// change it while this transaction runs; no timeout member
	wait := ovsdb.Operation{
		Op:      ovsdb.OperationWait,
		Table:   "Bridge",
		Where:   []ovsdb.Condition{{Column: "name", Function: ovsdb.ConditionEqual, Value: "br0"}},
		Columns: []string{"datapath_type"},
		Until:   "==",
		Rows:    []ovsdb.Row{{"datapath_type": "netdev"}},
	}
	answered := make(chan struct{})
	go func() {
		defer close(answered)
		reply, err := transact(wait)
		if err == nil {
			require.NotEmpty(t, reply)
			require.NotEmpty(t, reply[0].Error, "a wait whose condition does not hold must be answered with an error result")
		}
	}()
	select {
	case <-answered:
	case <-time.After(3 * time.Second):
		t.Fatal("the transact request with a wait operation without timeout was not answered within 3 s; the server holds its transaction lock and serves nobody")
	}
	// the server keeps serving afterwards
	done := make(chan struct{})
	go func() {
		defer close(done)
		_, _ = transact(ovsdb.Operation{Op: ovsdb.OperationSelect, Table: "Bridge", Where: []ovsdb.Condition{}})
	}()
	select {
	case <-done:
	case <-time.After(3 * time.Second):
		t.Fatal("a later transact request is not answered")
	}
}
