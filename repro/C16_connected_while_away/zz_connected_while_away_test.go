// Reproducer for defect 34 (C16): Connected() keeps answering true for the whole outage when the peer closes the
// connection (written by a wave-10 seeding agent; only the first of its three tests is kept here).
// Place in client/ and run: go test -vet=off -count=1 -run TestBaselineConnectedWhileAway ./client
package client

// Reproducers for out/baseline_violation.md (they FAIL on the unchanged tree).

import (
	"context"
	"encoding/json"
	"fmt"
	"net"
	"os"
	"sort"
	"strings"
	"sync"
	"testing"
	"time"

	"github.com/cenkalti/backoff/v4"
	"github.com/ovn-org/libovsdb/ovsdb"
	"github.com/stretchr/testify/assert"
	"github.com/stretchr/testify/require"
)

// demoProxy is a fault injecting proxy between a client and a server
type demoProxy struct {
	path   string
	target string
	ln     net.Listener

	mu    sync.Mutex
	open  bool
	conns [][2]net.Conn
	// silent connections stay open but nothing is forwarded on them any more
	silent map[int]bool
	// onRequest is called for every message sent by the client, before it is
	// forwarded to the server. The message is dropped if it returns false.
	onRequest func(conn int, method string) bool
}

var demoProxyCount int

func newDemoProxy(t *testing.T, target string) *demoProxy {
	demoProxyCount++
	p := &demoProxy{
		path:   fmt.Sprintf("/tmp/zzdemo-%d-%d.sock", os.Getpid(), demoProxyCount),
		target: target,
		open:   true,
	}
	os.Remove(p.path)
	var err error
	p.ln, err = net.Listen("unix", p.path)
	require.NoError(t, err)
	t.Cleanup(func() {
		p.ln.Close()
		os.Remove(p.path)
		p.mu.Lock()
		defer p.mu.Unlock()
		for _, c := range p.conns {
			c[0].Close()
			c[1].Close()
		}
	})
	go func() {
		for {
			c, err := p.ln.Accept()
			if err != nil {
				return
			}
			p.mu.Lock()
			if !p.open {
				p.mu.Unlock()
				c.Close()
				continue
			}
			s, err := net.Dial("unix", p.target)
			if err != nil {
				p.mu.Unlock()
				c.Close()
				continue
			}
			idx := len(p.conns)
			p.conns = append(p.conns, [2]net.Conn{c, s})
			hook := p.onRequest
			p.mu.Unlock()
			go func() {
				// server to client
				buf := make([]byte, 64*1024)
				for {
					n, err := s.Read(buf)
					if n > 0 && !p.isSilent(idx) {
						if _, werr := c.Write(buf[:n]); werr != nil {
							break
						}
					}
					if err != nil {
						break
					}
				}
				s.Close()
				if !p.isSilent(idx) {
					c.Close()
				}
			}()
			go func() {
				// client to server, message by message
				dec := json.NewDecoder(c)
				for {
					var raw json.RawMessage
					if err := dec.Decode(&raw); err != nil {
						break
					}
					var hdr struct {
						Method string `json:"method"`
					}
					_ = json.Unmarshal(raw, &hdr)
					if p.isSilent(idx) || (hook != nil && !hook(idx, hdr.Method)) {
						continue
					}
					if _, err := s.Write(raw); err != nil && !p.isSilent(idx) {
						break
					}
				}
				c.Close()
				s.Close()
			}()
		}
	}()
	return p
}

func (p *demoProxy) endpoint() string { return "unix:" + p.path }

func (p *demoProxy) setOpen(open bool) {
	p.mu.Lock()
	defer p.mu.Unlock()
	p.open = open
}

func (p *demoProxy) setHook(hook func(conn int, method string) bool) {
	p.mu.Lock()
	defer p.mu.Unlock()
	p.onRequest = hook
}

func (p *demoProxy) numConns() int {
	p.mu.Lock()
	defer p.mu.Unlock()
	return len(p.conns)
}

func (p *demoProxy) isSilent(conn int) bool {
	p.mu.Lock()
	defer p.mu.Unlock()
	return p.silent[conn]
}

// silence makes a proxied connection silent for the client: on its side the
// connection stays open, but what it sends is dropped and nothing comes back
// any more (a half-open connection). The server side is closed, the server
// would otherwise wait for ever for the replies to its notifications.
func (p *demoProxy) silence(conn int) {
	p.mu.Lock()
	defer p.mu.Unlock()
	if p.silent == nil {
		p.silent = map[int]bool{}
	}
	p.silent[conn] = true
	p.conns[conn][1].Close()
}

// cut closes a proxied connection
func (p *demoProxy) cut(conn int) {
	p.mu.Lock()
	defer p.mu.Unlock()
	p.conns[conn][0].Close()
	p.conns[conn][1].Close()
}

func demoTransact(t *testing.T, c Client, ops ...ovsdb.Operation) {
	ctx, cancel := context.WithTimeout(context.Background(), 5*time.Second)
	defer cancel()
	reply, err := c.Transact(ctx, ops...)
	require.NoError(t, err)
	_, err = ovsdb.CheckOperationResults(reply, ops)
	require.NoError(t, err)
}

func demoBridgeNames(c Client) string {
	names := []string{}
	for _, row := range c.Cache().Table("Bridge").Rows() {
		names = append(names, row.(*Bridge).Name)
	}
	sort.Strings(names)
	return strings.Join(names, ",")
}

// 1. Connected() keeps answering true after the peer closed the connection,
// for as long as the client is trying to reconnect, while the cache still holds
// rows deleted in the meantime.
func TestBaselineConnectedWhileAway(t *testing.T) {
	var defSchema ovsdb.DatabaseSchema
	require.NoError(t, json.Unmarshal([]byte(schema), &defSchema))
	_, sock := newOVSDBServer(t, defDB, defSchema)

	other, err := newOVSDBClient(defDB, WithEndpoint("unix:"+sock))
	require.NoError(t, err)
	require.NoError(t, other.Connect(context.Background()))
	t.Cleanup(other.Close)
	demoTransact(t, other, ovsdb.Operation{Op: ovsdb.OperationInsert, Table: "Bridge", Row: ovsdb.Row{"name": "br1"}})

	proxy := newDemoProxy(t, sock)
	ovs, err := newOVSDBClient(defDB, WithEndpoint(proxy.endpoint()),
		WithReconnect(3*time.Second, backoff.NewConstantBackOff(50*time.Millisecond)))
	require.NoError(t, err)
	require.NoError(t, ovs.Connect(context.Background()))
	t.Cleanup(ovs.Close)
	_, err = ovs.Monitor(context.Background(), ovs.NewMonitor(WithTable(&Bridge{})))
	require.NoError(t, err)
	require.Eventually(t, func() bool { return demoBridgeNames(ovs) == "br1" }, 5*time.Second, 10*time.Millisecond)

	// the peer closes the connection and cannot be reached any more
	proxy.setOpen(false)
	proxy.cut(0)
	demoTransact(t, other, ovsdb.Operation{Op: ovsdb.OperationDelete, Table: "Bridge",
		Where: []ovsdb.Condition{ovsdb.NewCondition("name", ovsdb.ConditionEqual, "br1")}})
	time.Sleep(time.Second)

	assert.Equal(t, "", ovs.CurrentEndpoint(), "the client has no connection")
	assert.Equal(t, "br1", demoBridgeNames(ovs), "the cache is, as expected while away, out of date")
	assert.False(t, ovs.Connected(), "Connected() while the client has no connection and its cache is out of date")
}

// 2. A leader-only client stays attached to an endpoint that lost leadership
// between the leader check of connect() and the initial contents of the
// _Server monitor: the row is then added to the cache, not updated, and the
// leader watcher only looks at updates.
