// Reproducer for defect 38 (C02): Transaction.Insert skips its "uuid already in use" test when the uuid is in
// DeletedRows, which is keyed by uuid alone: with Bridge U and Port U both stored, [delete Bridge U, insert Port U]
// passes validation, the monitors are notified, and Commit fails half way (written by a wave-12 seeding agent).
// Place in server/ and run: go test -vet=off -count=1 -run TestZZBaselineSameUUIDInTwoTables ./server
package server

import (
	"encoding/json"
	"testing"

	"github.com/ovn-org/libovsdb/database"
	"github.com/ovn-org/libovsdb/database/inmemory"
	"github.com/ovn-org/libovsdb/model"
	"github.com/ovn-org/libovsdb/ovsdb"
	"github.com/stretchr/testify/require"

	. "github.com/ovn-org/libovsdb/test"
)

func zzBaseTransact(t *testing.T, srv *OvsdbServer, ops ...ovsdb.Operation) ([]*ovsdb.OperationResult, error) {
	args := []json.RawMessage{json.RawMessage(`"Open_vSwitch"`)}
	for _, op := range ops {
		b, err := json.Marshal(op)
		require.NoError(t, err)
		args = append(args, b)
	}
	var reply []*ovsdb.OperationResult
	err := srv.Transact(nil, args, &reply)
	return reply, err
}

func zzBaseCount(t *testing.T, db database.Database, table string) int {
	rows, err := db.List("Open_vSwitch", table)
	require.NoError(t, err)
	return len(rows)
}

func TestZZBaselineSameUUIDInTwoTables(t *testing.T) {
	dbModel, err := GetModel()
	require.NoError(t, err)
	db := inmemory.NewDatabase(map[string]model.ClientDBModel{"Open_vSwitch": dbModel.Client()})
	srv, err := NewOvsdbServer(db, dbModel)
	require.NoError(t, err)

	u := "11111111-1111-1111-1111-111111111111"
	// reachable state: the uuid of an insert is only checked against the rows
	// of the same table, so two tables can hold a row with the same uuid
	reply, err := zzBaseTransact(t, srv,
		ovsdb.Operation{Op: ovsdb.OperationInsert, Table: "Bridge", UUID: u, Row: ovsdb.Row{"name": "br"}},
		ovsdb.Operation{Op: ovsdb.OperationInsert, Table: "Port", UUID: u, Row: ovsdb.Row{"name": "p"}},
	)
	require.NoError(t, err)
	for _, r := range reply {
		require.Equal(t, "", r.Error)
	}
	require.Equal(t, 1, zzBaseCount(t, db, "Bridge"))
	require.Equal(t, 1, zzBaseCount(t, db, "Port"))

	// delete the bridge and insert a port with the uuid that is taken in Port.
	// Transaction.Insert skips the database lookup because DeletedRows (keyed
	// by uuid only) says the uuid was deleted by this transaction.
	// The order in which Commit applies the tables is random, hence the loop:
	// when Bridge goes first the bridge is deleted before the commit fails.
	for i := 0; i < 50; i++ {
		reply, err = zzBaseTransact(t, srv,
			ovsdb.Operation{Op: ovsdb.OperationDelete, Table: "Bridge", Where: []ovsdb.Condition{ovsdb.NewCondition("_uuid", ovsdb.ConditionEqual, ovsdb.UUID{GoUUID: u})}},
			ovsdb.Operation{Op: ovsdb.OperationInsert, Table: "Port", UUID: u, Row: ovsdb.Row{"name": "p2"}},
		)
		failed := err != nil
		for _, r := range reply {
			failed = failed || r == nil || r.Error != ""
		}
		require.True(t, failed, "the transaction cannot succeed, the uuid is taken")
		require.Equal(t, 1, zzBaseCount(t, db, "Bridge"), "transaction failed (%v) but the bridge is gone", err)
		require.Equal(t, 1, zzBaseCount(t, db, "Port"))
	}
}
