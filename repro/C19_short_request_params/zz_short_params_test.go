// Reproducer for defect 35 (C19): a monitor, monitor_cond, monitor_cond_since or
// get_schema request with fewer positional parameters than the handler indexes
// panics with "index out of range" in the handler; rpc2 runs handlers without
// recover, so over a real connection the whole server process dies.
// Place in server/ and run: go test -vet=off -count=1 -run TestZZShortRequestParams ./server
package server

import (
	"encoding/json"
	"fmt"
	"testing"

	"github.com/ovn-org/libovsdb/database/inmemory"
	"github.com/ovn-org/libovsdb/model"
	"github.com/ovn-org/libovsdb/ovsdb"
	. "github.com/ovn-org/libovsdb/test"
	"github.com/stretchr/testify/require"
)

func TestZZShortRequestParams(t *testing.T) {
	dbModel, err := GetModel()
	require.NoError(t, err)
	db := inmemory.NewDatabase(map[string]model.ClientDBModel{"Open_vSwitch": dbModel.Client()})
	o, err := NewOvsdbServer(db, dbModel)
	require.NoError(t, err)

	raw := func(vals ...interface{}) []json.RawMessage {
		out := []json.RawMessage{}
		for _, v := range vals {
			b, _ := json.Marshal(v)
			out = append(out, b)
		}
		return out
	}
	call := func(name string, f func() error) {
		t.Helper()
		defer func() {
			if r := recover(); r != nil {
				t.Errorf("%s: the handler panicked instead of answering with an error: %v", name, r)
			}
		}()
		if err := f(); err == nil {
			t.Errorf("%s: expected an error for a request with too few parameters", name)
		}
	}
	for n := 0; n < 3; n++ {
		args := raw("Open_vSwitch", "id")[:min2(n, 2)]
		call(fmt.Sprintf("monitor with %d params", len(args)), func() error {
			var reply ovsdb.TableUpdates
			return o.Monitor(nil, args, &reply)
		})
		call(fmt.Sprintf("monitor_cond with %d params", len(args)), func() error {
			var reply ovsdb.TableUpdates2
			return o.MonitorCond(nil, args, &reply)
		})
		call(fmt.Sprintf("monitor_cond_since with %d params", len(args)), func() error {
			var reply ovsdb.MonitorCondSinceReply
			return o.MonitorCondSince(nil, args, &reply)
		})
	}
	call("get_schema with 0 params", func() error {
		var reply ovsdb.DatabaseSchema
		return o.GetSchema(nil, []interface{}{}, &reply)
	})
}

func min2(a, b int) int {
	if a < b {
		return a
	}
	return b
}
