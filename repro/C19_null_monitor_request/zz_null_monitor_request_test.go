// Reproducer for defect 37 (C19): a monitor, monitor_cond or monitor_cond_since
// request whose per-table entry is null ({"Bridge": null}) dereferences a nil
// *MonitorRequest in the handler's snapshot loop; rpc2 runs handlers without
// recover, so over a real connection the whole server process dies.
// Place in server/ and run: go test -vet=off -count=1 -run TestZZNullMonitorRequest ./server
package server

import (
	"encoding/json"
	"testing"

	"github.com/cenkalti/rpc2"
	"github.com/ovn-org/libovsdb/database/inmemory"
	"github.com/ovn-org/libovsdb/model"
	"github.com/ovn-org/libovsdb/ovsdb"
	. "github.com/ovn-org/libovsdb/test"
	"github.com/stretchr/testify/require"
)

func TestZZNullMonitorRequest(t *testing.T) {
	dbModel, err := GetModel()
	require.NoError(t, err)
	db := inmemory.NewDatabase(map[string]model.ClientDBModel{"Open_vSwitch": dbModel.Client()})
	o, err := NewOvsdbServer(db, dbModel)
	require.NoError(t, err)
	args := []json.RawMessage{json.RawMessage(`"Open_vSwitch"`), json.RawMessage(`"id"`), json.RawMessage(`{"Bridge": null}`)}
	call := func(name string, f func() error) {
		t.Helper()
		defer func() {
			if r := recover(); r != nil {
				t.Errorf("%s: the handler panicked instead of answering: %v", name, r)
			}
		}()
		if err := f(); err == nil {
			t.Errorf("%s: expected an error for a null monitor request", name)
		}
	}
	client := &rpc2.Client{}
	call("monitor", func() error { var reply ovsdb.TableUpdates; return o.Monitor(client, args, &reply) })
	call("monitor_cond", func() error { var reply ovsdb.TableUpdates2; return o.MonitorCond(client, args, &reply) })
	call("monitor_cond_since", func() error {
		var reply ovsdb.MonitorCondSinceReply
		return o.MonitorCondSince(client, args, &reply)
	})
}
