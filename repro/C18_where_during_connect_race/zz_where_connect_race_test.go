// Reproducer for defect 33 (C18): data race between Where()/WhereAny()/WhereAll()/
// WhereCache()/Create() and Connect(). tryEndpoint replaces database.api (together
// with the cache) under cacheMutex, the five wrappers read it with no lock.
// Place in client/ and run:  go test -vet=off -race -count=1 -run TestZZWhereDuringConnect ./client
// Before the fix the race detector reports the write in tryEndpoint and the read in Where.
package client

import (
	"context"
	"encoding/json"
	"fmt"
	"sync"
	"testing"
	"time"

	"github.com/ovn-org/libovsdb/ovsdb"
	"github.com/stretchr/testify/require"
)

func TestZZWhereDuringConnect(t *testing.T) {
	var defSchema ovsdb.DatabaseSchema
	require.NoError(t, json.Unmarshal([]byte(schema), &defSchema))
	_, sock := newOVSDBServer(t, defDB, defSchema)
	ovs, err := newOVSDBClient(defDB, WithEndpoint(fmt.Sprintf("unix:%s", sock)))
	require.NoError(t, err)
	require.NoError(t, ovs.Connect(context.Background()))
	for i := 0; i < 5; i++ {
		disc := ovs.DisconnectNotify()
		ovs.Close()
		select {
		case <-disc:
		case <-time.After(2 * time.Second):
		}
		require.Eventually(t, func() bool {
			ovs.rpcMutex.RLock()
			defer ovs.rpcMutex.RUnlock()
			return ovs.rpcClient == nil
		}, 2*time.Second, time.Millisecond)
		time.Sleep(20 * time.Millisecond)
		wg := sync.WaitGroup{}
		wg.Add(1)
		go func() {
			defer wg.Done()
			for j := 0; j < 2000; j++ {
				_ = ovs.Where(&Bridge{Name: "x"})
			}
		}()
		require.NoError(t, ovs.Connect(context.Background()))
		wg.Wait()
	}
	ovs.Close()
}
