#!/bin/bash
# usage: tools/trymutant.sh <patch.diff> [property ...]
# Applies the patch to /repo, runs the checks (without positive controls), prints the
# violations, and restores /repo. Development aid for testing checks against seeded changes.
set -u
patch="$1"; shift
props="$*"
[ -z "$props" ] && props=$(jq -r '.checks[].property_id' /verif/MANIFEST.json)
mkdir -p /tmp/trymut_ev/evidence; cp /verif/known_findings.json /tmp/trymut_ev/
cd /repo
if ! git apply --check "$patch" 2>/dev/null; then echo "PATCH DOES NOT APPLY: $patch"; exit 2; fi
git apply "$patch"
hit=""
for p in $props; do
  out=$(VERIF_DIR=/tmp/trymut_ev /verif/bin/lovcheck -property $p -nocontrols 2>&1)
  if echo "$out" | grep -q "^VIOLATION"; then
    hit="$hit $p"
    echo "== $p"; echo "$out" | grep -v "^lovcheck\|^  rule\|^VIOLATION" | cut -c1-260 | head -6
  fi
done
git checkout -- . 
echo "DETECTED BY:${hit:- none}"
