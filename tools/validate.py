#!/usr/bin/env python3
import json, jsonschema, glob, sys
m=json.load(open('/verif/MANIFEST.json')); s=json.load(open('/root/.vp/MANIFEST.schema.json'))
jsonschema.validate(m,s); print("manifest ok")
es=json.load(open('/root/.vp/EVIDENCE.schema.json'))
for f in sorted(glob.glob('/verif/evidence/C*.json')):
    e=json.load(open(f)); jsonschema.validate(e,es); print(f,"ok", e["coverage"]["obligations"], e["violations"])
