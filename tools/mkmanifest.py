#!/usr/bin/env python3
"""Generates /verif/MANIFEST.json from the checker's own property/rule table
(`lovcheck -dumpprops`), so the manifest cannot drift from what is checked."""
import json, os, subprocess, sys

HERE = os.path.dirname(os.path.dirname(os.path.abspath(__file__)))

TECHNIQUE = {
 "C01": "protocol-table agreement (typed AST) + SSA lockset dataflow",
 "C02": "who-may-write / provenance analysis (SSA) + dominance of the error scan",
 "C03": "exhaustiveness of sibling switch tables (typed AST) + must-pass-through guards (SSA dominance)",
 "C04": "who-may-write + SSA value provenance of the reference index + carrier exhaustiveness",
 "C05": "index write discipline: SSA path rule on owner-checked removal, who-may-write, lockset",
 "C06": "must-pass-through ordering of commit-time checks (SSA dominance) + constant-argument wiring",
 "C07": "protocol-table agreement + must-pass-through / once-only path rules + nil-guard obligations (SSA)",
 "C08": "exhaustiveness tables + dominance rule on the condition-evaluation loop + provenance",
 "C09": "exhaustiveness of conversion tables + dominance of type guards",
 "C10": "ownership (provenance) analysis of in-place algorithm arguments over SSA and static callers",
 "C11": "field-provenance rules on the accumulator (which value may be stored into old/new, under which dominating condition), store/delete pairing on the emptiness test, ownership analysis of in-place merge arguments (SSA)",
 "C12": "encoder/decoder slot-table agreement by taint propagation over the typed AST",
 "C13": "SSA value-provenance (freshness) analysis with interprocedural summaries",
 "C14": "event/mutation pairing by SSA dominance + channel producer/consumer census",
 "C15": "member coverage by type, two-phase (write-before-read) path rule, guard-locality rule (SSA)",
 "C16": "interprocedural typestate (purge/populate) analysis over SSA with one guard refinement",
 "C17": "SSA lockset dataflow (held-across, outermost lock, registration under lock) + who-may-write",
 "C18": "SSA lockset dataflow: pairing on all return paths, guarded-by, outermost-lock order",
 "C19": "totality proof obligations over SSA (index bounds, checked assertions, nil guards, hashable keys, non-zero divisors)",
 "C20": "generator/mapper table agreement (typed AST) + map-iteration-order lint + deep-copy field coverage",
}

NOTE = ("Trusted base: go/types, go/ssa and dominators of golang.org/x/tools v0.29.0; the frozen rule tables in /verif/checker "
        "(guarded-by table, exhaustiveness sites, in-place function table, axioms: model.Clone/CreateModel/NewModel return fresh objects); "
        "the Go standard library and cenkalti/rpc2 behave as documented. Scope: the 16 type-checking non-test packages. "
        "The check decides the structural clause stated in level_claimed.text (a necessary condition of the property), not its value-level behaviour.")

NOT_APPLICABLE = {
 "C11": "the merge laws (first old / last new, cancellation, modify composition w.r.t. the original) are algebra over runtime rows; the only structural facts available (e.g. 'old of the accumulator is assigned once') would encode today's implementation rather than a necessary condition of the law, so a static rule would be a brittle proxy (DESIGN.md §6)",
}

def main():
    props = [json.loads(l)["id"] for l in open(os.path.join(HERE, "properties.jsonl"))]
    dump = json.loads(subprocess.check_output([os.path.join(HERE, "bin", "lovcheck"), "-dumpprops"]))
    table = {p["ID"]: p for p in dump}
    checks = []
    for pid in props:
        if pid not in table:
            continue
        t = table[pid]
        rules = ", ".join(r["id"] for r in t["Rules"])
        text = (t["Explanation"] + " Not covered: " + t["NotCovered"] + ". Every obligation is enumerated exhaustively over its scope on each run "
                "from /repo's current working tree; an obligation that cannot be discharged, an anchor that no longer resolves, or a rule matching fewer "
                "instances than confirmed by hand fails the check. Level 'other': an exact static decision of a named structural clause, stronger than sampling "
                "(all paths, all call sites) but not a proof of the behavioural property.")
        checks.append({
            "property_id": pid,
            "quick_cmd": "./run.sh %s quick" % pid,
            "thorough_cmd": "./run.sh %s thorough" % pid,
            "evidence_file": "/verif/evidence/%s.json" % pid,
            "replay_cmd_template": "./bin/lovcheck -replay {path}",
            "engine": "lovcheck",
            "technique": "static analysis: " + TECHNIQUE[pid] + " [rules " + rules + "]",
            "level_claimed": {"category": "other", "text": text, "design_ref": "DESIGN.md §4 (rule engines), §5 " + pid},
            "level_note": NOTE,
        })
    na = [{"property_id": pid, "reason": NOT_APPLICABLE[pid]} for pid in props if pid not in table]
    m = {
        "version": 1,
        "setup_cmd": "cd /verif/checker && GOFLAGS=-mod=mod GOPROXY=off GOSUMDB=off GOTOOLCHAIN=local GOWORK=off go build -o /verif/bin/lovcheck .",
        "hooks": {
            "guard": "verif",
            "enable": "none needed: static analysis reads /repo's working tree, no instrumentation is compiled in",
            "baseline_off_cmd": "cd /repo && GOFLAGS=-mod=mod go test -vet=off -count=1 -timeout 25m ./...",
            "source_commits": [],
            "add_only": True,
        },
        "engines": [
            {"name": "lovcheck", "path": "/verif/checker", "serves_properties": sorted(table),
             "kind_free_text": "repository-specific static analyser (go/packages + go/types + go/ssa, x/tools v0.29.0): lockset dataflow, value provenance, codec/table agreement, exhaustiveness, typestate, totality obligations; positive controls as in-memory overlay variants"},
        ],
        "checks": checks,
        "not_applicable": na,
        "notes": "All claims are at level 'other': each decides a named structural clause of its property from the source of /repo's working tree on every run; nothing from /repo is executed. Known/fixed findings: /verif/known_findings.json (all entries are 'fixed', i.e. suppress nothing). Positive controls (seeded in-memory variants of the current tree) are re-run by every check and recorded in the evidence. Seeded property-breaking changes used to test the checks: /verif/seeded/ (RESULTS.md); property-preserving patches that must stay silent: /verif/benign/.",
    }
    json.dump(m, open(os.path.join(HERE, "MANIFEST.json"), "w"), indent=1)
    print("wrote MANIFEST.json:", len(checks), "checks,", len(na), "not claimed")

main()
