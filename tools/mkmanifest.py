#!/usr/bin/env python3
"""Generates /verif/MANIFEST.json from the table below (kept in one place so
MANIFEST stays valid while checks are added)."""
import json, os, sys

HERE = os.path.dirname(os.path.dirname(os.path.abspath(__file__)))

# property -> (engine, technique, level text, level note, design_ref)
CLAIMS = {
 "C18": ("E1-locks",
         "SSA lockset dataflow (pairing, guarded-by, outermost-lock order)",
         "Structural necessary conditions of C18, decided exhaustively over every function of client/cache/server/inmemory: every mutex acquired is released or deferred on every return path (L1, with acquire-wrapper summaries); every access to a lock-guarded field happens with its lock must-held, in write mode for writes, through all static callers of unexported helpers (L2); rpcMutex/txnMutex are never acquired while holding a lock that is elsewhere taken under them (L3'). A removed unlock, a new early return inside a locked region, an unguarded access or an inverted lock order is reported with file:line. It does not decide absence of all data races or general deadlock freedom.",
         "Trusts go/ssa and the frozen guarded-by table; fields ordered by channels/WaitGroup are outside the table; lock classes are per struct field (not per object).",
         "DESIGN.md §4 E1, §5 C18"),
 "C19": ("E4-totality",
         "SSA dominance + value-equivalence proof obligations (index bounds, checked assertions, nil guards, hashable keys, non-zero divisors)",
         "Totality obligations on the code that consumes untrusted input, decided for every site: in every UnmarshalJSON of package ovsdb and the functions they reach, each slice/string index needs a dominating length test on an equivalent operand (P-IDX), each single-result type assertion a dominating successful comma-ok assertion/type-switch arm (P-ASSERT), each optional pointer member a dominating nil test (P-NIL), each interface-typed map key a comparable dynamic type on every path (P-HASH); on the transaction path every optional member of an Operation is nil-tested before use (P-NIL-TXN) and every integer / and % has a non-zero divisor locally or through the ValidateMutation gate pair (P-DIV). An undischarged obligation is a concrete panic site. It does not cover assertions in the transaction path that rely on upstream schema validation, nor resource exhaustion.",
         "Trusts go/ssa; equal loads of an address-taken local are identified when no write can occur between them; encoding/json does not retain &local. Scope: ovsdb decoders + functions reachable from OvsdbServer.Transact.",
         "DESIGN.md §4 E4, §5 C19"),
}

NOT_APPLICABLE = {
 "C11": "the merge laws (first old / last new, cancellation, modify composition) are algebra over runtime rows; no structural necessary condition that is not merely today's implementation was found (DESIGN.md §6)",
}

PENDING_REASON = "static check designed (DESIGN.md §5) but not built in this revision; not claimed until it is"

def main():
    props = [json.loads(l)["id"] for l in open(os.path.join(HERE, "properties.jsonl"))]
    checks = []
    for pid in props:
        if pid not in CLAIMS:
            continue
        eng, tech, text, note, ref = CLAIMS[pid]
        checks.append({
            "property_id": pid,
            "quick_cmd": "./run.sh %s quick" % pid,
            "thorough_cmd": "./run.sh %s thorough" % pid,
            "evidence_file": "/verif/evidence/%s.json" % pid,
            "replay_cmd_template": "./bin/lovcheck -replay {path}",
            "engine": eng,
            "technique": "static analysis: " + tech,
            "level_claimed": {"category": "other", "text": text, "design_ref": ref},
            "level_note": note,
        })
    na = []
    for pid in props:
        if pid in CLAIMS:
            continue
        na.append({"property_id": pid, "reason": NOT_APPLICABLE.get(pid, PENDING_REASON)})
    m = {
        "version": 1,
        "setup_cmd": "cd /verif/checker && GOFLAGS=-mod=mod GOPROXY=off GOSUMDB=off GOTOOLCHAIN=local GOWORK=off go build -o /verif/bin/lovcheck .",
        "hooks": {
            "guard": "verif",
            "enable": "none needed: static analysis reads /repo's working tree, no instrumentation is compiled in",
            "baseline_off_cmd": "cd /repo && GOFLAGS=-mod=mod go test -vet=off -count=1 -timeout 25m ./...",
            "source_commits": [],
            "add_only": True,
        },
        "engines": [
            {"name": "lovcheck", "path": "/verif/checker", "serves_properties": sorted(CLAIMS), "kind_free_text": "repository-specific static analyser (go/packages + go/types + go/ssa, x/tools v0.29.0): lockset dataflow, value provenance, codec/table agreement, exhaustiveness, typestate"},
        ],
        "checks": checks,
        "not_applicable": na,
        "notes": "All claims are at level 'other': each decides a named structural clause of its property from the source of /repo's working tree on every run; nothing from /repo is executed. Known/fixed findings: /verif/known_findings.json. Positive controls (seeded in-memory variants) are re-run on every check and recorded in the evidence.",
    }
    json.dump(m, open(os.path.join(HERE, "MANIFEST.json"), "w"), indent=1)
    print("wrote MANIFEST.json:", len(checks), "checks,", len(na), "not claimed")

main()
