#!/usr/bin/env python3
"""Runs every check against every seeded change (apply to /repo, analyse, undo) and writes
seeded/<id>/meta.json plus seeded/RESULTS.md. Development tool: /repo is restored after each patch."""
import json, os, subprocess, glob, re, sys
SUM = {
 "C01-m1": ("MonitorCondSince takes its snapshot and registers without txnMutex", "a monitor_cond_since request served between another transaction's notification and its commit (two connections, microsecond window)"),
 "C01-m2": ("update path skips SetField for unchanged columns, leaving the in-place difference scratch in the model", "an update row carrying an unchanged multi-element set / non-empty map next to a changed column"),
 "C02-m1": ("GetReferences hands out the committed reference list", "a rejected transaction that removed the non-last referrer of a multiply referenced row, then a later transaction depending on the count"),
 "C02-m2": ("merge/apply of an operation's update moved after results[i] was recorded", "two inserts with the same explicit uuid in one transaction (merge fails but the operation is reported successful and committed)"),
 "C03-m1": ("rows deleted earlier in the transaction are no longer filtered out of Database.List results", "a delete followed in the same transaction by an operation whose where still matches the deleted row"),
 "C03-m2": ("update path continues on unchanged columns without SetField", "an update naming a changing column together with an unchanged collection column"),
 "C04-m1": ("GetReferences returns the stored slice", "multi-step history: rejected transaction removing an older reference, then two valid transactions"),
 "C04-m2": ("txnMutex moved from OvsdbServer.Transact into transact(): notify+commit outside the lock", "two clients: one garbage-collects a row while the other adds a reference to it between validation and commit"),
 "C05-m1": ("RowCache.Update removes schema index entries unconditionally", "a batch moving an indexed value from row A to row B applied in the order B, A"),
 "C05-m2": ("intersectUUIDSets trims its smaller operand in place", "a lookup covered by two client indexes each matching >= 2 rows; a later lookup misses rows"),
 "C06-m1": ("checkIndexes skips transaction-cache rows the transaction did not write", "[select T where a==v, insert T{a:v}] in one transaction commits a duplicate"),
 "C06-m2": ("garbage-collected rows recorded in DeletedRows only when not yet in the transaction cache", "touch c1, insert c2 with the same index value, repoint the only strong reference: wrongly rejected"),
 "C07-m1": ("txnMutex released right after Commit; processMonitors runs outside the lock", "a slow monitor acknowledging T1 while a second client commits T2: monitors see T2 before T1"),
 "C07-m2": ("filterColumns deletes columns from the shared update row in place", "two monitors on one table with different column sets"),
 "C08-m1": ("intersectUUIDSets in place (same defect class as C05-m2, written independently)", "zone==a && tier==x over two overlapping client indexes, then tier==x"),
 "C08-m2": ("index value hashed in the order the conditions were written instead of indexSpec.columns", "a multi-column index queried with == conditions in another order"),
 "C09-m1": ("a set optional pointing at a zero value counts as default and is omitted from the row", "optional &false / &0 / &\"\" through NewRow without explicit fields"),
 "C09-m2": ("SetField relaxed from AssignableTo to ConvertibleTo+Convert", "SetField with a mismatched but convertible Go value"),
 "C10-m1": ("field stored back only when isDifferent", "unchanged multi-element set next to a changed column"),
 "C10-m2": ("setDifference swaps operands when b is larger: computes in place in the caller's b", "new set strictly larger than a non-empty current set, shared element not at the tail"),
 "C12-m1": ("simpleAtomic() refactored into a switch that forgets minLength/maxLength", "string column whose only feature is a length constraint"),
 "C12-m2": ("OvsMap decoder rejects every array value that is not a uuid", "map whose values are sets of UUIDs"),
 "C13-m1": ("rowsByModels returns r.cache[uuid] itself on the index path", "lookup through an index (not by uuid), caller mutates the result"),
 "C13-m2": ("generated Equals for map fields drops the key-presence test (template text)", "maps of equal size whose differing keys hold the zero value"),
 "C14-m1": ("AddEvent issued before the cache mutation's error is known", "a change the row cache rejects (duplicate insert, delete of unknown row)"),
 "C14-m2": ("each handler invoked on its own goroutine", "a burst of events on a multi-core scheduler"),
 "C15-m1": ("pass 2 of ExpandNamedUUIDs starts at the first named insert", "a name used in an operation that precedes every named insert"),
 "C15-m2": ("realUUID/namedUUID hoisted out of api.Create's per-model loop", "one Create() call mixing named, real and empty _uuid models"),
 "C16-m1": ("deferred-update reset moved out of the reconnect retry closure", "first reconnect attempt receives an update and is cut before the monitor reply"),
 "C16-m2": ("every restarted cond_since monitor resumes from its last transaction id", ">= 2 monitors, server answering found=true with only the delta"),
 "C17-m1": ("select-only transactions skip txnMutex", "a select overlapping another client's multi-row commit"),
 "C17-m2": ("processMonitors breaks (instead of continue) at a closed connection", "a monitoring client has disconnected and map iteration visits it first"),
 "C18-m1": ("TableCache.Table() reads t.cache without the lock", "a cache read overlapping a reconnect purge (-race)"),
 "C18-m2": ("defer monitorsMutex.Unlock replaced by an explicit unlock that the error return skips", "reconnect whose monitor call fails: the next retry deadlocks"),
 "C19-m1": ("OvsMap key guard rejects only raw arrays/objects; decoded OvsSet keys slip through", "[\"map\",[[[\"set\",[]],\"v\"]]] panics: hash of unhashable type"),
 "C19-m2": ("error scan replaced by a look at the last result only", "a failing operation followed by another one: nil result dereferenced, server dies"),
 "C20-m1": ("generated map equality drops the key-presence check (template text)", "equal-size maps whose differing keys hold zero values"),
 "C20-m2": ("generator rewrites the output file with WriteAt without truncating", "regenerate into the same directory after the schema shrank"),
}
def sh(cmd, **kw): return subprocess.run(cmd, shell=True, capture_output=True, text=True, **kw)
props=[c["property_id"] for c in json.load(open("/verif/MANIFEST.json"))["checks"]]
os.makedirs("/tmp/trymut_ev/evidence", exist_ok=True)
sh("cp /verif/known_findings.json /tmp/trymut_ev/")
rows=[]
for d in sorted(glob.glob("/verif/seeded/C*-*m?")):
    sid=os.path.basename(d); prop=sid.split("-")[0]
    patch=d+"/patch.diff"
    if sh("git -C /repo status --porcelain").stdout.strip():
        print("repo dirty, abort"); sys.exit(1)
    if sh("git -C /repo apply "+patch).returncode!=0:
        print("cannot apply",sid); continue
    det={}
    for p in props:
        o=sh("VERIF_DIR=/tmp/trymut_ev /verif/bin/lovcheck -property %s -nocontrols"%p).stdout
        if "VIOLATION" in o:
            rules=sorted(set(re.findall(r"^\S+:\d+ (\S+) ", o, re.M)))
            det[p]=rules
    sh("git -C /repo checkout -- .")
    what,needs=SUM.get(sid,("",""))
    if not what:
        # second-wave changes: take the summary from the author's notes
        try:
            lines=[l.strip(" #*-") for l in open(d+"/notes.md") if l.strip(" #*-\n")]
            what=lines[0][:200] if lines else ""
            needs="see notes.md"
        except Exception:
            pass
    meta={"id":sid,"breaks_property":prop,"change":what,"needs_to_manifest":needs,
          "origin":"written by an independent sub-agent that saw only the property text and a scratch worktree (nothing from /verif)",
          "confirmed":open(d+"/verified.txt").read().strip().split("\n"),
          "checked_with":"git -C /repo apply patch.diff; ./bin/lovcheck -property <each> -nocontrols; git -C /repo checkout -- .",
          "detected_by_properties":sorted(det),"rules_fired":det,
          "detected_by_own_property": prop in det}
    json.dump(meta,open(d+"/meta.json","w"),indent=1)
    rows.append((sid,prop in det,sorted(det),sorted(set(sum(det.values(),[]))),what))
    print(sid, "OWN" if prop in det else ("other" if det else "MISSED"), sorted(det))
with open("/verif/seeded/RESULTS.md","w") as f:
    f.write("# Seeded property-breaking changes vs. the checks\n\nEach change was written independently (property text only), confirmed to build, pass the existing suite, and fail its demonstration only when applied.\n\n| id | detected by its own property's check | all properties that fire | rules | change |\n|---|---|---|---|---|\n")
    for sid,own,ps,rs,what in rows:
        f.write("| %s | %s | %s | %s | %s |\n"%(sid,"yes" if own else ("no (others)" if ps else "**no**")," ".join(ps)," ".join(rs),what))
    n=len(rows); o=sum(1 for r in rows if r[1]); a=sum(1 for r in rows if r[2])
    f.write("\n%d changes; %d detected by the check of the property they break; %d detected by some check; %d not detected.\n"%(n,o,a,n-a))
