#!/bin/bash
# usage: tools/tryrefactor.sh <patch.diff>  — applies a behaviour-preserving patch to /repo, runs every
# check (no controls), prints any alarm (= false alarm), restores /repo.
set -u
patch="$1"
mkdir -p /tmp/trymut_ev/evidence; cp /verif/known_findings.json /tmp/trymut_ev/
cd /repo
if ! git apply --check "$patch" 2>/dev/null; then echo "PATCH DOES NOT APPLY: $patch"; exit 2; fi
git apply "$patch"
bad=""
for p in $(jq -r '.checks[].property_id' /verif/MANIFEST.json); do
  out=$(VERIF_DIR=/tmp/trymut_ev /verif/bin/lovcheck -property $p -nocontrols 2>&1)
  if echo "$out" | grep -q "^VIOLATION"; then
    bad="$bad $p"
    echo "== $p"; echo "$out" | grep -v "^lovcheck\|^  rule\|^VIOLATION" | cut -c1-300 | head -8
  fi
done
git checkout -- .
echo "FALSE ALARMS:${bad:- none}"
