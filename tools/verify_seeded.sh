#!/bin/bash
# usage: tools/verify_seeded.sh <src-dir-with m?.diff etc> <Cxx> <m1|m2> <dest /verif/seeded/...>
# Confirms, in a scratch worktree of /repo (outside /repo and /verif), that a seeded change
#   - applies, builds, and passes the existing unedited test suite,
#   - makes its demonstration FAIL, while the demonstration PASSES without the change.
# On success copies patch.diff, the demonstration and a meta.json skeleton to the destination.
set -u
src="$1"; id="$2"; m="$3"; dest="$4"
export GOFLAGS=-mod=mod GOPROXY=off GOSUMDB=off GOTOOLCHAIN=local
wt=/tmp/vseed/$id-$m
rm -rf "$wt"; mkdir -p /tmp/vseed
git -C /repo worktree add -q "$wt" HEAD || exit 2
cleanup() { git -C /repo worktree remove --force "$wt" >/dev/null 2>&1; }
trap cleanup EXIT
demo=$(ls "$src"/${m}_demo* | head -1)
cmd=$(head -8 "$demo" | grep -o "go test [^\`]*" | head -1 | sed 's/[[:space:]]*$//')
pkg=$(echo "$cmd" | awk '{print $NF}')
dir=${pkg#./}; dir=${dir%/}
[ -z "$cmd" ] && { echo "$id $m: cannot parse demo command"; exit 2; }
cd "$wt"
mkdir -p "$dir"
log=/tmp/vseed/$id-$m.log; : > "$log"
# 1. demo without the change
cp "$demo" "$dir/zz_demo_test.go"
if timeout 600 bash -c "$cmd" >>"$log" 2>&1; then without=pass; else without=FAIL; fi
rm -f "$dir/zz_demo_test.go"
# 2. apply, build, existing suite
git apply "$src/$m.diff" || { echo "$id $m: patch does not apply"; exit 2; }
if go build ./cache ./client ./database/... ./mapper ./model ./modelgen ./ovsdb/... ./server ./updates ./cmd/... >>"$log" 2>&1; then build=ok; else build=FAIL; fi
if timeout 900 go test -vet=off -count=1 ./cache ./client ./database/... ./mapper ./model ./ovsdb/... ./server ./updates >>"$log" 2>&1; then suite=pass; else suite=FAIL; fi
# 3. demo with the change
cp "$demo" "$dir/zz_demo_test.go"
if timeout 600 bash -c "$cmd" >>"$log" 2>&1; then with=pass; else with=FAIL; fi
rm -f "$dir/zz_demo_test.go"
echo "$id $m: build=$build suite=$suite demo_without=$without demo_with=$with"
if [ "$build" = ok ] && [ "$suite" = pass ] && [ "$without" = pass ] && [ "$with" = FAIL ]; then
  mkdir -p "$dest"
  cp "$src/$m.diff" "$dest/patch.diff"
  cp "$demo" "$dest/$(basename "$demo" | sed "s/^${m}_//")"
  cp "$src/$m.md" "$dest/notes.md" 2>/dev/null
  cat > "$dest/verified.txt" <<EOF
verified $(date -u +%Y-%m-%dT%H:%MZ) in a scratch worktree of /repo HEAD $(git -C /repo rev-parse --short HEAD):
build=$build existing_suite=$suite demo_without_change=$without demo_with_change=$with
demo command: $cmd   (demo placed as $dir/zz_demo_test.go)
EOF
  exit 0
fi
exit 1
