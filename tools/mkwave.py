#!/usr/bin/env python3
"""Prepare scratch worktrees and TASK.md files for a wave of independent seeding agents.
usage: mkwave.py mutants <dir>   (one worktree per property under <dir>/<Cnn>)
       mkwave.py evolve  <dir>   (six worktrees <dir>/E1..E6: property-preserving feature work / refactorings)
The agents get only TASK.md (property text), never anything from /verif."""
import json, os, subprocess, sys
kind, base = sys.argv[1], sys.argv[2]
ENV = '''Environment: there is no network. Prefix every go command with
`export GOFLAGS=-mod=mod GOPROXY=off GOSUMDB=off GOTOOLCHAIN=local;`
The packages `example/...` and the *tests* of `modelgen` do not build in this tree (generated files missing) — ignore them (for modelgen, put demonstrations in a new directory/package that imports it).
Build: `go build ./cache ./client ./database/... ./mapper ./model ./modelgen ./ovsdb/... ./server ./updates ./cmd/...`
Existing tests: `go test -vet=off -count=1 ./cache ./client ./database/... ./mapper ./model ./ovsdb/... ./server ./updates`  (client takes ~10 s)
'''
T = '''# Task

You are helping to test a verification tool by writing realistic *bugs*.

Your working directory is `{wd}` — a private git worktree of the Go library **ovn-org/libovsdb** (an OVSDB / RFC 7047 library: JSON-RPC client with a monitor-fed indexed cache, an ORM mapper, and an in-memory OVSDB server with a transaction and referential-integrity engine). Work ONLY inside `{wd}`. Do NOT read, list or modify `/verif` or `/repo` or any other directory under {base} (the result must be independent of them). Do NOT use `git stash` (the stash is shared between worktrees); to test without your change use `git diff > {wd}/out/tmp.diff && git apply -R {wd}/out/tmp.diff`, and re-apply afterwards with `git apply {wd}/out/tmp.diff`.

''' + ENV + '''
## The property (it holds on this tree as far as we know)

**{title}**

{statement}

It is meant to hold: {quant}

Code it is anchored in: {files}

## What to produce

Produce **three different** source changes (patches) to non-test `.go` files of the library, each of which BREAKS this property, while

1. the module still builds (command above),
2. the existing test suite, unedited, still passes (command above) — run it and make sure,
3. the breakage needs something specific to manifest — a particular interleaving, a crash/fault at a particular point, a multi-step sequence of operations, an unusual input, or two cooperating sites that each look fine alone — i.e. ordinary use would NOT expose it at once,
4. the change looks like a plausible developer edit and is small (about 1–20 changed lines).

The three changes must be of **different kinds and in different functions** (ideally different files), chosen from DIFFERENT rows of this list:
 a. a lock that is dropped, narrowed, moved, downgraded (Lock -> RLock) or taken in another order; work moved into a goroutine; a channel send/receive moved;
 b. an error that is swallowed, logged instead of returned, or returned too late (after a side effect); a cleanup that is skipped on one exit path;
 c. a copy that is dropped or made shallow; a shared slice/map that is reused or returned; in-place modification of an argument;
 d. a case that is forgotten in a switch/table, or two tables that no longer agree (encoder vs decoder, validator vs executor, client vs server);
 e. a condition that is slightly too weak or too strong; an off-by-one; a wrong constant, flag or default; a wrong operand of a comparison;
 f. reordered statements whose order matters; a check moved after the action it guards; state updated before it is validated;
 g. a "performance optimisation" (caching, early exit, fast path, skipping work that "cannot matter") that is wrong in a corner case.
Avoid the most obvious edit; prefer subtle ones a reviewer could accept. Prefer code that is NOT the first function one would think of for this property (callers, helpers, the other side of the wire, a sibling implementation).

For each change also write a demonstration: a Go test file (put it in the relevant package directory as `zz_demo_test.go`) that FAILS (or reports the race/deadlock/panic/wrong result) WITH the change applied and PASSES WITHOUT it. Run it both ways yourself and record the outcome. Use `-race` or timeouts where the failure is a race or a hang. Keep demonstrations reasonably fast (< 60 s).

## Deliverables (in `{wd}/out/`)

For k = 1, 2, 3:
- `m<k>.diff` — `git diff` of the library change only (NOT including the demo test file)
- `m<k>_demo_test.go` — the demonstration; its FIRST LINE must be a comment of exactly this form: `// Place in: <dir>/zz_demo_test.go   Run: go test -vet=off -count=1 -run '<TestName>' ./<dir>` (add `-race` / `-timeout` if needed)
- `m<k>.md` — which clause of the property it breaks, which row (a–g) it belongs to, what is needed for the breakage to manifest, the commands you ran (build, existing tests, demo with and without the change) and their results

If, while working, you find that the property is ALREADY violated on the unchanged tree, add `out/baseline_violation.md` with a reproducer (this is valuable), and still deliver the three changes.

Before finishing, restore the worktree (`git checkout -- .` and delete any demo test files you added outside `out/`), leaving only `out/` behind. Finish with a short report.
'''
E = '''# Task

You are helping to test a static verification tool for FALSE ALARMS by writing *legitimate maintenance patches* that keep every guarantee of the library intact.

Your working directory is `{wd}` — a private git worktree of the Go library **ovn-org/libovsdb**. Work ONLY inside `{wd}`. Do NOT read or modify `/verif`, `/repo`, or other directories under {base}. Do NOT use `git stash`.

''' + ENV + '''
## Guarantees that every patch must keep (read them carefully)

{props}

## What to produce

Produce **five independent patches** (`e1.diff` … `e5.diff`, each created from a clean tree with `git diff`, then `git checkout -- .` before the next) to NON-test code, focused on: {focus}

Each patch is the kind of change a maintainer merges, and must NOT weaken any guarantee above for any input or schedule:
- {kinds}
Make each patch touch 10–80 lines. Be careful and conservative about semantics: keep every lock, copy, check, error test and event; keep the order of dependent side effects; new code paths must honour the same guarantees (e.g. a new accessor returns copies and takes the lock; a new case validates like its siblings).

For each patch: it must build and the full existing test suite must pass (run it). Write `e<k>.md` describing the change and arguing, guarantee by guarantee where relevant, why nothing is weakened.

Deliverables in `{wd}/out/`: `e1.diff`…`e5.diff`, `e1.md`…`e5.md`. Leave the worktree clean at the end. Finish with a short report.
'''
props = [json.loads(l) for l in open('/verif/properties.jsonl')]
def wt(wd):
    os.makedirs(os.path.dirname(wd), exist_ok=True)
    subprocess.check_call(['git', '-C', '/repo', 'worktree', 'add', '-q', wd, 'HEAD'])
    os.makedirs(wd + '/out', exist_ok=True)
if kind == 'mutants':
    for p in props:
        wd = base + '/' + p['id']
        wt(wd)
        open(wd + '/TASK.md', 'w').write(T.format(wd=wd, base=base, title=p['title'], statement=p['statement'], quant=p['quantifier']['text'], files=', '.join(p['anchors']['files'])))
else:
    ptxt = '\n\n'.join('**%s** %s' % (p['title'], p['statement']) for p in props)
    groups = {
        'E1': ('client/client.go, client/options.go, client/monitor.go, client/metrics.go', 'new small features or options (e.g. a new read-only accessor, an extra metric, an extra log line with more context, a new client option that defaults to the current behaviour), refactorings of connect/reconnect/monitor code, better error messages, context/timeout plumbing that does not change defaults'),
        'E2': ('cache/cache.go, cache/uuidset.go, client/api.go, client/condition.go', 'new read-only helpers (copy-returning, lock-taking), micro-optimisations that are really equivalent (pre-sized maps/slices, avoiding a repeated lookup), restructured loops, clearer error messages, splitting long functions, extra defensive checks that only reject inputs that were already rejected'),
        'E3': ('server/server.go, server/monitor.go, database/inmemory/inmemory.go, database/transaction/transaction.go, database/transaction/errors.go', 'extra logging, new read-only server accessor, refactoring of handler registration, splitting Transact into phases without changing locking, clearer error details, pre-sizing, replacing manual loops with helpers, adding doc comments, adding a defensive check that duplicates an existing one'),
        'E4': ('updates/*.go, database/references.go', 'equivalent restructuring of merge/difference/mutate code (helper extraction, early returns, table-driven dispatch with the same entries), pre-sizing, clearer errors, comments, renamed locals, an extra sanity check that cannot trigger'),
        'E5': ('ovsdb/*.go (notation, set, map, uuid, condition, mutation, schema, bindings, error, named_uuid, monitor_select, update*)', 'equivalent restructuring of (un)marshalling and validation code, new String()/GoString helpers, new exported pure helper functions, table-driven dispatch with the same entries, better error text, pre-sizing; keep wire formats byte-for-byte'),
        'E6': ('mapper/*.go, model/*.go, modelgen/*.go, ovsdb/serverdb/*.go, cmd/*', 'new pure helpers, clearer errors, restructured reflection code with identical results, extra doc comments in generated output ONLY if they do not change declared types, CLI flag help text, pre-sizing'),
    }
    if kind == 'evolve2':
        groups = {
            'I1': ('ovsdb/named_uuid.go (ExpandNamedUUIDs, expandColumnNamedUUIDs, expandNamedUUID, expandNamedUUIDAtomic) and its callers', 'equivalent restructuring: one helper per operation member (where / mutations / rows / row), a helper per pass, dispatch on the operation kind that still treats every member every kind may carry, pre-sizing, clearer errors, skipping work only where it is provably a no-op for every input (say why), table-driven variants'),
            'I2': ('client/client.go: connect, tryEndpoint, transact, Transact, handleInactivityProbes, handleDisconnectNotification, handleClientErrors, handleCacheErrors, Disconnect/Close', 'equivalent restructuring: a helper that starts a handler goroutine and does the WaitGroup accounting, a helper that signals traffic to the inactivity probe, error classification helpers (errors.Is/As), clearer logging, splitting connect into phases with the same order of side effects, context plumbing that keeps defaults'),
            'I3': ('ovsdb/map.go, ovsdb/set.go, ovsdb/row.go, ovsdb/notation.go, ovsdb/uuid.go, ovsdb/condition.go, ovsdb/mutation.go', 'equivalent restructuring of the decoders: key/element validation moved into helpers, type switches rewritten as comma-ok chains or the reverse, loops that collect into pre-sized containers, early returns, error wrapping with more context (keeping errors returned where they were returned), byte-for-byte identical wire formats'),
            'I4': ('ovsdb/schema.go, ovsdb/bindings.go, ovsdb/error.go, ovsdb/update*.go, mapper/mapper.go, mapper/info.go', 'restructured error handling that keeps every failure visible to the caller: inverted conditions (`if err == nil {{ ... }}` vs early return), named results, errors wrapped with %w, errors collected and joined instead of returning the first (all still reported), helper extraction, table-driven dispatch with the same entries'),
            'I5': ('updates/references.go, updates/updates.go, updates/merge.go, cache/cache.go (Update, Delete, Purge, Populate*, index maintenance)', 'equivalent restructuring: helper extraction in the reference tracker loop and in index maintenance, renamed locals, pre-sizing, early returns, clearer errors, comments, replacing a manual loop with a helper'),
        }
    if kind == 'evolve3':
        groups = {
            'J1': ('server/monitor.go (filter, filter2, filterColumns, columnSet, requestFor, Send, Send2, Send3) and the monitor handlers of server/server.go', 'equivalent restructuring: one projection helper, a predicate helper for "is this kind of change selected", filter and filter2 sharing a per-table walker, helper that adds a table update to the result, table-driven dispatch, pre-sizing, clearer logging; keep every notification byte-for-byte'),
            'J2': ('client/client.go: monitor, Monitor, MonitorAll, MonitorCancel, the update/update2/update3 handlers, applyDeferredUpdates, isCacheConsistent/waitForCacheConsistent', 'equivalent restructuring: the three notification handlers sharing helpers (argument decoding, "buffer if deferred", recording the transaction id), the deferral arming/replay moved into methods of database, splitting monitor() into request building / call / apply phases with the same order of side effects and the same locks, clearer errors, comments'),
            'J3': ('cache/cache.go: eventProcessor (AddEvent, Run, AddEventHandler), TableCache accessors (Table, Tables, Mapper, DatabaseModel, Purge), Populate/Populate2/ApplyCacheUpdate; mapper/mapper.go (getData, NewRow, NewCondition*, NewMutation) and mapper/info.go', 'equivalent restructuring: dispatch of an event to a handler moved into a helper, handler snapshot taken under the lock then used, accessor helpers that take the lock, per-column helpers in the mapper (convert + store), early returns, pre-sizing, clearer errors'),
            'J4': ('ovsdb/error.go, ovsdb/notation.go, ovsdb/bindings.go, ovsdb/schema.go, modelgen/generator.go, modelgen/table.go, modelgen/dbmodel.go, cmd/modelgen/main.go', 'restructured error handling that keeps every failure visible to the caller (log AND return, wrap with %w, named results, helper extraction), table-driven variants of switches with the same entries, new String()/helper functions, generator helper extraction that renders byte-identical output'),
            'J5': ('database/transaction/transaction.go, database/inmemory/inmemory.go, updates/mutate.go, updates/difference.go, updates/updates.go', 'equivalent restructuring: per-operation helpers, result bookkeeping helpers, helpers for the in-place set/map algorithms that keep the write-back, early returns, pre-sizing, clearer error details, comments, a defensive check that duplicates an existing one'),
            'J6': ('anywhere in the library (client, cache, server, database, updates, ovsdb, mapper, model)', 'small features a maintainer would merge: a new read-only accessor that returns copies and takes the lock, an extra metric or log line, a new client option that defaults to today\'s behaviour, a new server-side helper RPC that only reads, a new exported pure function with its documentation, context plumbing that keeps defaults'),
        }
    if kind == 'evolve4':
        groups = {
            'K1': ('client/client.go: the update/update2/update3 handlers, setLastTransactionID/lastTransactionID/forgetLastTransactionID, monitor, applyDeferredUpdates, MonitorCancel, handleCacheErrors/handleClientErrors, handleDisconnectNotification, transact and the inactivity probe', 'equivalent restructuring and small robustness work: shared helpers for the three handlers, the per-monitor transaction ids behind a small type with its own lock, clearer logging, early returns, helper extraction in the disconnect/reconnect path with the same order of side effects, extra nil/presence checks that only reject what was already rejected'),
            'K2': ('cache/cache.go: TableCache.Run, eventProcessor, Populate/Populate2/ApplyCacheUpdate, RowCache.Rows*/RowsByCondition/RowsByModels, index helpers in cache/uuidset.go', 'equivalent restructuring: running the processor(s) from a small supervisor helper that still waits for them, per-row helpers, read paths that copy under the lock through a helper, pre-sizing, clearer errors, new read-only accessors that take the lock and return copies'),
            'K3': ('server/server.go and server/monitor.go: Transact/transact, processMonitors, the monitor handlers, filter/filter2/columnSet, Send*', 'equivalent restructuring: argument decoding helpers that keep every length check, handler bodies sharing helpers under the same locks, notification building split into per-table helpers, table-driven dispatch by monitor kind, logging, a new read-only RPC'),
            'K4': ('ovsdb/*.go and mapper/*.go', 'equivalent restructuring of encoders/decoders and the mapper: helper extraction, type switches vs comma-ok chains, error wrapping with %w, pre-sizing, new pure exported helpers with documentation; byte-identical wire formats'),
            'K5': ('database/transaction/*.go, database/inmemory/*.go, database/references.go, updates/*.go', 'equivalent restructuring: per-operation helpers, result/err bookkeeping helpers, reference tracker helpers, in-place set/map helpers that keep the write-back, early returns, pre-sizing, comments'),
            'K6': ('modelgen/*.go, cmd/modelgen/main.go, model/*.go, client/api.go, client/condition.go', 'equivalent restructuring: generator helpers rendering byte-identical output, template blocks moved into named templates, CLI helpers, API helpers that keep cloning and locking, clearer errors'),
        }
    for k, (focus, kinds) in groups.items():
        wd = base + '/' + k
        wt(wd)
        open(wd + '/TASK.md', 'w').write(E.format(wd=wd, base=base, props=ptxt, focus=focus, kinds=kinds))
print('ok')
