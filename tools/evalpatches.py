#!/usr/bin/env python3
"""Development tool: run every check against many patches in parallel, without touching /repo's
working tree. Each worker owns a scratch git worktree of /repo (under /tmp/evalwt, removed at the
end) and analyses it with `lovcheck -repo <worktree> -nocontrols`.

usage: evalpatches.py seeded [glob]   -> rewrites seeded/*/meta.json and seeded/RESULTS.md
       evalpatches.py benign [glob]   -> prints the patches under benign/ that raise an alarm
"""
import json, os, re, subprocess, sys, glob, shutil
from concurrent.futures import ThreadPoolExecutor
import threading, queue
mode = sys.argv[1]
pat = sys.argv[2] if len(sys.argv) > 2 else None
NW = int(os.environ.get("EVAL_WORKERS", "8"))
BASE = os.environ.get("EVAL_BASE", "/tmp/evalwt")
BIN = "/verif/bin/lovcheck.eval" + ("" if BASE == "/tmp/evalwt" else "." + os.path.basename(BASE))
def sh(cmd, **kw): return subprocess.run(cmd, shell=True, capture_output=True, text=True, **kw)
props = [c["property_id"] for c in json.load(open("/verif/MANIFEST.json"))["checks"]]
if mode == "seeded":
    items = sorted(glob.glob("/verif/seeded/" + (pat or "C*-*m?")))
    patches = [(os.path.basename(d), d + "/patch.diff") for d in items]
else:
    items = sorted(glob.glob("/verif/benign/" + (pat or "*.diff")))
    patches = [(os.path.basename(f)[:-5], f) for f in items]
# analyse with a frozen copy of the checker so that rebuilding bin/lovcheck during a long run cannot mix versions
if not os.environ.get("EVAL_KEEP_BINARY"):
    shutil.copy("/verif/bin/lovcheck", BIN)
shutil.rmtree(BASE, ignore_errors=True); os.makedirs(BASE)
sh("git -C /repo worktree prune")
wq = queue.Queue()
for i in range(NW):
    wt = "%s/wt%d" % (BASE, i); ev = "%s/ev%d" % (BASE, i)
    r = sh("git -C /repo worktree add -q --detach %s HEAD" % wt)
    if r.returncode != 0: print(r.stderr); sys.exit(2)
    os.makedirs(ev + "/evidence"); shutil.copy("/verif/known_findings.json", ev)
    wq.put((wt, ev))
ENV = "GOFLAGS=-mod=mod GOPROXY=off GOSUMDB=off GOTOOLCHAIN=local"
def run(item):
    sid, patch = item
    wt, ev = wq.get()
    try:
        if sh("git -C %s apply %s" % (wt, patch)).returncode != 0:
            return sid, None
        det = {}
        # one process, one load of the patched tree, every property (sections start with "== property Cnn")
        allout = sh("%s VERIF_DIR=%s timeout 1800 %s -repo %s -all -nocontrols" % (ENV, ev, BIN, wt)).stdout
        secs = {}
        cur = None
        for line in allout.splitlines():
            m = re.match(r"^== property (\S+)", line)
            if m:
                cur = m.group(1); secs[cur] = []
            elif cur:
                secs[cur].append(line)
        for p in props:
            o = "\n".join(secs.get(p, []))
            if "VIOLATION" in o:
                det[p] = sorted(set(re.findall(r"^\S+:\d+ (\S+) ", o, re.M)))
            elif "lovcheck property=" not in o:
                det[p] = ["CHECK-FAILED-TO-RUN"]
        return sid, det
    finally:
        sh("git -C %s checkout -- . && git -C %s clean -fdq" % (wt, wt))
        wq.put((wt, ev))
try:
    with ThreadPoolExecutor(NW) as ex:
        results = dict(ex.map(run, patches))
finally:
    for i in range(NW):
        sh("git -C /repo worktree remove --force %s/wt%d" % (BASE, i))
    sh("git -C /repo worktree prune"); shutil.rmtree(BASE, ignore_errors=True)
if mode == "benign":
    bad = {k: v for k, v in results.items() if v is None or v}
    for k in sorted(results):
        v = results[k]
        print(k, "PATCH-DOES-NOT-APPLY" if v is None else ("FALSE ALARM " + json.dumps(v) if v else "clean"))
    print("%d patches, %d with alarms" % (len(results), len(bad)))
    sys.exit(1 if bad else 0)
old = {}
rows = []
for d in items:
    sid = os.path.basename(d); prop = sid.split("-")[0]; det = results.get(sid)
    if det is None:
        print("cannot apply", sid); continue
    try: prev = json.load(open(d + "/meta.json"))
    except Exception: prev = {}
    what, needs = prev.get("change", ""), prev.get("needs_to_manifest", "")
    if not what:
        try:
            lines = [l.strip(" #*-") for l in open(d + "/notes.md") if l.strip(" #*-\n")]
            what = lines[0][:200] if lines else ""; needs = "see notes.md"
        except Exception: pass
    meta = {"id": sid, "breaks_property": prop, "change": what, "needs_to_manifest": needs,
            "origin": "written by an independent sub-agent that saw only the property text and a scratch worktree (nothing from /verif)",
            "confirmed": open(d + "/verified.txt").read().strip().split("\n"),
            "checked_with": "patch applied to a scratch worktree of /repo; ./bin/lovcheck -repo <worktree> -property <each> -nocontrols (tools/evalpatches.py seeded); equivalent to: git -C /repo apply patch.diff; ./run.sh <each> quick; git -C /repo checkout -- .",
            "detected_by_properties": sorted(det), "rules_fired": det, "detected_by_own_property": prop in det}
    json.dump(meta, open(d + "/meta.json", "w"), indent=1)
    rows.append((sid, prop in det, sorted(det), sorted(set(sum(det.values(), []))), what))
    print(sid, "OWN" if prop in det else ("other" if det else "MISSED"), sorted(det))
if pat is None:
    with open("/verif/seeded/RESULTS.md", "w") as f:
        f.write("# Seeded property-breaking changes vs. the checks\n\nEach change was written independently (property text only), confirmed to build, pass the existing suite, and fail its demonstration only when applied. Ids: `Cnn-m<k>` first wave, `Cnn-w2m<k>` second, `Cnn-w3m<k>` third.\n\n| id | detected by its own property's check | all properties that fire | rules | change |\n|---|---|---|---|---|\n")
        for sid, own, ps, rs, what in rows:
            f.write("| %s | %s | %s | %s | %s |\n" % (sid, "yes" if own else ("no (others)" if ps else "**no**"), " ".join(ps), " ".join(rs), what.replace("|", "/")))
        for w, name in (("-m", "wave 1"), ("-w2m", "wave 2"), ("-w3m", "wave 3")):
            sel = [r for r in rows if w in r[0]]
            if sel:
                f.write("\n%s: %d changes; %d detected by the check of the property they break; %d by some check." % (name, len(sel), sum(1 for r in sel if r[1]), sum(1 for r in sel if r[2])))
        n = len(rows); o = sum(1 for r in rows if r[1]); a = sum(1 for r in rows if r[2])
        f.write("\n\n%d changes; %d detected by the check of the property they break; %d detected by some check; %d not detected.\n" % (n, o, a, n - a))
n = len(rows); o = sum(1 for r in rows if r[1]); a = sum(1 for r in rows if r[2])
print("%d changes; %d own; %d some; %d missed" % (n, o, a, n - a))
